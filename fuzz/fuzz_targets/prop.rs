#![no_main]
//! libFuzzer target: the input is the entropy tape of the selected sub-check's generator (see harness/fuzz.rs)
use libfuzzer_sys::fuzz_target;

struct JsonCodec;
impl dnp3::verif::engine::Codec for JsonCodec {
    fn to_string<T: serde::Serialize>(t: &T) -> String {
        serde_json::to_string(t).unwrap_or_else(|e| format!("\"<unserialisable: {e}>\""))
    }
    fn from_str<T: serde::de::DeserializeOwned>(s: &str) -> Result<T, String> {
        serde_json::from_str(s).map_err(|e| e.to_string())
    }
}

fn target() -> &'static str {
    static T: std::sync::OnceLock<String> = std::sync::OnceLock::new();
    T.get_or_init(|| std::env::var("VERIF_FUZZ_TARGET").unwrap_or_else(|_| "C06:stream".to_string()))
}

fuzz_target!(|data: &[u8]| {
    dnp3::verif::fuzz::run::<JsonCodec>(target(), data);
});
