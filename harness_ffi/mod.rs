//! Verification harness for the binding layer (C20). Compiled INTO dnp3-ffi by hook H4 (`cfg(stepfunc_dnp3_verif)`,
//! set only by /verif/shadow_ffi/build.rs). Shares the engine (runner, evidence, replay) with /verif/harness.
#![allow(missing_docs, dead_code, unreachable_pub, unused_imports, clippy::all)]

#[path = "/verif/harness/engine.rs"]
pub mod engine;
#[path = "/verif/harness/json.rs"]
pub mod json;

pub mod variants {
    include!(concat!(env!("OUT_DIR"), "/all_variants.rs"));
}

pub mod c20;
pub mod c20b;
pub mod c20db;

use engine::{Codec, Tier};

pub fn main<C: Codec>() {
    engine::install_panic_hook();
    engine::start_watchdog();
    let args: Vec<String> = std::env::args().collect();
    let code = match args.get(1).map(|s| s.as_str()) {
        Some("replay") => match args.get(2).and_then(|p| std::fs::read_to_string(p).ok()) {
            Some(text) => c20::replay::<C>(&text),
            None => {
                println!("INCONCLUSIVE cannot read replay file");
                2
            }
        },
        Some("C20") => {
            let tier = if args.get(2).map(|s| s.as_str()) == Some("thorough") { Tier::Thorough } else { Tier::Quick };
            c20::run::<C>(tier)
        }
        _ => {
            println!("usage: verif_ffi C20 quick|thorough | replay <file>");
            2
        }
    };
    std::process::exit(code);
}
