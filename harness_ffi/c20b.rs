//! C20 (a, native -> binding direction) and (b, configuration / header / status structures)
use super::c20::{norm, Tally};
use super::engine::*;
use super::variants as v;
use crate::ffi;
use dnp3::app::control::*;
use dnp3::app::*;
use dnp3::master::*;
use dnp3::outstation::database::EventBufferConfig;
use dnp3::outstation::*;
use proptest::prelude::*;
use serde::{Deserialize, Serialize};
use std::fmt::Debug;
use std::time::Duration;

/// native -> binding: the native variants are listed here by hand (an exhaustive `match` in each `guard_*` function
/// makes the harness stop compiling - INCONCLUSIVE, never a false alarm - when the library gains a variant)
fn natives<N: Debug, F: Debug>(t: &mut Tally, table: &str, all: Vec<N>, conv: impl Fn(N) -> F, renames: &[(&str, &str)]) {
    natives_into(t, table, all, conv, renames, &[])
}

/// `binding_names`: the variants of the binding enum, when known. A native variant that has no namesake there may be
/// converted to anything - "the like-named value" does not exist, so the statement is silent about it
fn natives_into<N: Debug, F: Debug>(t: &mut Tally, table: &str, all: Vec<N>, conv: impl Fn(N) -> F, renames: &[(&str, &str)], binding_names: &[String]) {
    for x in all {
        let from = format!("{:?}", x);
        let to = format!("{:?}", conv(x));
        let bare = from.split(|c| c == '(' || c == '{' || c == ' ').next().unwrap_or("").to_string();
        if !binding_names.is_empty() && !binding_names.iter().any(|b| norm(b) == norm(&bare)) {
            t.n += 1;
            continue;
        }
        let want = renames.iter().find(|r| norm(r.0) == norm(&from)).map(|r| r.1.to_string()).unwrap_or_else(|| from.clone());
        t.n += 1;
        if t.samples.len() < 2 {
            t.samples.push(J::s(&format!("{table}: {from} -> {to}")));
        }
        if norm(&want) != norm(&to) {
            if t.fail.is_none() {
                let detail = format!("{table}: native {from} is converted to {to} (expected its namesake {want})");
                t.fail = Some((Fail::new("E-name", detail.clone()).with_sig(format!("E-name {table}")), J::o(vec![("table", J::s(table)), ("detail", J::s(&detail))])));
            }
        }
    }
}

fn task_errors() -> Vec<TaskError> {
    use dnp3::link::EndpointAddress;
    let all = vec![
        TaskError::TooManyRequests,
        TaskError::Transport,
        TaskError::UnexpectedResponseHeaders,
        TaskError::NonFinWithoutCon,
        TaskError::NeverReceivedFir,
        TaskError::UnexpectedFir,
        TaskError::MultiFragmentResponse,
        TaskError::ResponseTimeout,
        TaskError::WriteError,
        TaskError::NoSuchAssociation(EndpointAddress::try_new(5).unwrap()),
        TaskError::NoConnection,
        TaskError::Shutdown,
        TaskError::Disabled,
        TaskError::RejectedByIin2(Iin::new(Iin1::new(0), Iin2::new(1))),
    ];
    // guard: every variant is either listed above or cannot be constructed outside the library (Link, MalformedResponse, BadEncoding)
    for e in &all {
        match e {
            TaskError::TooManyRequests | TaskError::Link(_) | TaskError::Transport | TaskError::RejectedByIin2(_) | TaskError::MalformedResponse(_) | TaskError::UnexpectedResponseHeaders | TaskError::NonFinWithoutCon | TaskError::NeverReceivedFir | TaskError::UnexpectedFir | TaskError::MultiFragmentResponse | TaskError::ResponseTimeout | TaskError::WriteError | TaskError::BadEncoding(_) | TaskError::NoSuchAssociation(_) | TaskError::NoConnection | TaskError::Shutdown | TaskError::Disabled => {}
        }
    }
    all
}

/// the binding deliberately folds several native task errors into one (documented in the schema): this table is part of
/// the trusted base
const TASK_ERROR_RENAMES: &[(&str, &str)] = &[
    ("Transport", "NoConnection"),
    ("UnexpectedResponseHeaders", "BadResponse"),
    ("NonFinWithoutCon", "BadResponse"),
    ("NeverReceivedFir", "BadResponse"),
    ("UnexpectedFir", "BadResponse"),
    ("MultiFragmentResponse", "BadResponse"),
    ("NoSuchAssociation", "AssociationRemoved"),
    ("Disabled", "NoConnection"),
    ("RejectedByIin2", "IinError"),
];

fn native_to_ffi_enums() -> (u64, Vec<J>, Option<(Fail, J)>) {
    let mut t = Tally::new();
    natives(&mut t, "ReadType", vec![ReadType::Unsolicited, ReadType::StartupIntegrity, ReadType::PeriodicPoll, ReadType::SinglePoll], ffi::ReadType::from, &[]);
    natives(
        &mut t,
        "TaskType",
        vec![
            TaskType::UserRead,
            TaskType::PeriodicPoll,
            TaskType::StartupIntegrity,
            TaskType::AutoEventScan,
            TaskType::Command,
            TaskType::ClearRestartBit,
            TaskType::EnableUnsolicited,
            TaskType::DisableUnsolicited,
            TaskType::TimeSync,
            TaskType::Restart,
            TaskType::WriteDeadBands,
            TaskType::GenericEmptyResponse(FunctionCode::Write),
            TaskType::FileRead,
            TaskType::GetFileInfo,
            TaskType::FileWriteBlock,
            TaskType::FileOpen,
            TaskType::FileClose,
            TaskType::FileAuth,
        ],
        ffi::TaskType::from,
        &[],
    );
    natives(
        &mut t,
        "ClientState",
        vec![dnp3::tcp::ClientState::Disabled, dnp3::tcp::ClientState::Connecting, dnp3::tcp::ClientState::Connected, dnp3::tcp::ClientState::WaitAfterFailedConnect(Duration::from_secs(1)), dnp3::tcp::ClientState::WaitAfterDisconnect(Duration::from_secs(1)), dnp3::tcp::ClientState::Shutdown],
        ffi::ClientState::from,
        &[],
    );
    natives(&mut t, "FileType", vec![FileType::Directory, FileType::File, FileType::Other(9)], ffi::FileType::from, &[("File", "Simple")]);
    natives(&mut t, "ConnectionState", vec![ConnectionState::Connected, ConnectionState::Disconnected], ffi::ConnectionState::from, &[]);
    natives(&mut t, "BroadcastAction", vec![BroadcastAction::Processed, BroadcastAction::IgnoredByConfiguration, BroadcastAction::BadObjectHeaders, BroadcastAction::UnsupportedFunction(FunctionCode::Read)], ffi::BroadcastAction::from, &[]);
    natives(&mut t, "OperateType", vec![OperateType::SelectBeforeOperate, OperateType::DirectOperate, OperateType::DirectOperateNoAck], ffi::OperateType::from, &[]);
    natives(&mut t, "TripCloseCode", vec![TripCloseCode::Nul, TripCloseCode::Close, TripCloseCode::Trip, TripCloseCode::Reserved], ffi::TripCloseCode::from, &[]);
    natives(&mut t, "OpType", vec![OpType::Nul, OpType::PulseOn, OpType::PulseOff, OpType::LatchOn, OpType::LatchOff], ffi::OpType::from, &[]);
    // task errors into each of the binding's error enums
    natives_into(&mut t, "TaskError->TaskError", task_errors(), ffi::TaskError::from, TASK_ERROR_RENAMES, &v::all_task_error().iter().map(|x| format!("{:?}", x)).collect::<Vec<_>>());
    natives_into(&mut t, "TaskError->CommandError", task_errors(), ffi::CommandError::from, TASK_ERROR_RENAMES, &v::all_command_error().iter().map(|x| format!("{:?}", x)).collect::<Vec<_>>());
    natives_into(&mut t, "TaskError->TimeSyncError", task_errors(), ffi::TimeSyncError::from, TASK_ERROR_RENAMES, &v::all_time_sync_error().iter().map(|x| format!("{:?}", x)).collect::<Vec<_>>());
    natives_into(&mut t, "TaskError->RestartError", task_errors(), ffi::RestartError::from, TASK_ERROR_RENAMES, &v::all_restart_error().iter().map(|x| format!("{:?}", x)).collect::<Vec<_>>());
    natives_into(&mut t, "TaskError->ReadError", task_errors(), ffi::ReadError::from, TASK_ERROR_RENAMES, &v::all_read_error().iter().map(|x| format!("{:?}", x)).collect::<Vec<_>>());
    natives_into(&mut t, "TaskError->LinkStatusError", task_errors(), ffi::LinkStatusError::from, TASK_ERROR_RENAMES, &v::all_link_status_error().iter().map(|x| format!("{:?}", x)).collect::<Vec<_>>());
    natives_into(&mut t, "TaskError->EmptyResponseError", task_errors(), ffi::EmptyResponseError::from, TASK_ERROR_RENAMES, &v::all_empty_response_error().iter().map(|x| format!("{:?}", x)).collect::<Vec<_>>());
    natives_into(&mut t, "TaskError->FileError", task_errors(), ffi::FileError::from, TASK_ERROR_RENAMES, &v::all_file_error().iter().map(|x| format!("{:?}", x)).collect::<Vec<_>>());
    // command errors: (native value, name expected on the binding side); header/object mismatches are folded into one
    for (e, want) in [
        (CommandError::Response(CommandResponseError::BadStatus(CommandStatus::Timeout)), "BadStatus"),
        (CommandError::Response(CommandResponseError::HeaderCountMismatch), "HeaderMismatch"),
        (CommandError::Response(CommandResponseError::HeaderTypeMismatch), "HeaderMismatch"),
        (CommandError::Response(CommandResponseError::ObjectCountMismatch), "HeaderMismatch"),
        (CommandError::Response(CommandResponseError::ObjectValueMismatch), "HeaderMismatch"),
        (CommandError::Task(TaskError::ResponseTimeout), "ResponseTimeout"),
        (CommandError::Task(TaskError::Shutdown), "Shutdown"),
        (CommandError::Response(CommandResponseError::Request(TaskError::WriteError)), "WriteError"),
        (CommandError::Response(CommandResponseError::Request(TaskError::TooManyRequests)), "TooManyRequests"),
    ] {
        let from = format!("{:?}", e);
        let to = format!("{:?}", ffi::CommandError::from(e));
        t.n += 1;
        if norm(&to) != norm(want) && t.fail.is_none() {
            let detail = format!("CommandError: native {from} is converted to {to} (expected {want})");
            t.fail = Some((Fail::new("E-name", detail.clone()).with_sig("E-name CommandError"), J::o(vec![("table", J::s("CommandError")), ("detail", J::s(&detail))])));
        }
    }
    natives(
        &mut t,
        "TimeSyncError",
        vec![TimeSyncError::ClockRollback, TimeSyncError::SystemTimeNotUnix, TimeSyncError::BadOutstationTimeDelay(5), TimeSyncError::Overflow, TimeSyncError::StillNeedsTime, TimeSyncError::SystemTimeNotAvailable, TimeSyncError::IinError(Iin2::new(1))],
        ffi::TimeSyncError::from,
        &[],
    );
    natives(
        &mut t,
        "FileError",
        vec![FileError::BadResponse, FileError::BadStatus(FileStatus::FileLocked), FileError::NoPermission, FileError::BadBlockNum, FileError::AbortByUser, FileError::MaxLengthExceeded, FileError::WrongHandle],
        ffi::FileError::from,
        &[],
    );
    // enums carried inside header structures handed to read handlers
    natives(
        &mut t,
        "QualifierCode (HeaderInfo)",
        vec![QualifierCode::Range8, QualifierCode::Range16, QualifierCode::AllObjects, QualifierCode::Count8, QualifierCode::Count16, QualifierCode::CountAndPrefix8, QualifierCode::CountAndPrefix16, QualifierCode::FreeFormat16],
        |q| ffi::HeaderInfo::from(HeaderInfo { variation: Variation::Group1Var2, qualifier: q, is_event: false, has_flags: true }).qualifier(),
        &[],
    );
    natives(&mut t, "ResponseFunction (ResponseHeader)", vec![ResponseFunction::Response, ResponseFunction::UnsolicitedResponse], |f| ffi::ResponseHeader::from(ResponseHeader { control: ControlField { fir: true, fin: true, con: false, uns: false, seq: Sequence::default() }, function: f, iin: Iin::default() }).func(), &[]);
    // result enums of the outstation application callbacks
    t.names("WriteTimeResult", v::all_write_time_result(), |x| match Result::<(), RequestError>::from(x) { Ok(()) => "Ok".to_string(), Err(e) => format!("{:?}", e) }, &[]);
    t.names("FreezeResult", v::all_freeze_result(), |x| match Result::<(), RequestError>::from(x) { Ok(()) => "Ok".to_string(), Err(e) => format!("{:?}", e) }, &[]);
    t.names("RestartDelayType", v::all_restart_delay_type(), |ty| {
        let r: ffi::RestartDelay = ffi::RestartDelayFields { restart_type: ty, value: 7 }.into();
        match Option::<RestartDelay>::from(r) {
            None => "NotSupported".to_string(),
            Some(RestartDelay::Seconds(7)) => "Seconds".to_string(),
            Some(RestartDelay::Milliseconds(7)) => "MilliSeconds".to_string(),
            Some(x) => format!("{:?}", x),
        }
    }, &[]);
    t.names("AutoTimeSync (AssociationConfig)", v::all_auto_time_sync(), |a| {
        let mut c = base_assoc();
        c.auto_time_sync = a.into();
        match AssociationConfig::try_from(c) {
            Ok(n) => match n.auto_time_sync {
                None => "None".to_string(),
                Some(x) => format!("{:?}", x),
            },
            Err(e) => format!("error {:?}", e),
        }
    }, &[]);
    t.done()
}

fn base_assoc() -> ffi::AssociationConfig {
    ffi::AssociationConfigFields {
        response_timeout: Duration::from_millis(5000),
        disable_unsol_classes: ffi::EventClasses { class1: true, class2: true, class3: true },
        enable_unsol_classes: ffi::EventClasses { class1: true, class2: true, class3: true },
        startup_integrity_classes: ffi::Classes { class0: true, class1: true, class2: true, class3: true },
        auto_time_sync: ffi::AutoTimeSync::None,
        auto_tasks_retry_strategy: ffi::RetryStrategyFields { min_delay: Duration::from_secs(1), max_delay: Duration::from_secs(5) }.into(),
        keep_alive_timeout: Duration::from_secs(60),
        auto_integrity_scan_on_buffer_overflow: true,
        event_scan_on_events_available: ffi::EventClasses { class1: false, class2: false, class3: false },
        max_queued_user_requests: 16,
    }
    .into()
}

pub fn exhaustive<C: Codec>(ctx: &mut Ctx<C>) {
    ctx.exhaustive("every variant of the native->binding enum conversions (states, task/command/time-sync/file errors into each binding error enum, types carried in header structures), by name with the documented folding table", native_to_ffi_enums);
}

// ---------------------------------------------------------------------------------------------
// structures: generated field values

#[derive(Clone, Debug, Serialize, Deserialize)]
pub struct SCase {
    pub kind: u8,
    pub a: u64,
    pub b: u64,
    pub c: u64,
}

const KINDS: &[&str] = &[
    "iin",
    "response_header",
    "header_info",
    "permissions",
    "class_zero",
    "event_buffer_config",
    "features",
    "application_iin",
    "restart_delay",
    "association_config",
    "retry_connect",
    "file_configs",
    "decode_level",
    "g12v1",
    "request_header",
    "buffer_state",
    "utc_open_file",
    "update_options",
    "flags_time",
    "file_info",
    "master_channel_config",
    "read_handler_octet_strings",
    "write_dead_band_request",
];

fn bit(x: u64, k: u32) -> bool {
    x & (1 << k) != 0
}

fn fail(out: &mut CaseOut, kind: &str, detail: String) {
    out.fail(Fail::new("S-field", format!("{kind}: {detail}")).with_sig(format!("S-field {kind}")));
}

pub fn run_struct(c: &SCase) -> CaseOut {
    let mut out = CaseOut::default();
    let kind = KINDS[c.kind as usize % KINDS.len()];
    out.label(kind);
    out.nontrivial = true;
    let (a, b, cc) = (c.a, c.b, c.c);
    match kind {
        "iin" => {
            let (i1, i2) = (a as u8, b as u8);
            let f1 = ffi::Iin1::from(Iin1::new(i1));
            let f2 = ffi::Iin2::from(Iin2::new(i2));
            // IEEE 1815 bit assignments, written out independently
            let want1 = [f1.broadcast, f1.class_1_events, f1.class_2_events, f1.class_3_events, f1.need_time, f1.local_control, f1.device_trouble, f1.device_restart];
            let want2 = [f2.no_func_code_support, f2.object_unknown, f2.parameter_error, f2.event_buffer_overflow, f2.already_executing, f2.config_corrupt, f2.reserved_2, f2.reserved_1];
            for k in 0..8 {
                if want1[k] != bit(i1 as u64, k as u32) {
                    fail(&mut out, kind, format!("IIN1 {i1:#04x}: bit {k} crosses as {}", want1[k]));
                }
                if want2[k] != bit(i2 as u64, k as u32) {
                    fail(&mut out, kind, format!("IIN2 {i2:#04x}: bit {k} crosses as {}", want2[k]));
                }
            }
        }
        "response_header" => {
            // the sequence number type has no public constructor: only 0 can be produced outside the library
            let ctrl = ControlField { fir: bit(a, 4), fin: bit(a, 5), con: bit(a, 6), uns: bit(a, 7), seq: Sequence::default() };
            let a = a & !0x0F;
            let func = if bit(a, 8) { ResponseFunction::Response } else { ResponseFunction::UnsolicitedResponse };
            let h = ResponseHeader { control: ctrl, function: func, iin: Iin::new(Iin1::new(b as u8), Iin2::new((b >> 8) as u8)) };
            let f = ffi::ResponseHeader::from(h);
            let cf = f.control_field();
            if cf.seq != (a & 0x0F) as u8 || cf.fir != bit(a, 4) || cf.fin != bit(a, 5) || cf.con != bit(a, 6) || cf.uns != bit(a, 7) {
                fail(&mut out, kind, format!("control field fir={} fin={} con={} uns={} seq={} crosses as fir={} fin={} con={} uns={} seq={}", bit(a, 4), bit(a, 5), bit(a, 6), bit(a, 7), a & 0x0F, cf.fir, cf.fin, cf.con, cf.uns, cf.seq));
            }
            if (f.func() == ffi::ResponseFunction::Response) != bit(a, 8) {
                fail(&mut out, kind, "response function".into());
            }
            if f.iin().iin1().device_restart != bit(b, 7) || f.iin().iin1().class_1_events != bit(b, 1) || f.iin().iin2().no_func_code_support != bit(b, 8) || f.iin().iin2().config_corrupt != bit(b, 13) {
                fail(&mut out, kind, format!("IIN {:#06x} crosses wrongly", b & 0xFFFF));
            }
        }
        "header_info" => {
            let vars = v::all_variation();
            let fv = vars[(a as usize) % vars.len()];
            let h = HeaderInfo { variation: Variation::from(fv), qualifier: QualifierCode::Count8, is_event: bit(b, 0), has_flags: bit(b, 1) };
            let f = ffi::HeaderInfo::from(h);
            if f.variation() != fv || f.is_event() != bit(b, 0) || f.has_flags() != bit(b, 1) {
                fail(&mut out, kind, format!("variation {:?} is_event {} has_flags {} crosses as {:?} {} {}", fv, bit(b, 0), bit(b, 1), f.variation(), f.is_event(), f.has_flags()));
            }
        }
        "write_dead_band_request" => {
            // a request object built through the binding, header by header, is converted to the native headers every time
            // it is handed to the master - it stays the caller's object, so the second conversion equals the first
            use dnp3::master::DeadBandHeader;
            let req = crate::write_dead_band_request_create();
            let mut native: Vec<DeadBandHeader> = vec![];
            let nh = 1 + (a % 3) as usize;
            for h in 0..nh {
                let k = ((a >> (2 + 3 * h)) % 6) as u8;
                let n = 1 + ((a >> (12 + 2 * h)) % 3) as usize;
                let item = |j: usize| -> (u16, u32) {
                    let idx = (b >> (8 * ((h * 3 + j) % 7))) as u16;
                    let val = (cc >> (4 * ((h * 3 + j) % 8))) as u32;
                    (idx, val)
                };
                unsafe {
                    match k {
                        0 => {
                            native.push(DeadBandHeader::group34_var1_u8((0..n).map(|j| (item(j).0 as u8, item(j).1 as u16)).collect()));
                            for j in 0..n {
                                crate::write_dead_band_request_add_g34v1_u8(req, item(j).0 as u8, item(j).1 as u16);
                            }
                        }
                        1 => {
                            native.push(DeadBandHeader::group34_var1_u16((0..n).map(|j| (item(j).0, item(j).1 as u16)).collect()));
                            for j in 0..n {
                                crate::write_dead_band_request_add_g34v1_u16(req, item(j).0, item(j).1 as u16);
                            }
                        }
                        2 => {
                            native.push(DeadBandHeader::group34_var2_u8((0..n).map(|j| (item(j).0 as u8, item(j).1)).collect()));
                            for j in 0..n {
                                crate::write_dead_band_request_add_g34v2_u8(req, item(j).0 as u8, item(j).1);
                            }
                        }
                        3 => {
                            native.push(DeadBandHeader::group34_var2_u16((0..n).map(|j| (item(j).0, item(j).1)).collect()));
                            for j in 0..n {
                                crate::write_dead_band_request_add_g34v2_u16(req, item(j).0, item(j).1);
                            }
                        }
                        4 => {
                            native.push(DeadBandHeader::group34_var3_u8((0..n).map(|j| (item(j).0 as u8, item(j).1 as f32 * 0.5)).collect()));
                            for j in 0..n {
                                crate::write_dead_band_request_add_g34v3_u8(req, item(j).0 as u8, item(j).1 as f32 * 0.5);
                            }
                        }
                        _ => {
                            native.push(DeadBandHeader::group34_var3_u16((0..n).map(|j| (item(j).0, item(j).1 as f32 * 0.5)).collect()));
                            for j in 0..n {
                                crate::write_dead_band_request_add_g34v3_u16(req, item(j).0, item(j).1 as f32 * 0.5);
                            }
                        }
                    }
                    crate::write_dead_band_request_finish_header(req);
                }
            }
            let (first, second) = unsafe { ((*req).build(), (*req).build()) };
            unsafe { crate::write_dead_band_request_destroy(req) };
            let want = format!("{:?}", native);
            if format!("{:?}", first) != want {
                fail(&mut out, kind, format!("built through the binding: {:?}, natively: {want}", first));
            } else if format!("{:?}", second) != want {
                fail(&mut out, kind, format!("the same request object converted a second time gives {:?}, the first time {want}", second));
            }
        }
        "file_info" => {
            // a file descriptor received from an outstation: the name is whatever UTF-8 the peer sent - spaces, non-ASCII
            // characters, and NUL characters, which a C string cannot hold
            let alphabet = ['a', 'Z', '.', '/', ' ', 'é', '\u{4e2d}', '\0', '_', '7'];
            let len = (a % 9) as usize;
            let name: String = (0..len).map(|k| alphabet[((b >> (4 * k)) & 0xF) as usize % alphabet.len()]).collect();
            let set = |k: u32| PermissionSet { execute: bit(cc, k), write: bit(cc, k + 1), read: bit(cc, k + 2) };
            let ft = if bit(a, 8) { FileType::Directory } else { FileType::File };
            let info = FileInfo {
                name: name.clone(),
                file_type: ft,
                size: (a >> 16) as u32,
                time_created: Timestamp::new(cc >> 16),
                permissions: Permissions { world: set(0), group: set(3), owner: set(6) },
            };
            let mut it = crate::FileInfoIterator::new(vec![info].into_iter());
            match it.next() {
                None => fail(&mut out, kind, "the iterator yields nothing for one entry".into()),
                Some(f) => {
                    let got = unsafe { std::ffi::CStr::from_ptr(f.file_name) }.to_string_lossy().to_string();
                    if name.contains('\0') {
                        out.label("file_name_with_nul");
                        // what a C string can keep of it: at least the part before the first NUL, nothing invented
                        let head: String = name.chars().take_while(|c| *c != '\0').collect();
                        if !got.starts_with(&head) || got.chars().count() > name.chars().count() {
                            fail(&mut out, kind, format!("name {:?} crosses as {:?}", name, got));
                        }
                    } else if got != name {
                        fail(&mut out, kind, format!("name {:?} crosses as {:?}", name, got));
                    }
                    let want_ft: ffi::FileType = ft.into();
                    let want_raw: i32 = want_ft.into();
                    if f.file_type != want_raw || f.size != (a >> 16) as u32 || f.time_created != (cc >> 16) & 0xFFFF_FFFF_FFFF {
                        fail(&mut out, kind, format!("type/size/time cross as {:?} {} {}", f.file_type, f.size, f.time_created));
                    }
                    let flat = |p: &ffi::PermissionSet| (p.execute, p.write, p.read);
                    let want = |k: u32| (bit(cc, k), bit(cc, k + 1), bit(cc, k + 2));
                    if flat(&f.permissions.world) != want(0) || flat(&f.permissions.group) != want(3) || flat(&f.permissions.owner) != want(6) {
                        fail(&mut out, kind, "permissions".into());
                    }
                }
            }
        }
        "master_channel_config" => {
            // buffer sizes that differ from each other, at and around the limits (tx >= 249, rx >= 2048)
            let sizes = [0u16, 248, 249, 250, 292, 2047, 2048, 2049, 4096, 8192, 65535];
            let tx = if bit(a, 40) { (a >> 16) as u16 } else { sizes[(a as usize) % sizes.len()] };
            let rx = if bit(b, 40) { (b >> 16) as u16 } else { sizes[(b as usize) % sizes.len()] };
            let address = (cc & 0xFFFF) as u16;
            let al = v::all_app_decode_level();
            let x = al[(cc >> 16) as usize % al.len()];
            let dl: ffi::DecodeLevel = ffi::DecodeLevelFields { application: x, transport: ffi::TransportDecodeLevel::Nothing, link: ffi::LinkDecodeLevel::Nothing, physical: ffi::PhysDecodeLevel::Nothing }.into();
            let f = ffi::MasterChannelConfig { address, decode_level: dl, tx_buffer_size: tx, rx_buffer_size: rx };
            let got = MasterChannelConfig::try_from(f);
            // what the native configuration accepts for these values
            let want_ok = address < 0xFFF0 && tx >= 249 && rx >= 2048;
            match got {
                Ok(n) => {
                    if !want_ok {
                        fail(&mut out, kind, format!("address {address} tx {tx} rx {rx} is accepted, the native configuration would refuse it"));
                    }
                    if n.master_address.raw_value() != address || n.tx_buffer_size.value() != tx as usize || n.rx_buffer_size.value() != rx as usize {
                        fail(&mut out, kind, format!("address {address} tx {tx} rx {rx} crosses as address {} tx {} rx {}", n.master_address.raw_value(), n.tx_buffer_size.value(), n.rx_buffer_size.value()));
                    }
                    if norm(&format!("{:?}", n.decode_level.application)) != norm(&format!("{:?}", x)) {
                        fail(&mut out, kind, "decode level".into());
                    }
                }
                Err(e) => {
                    if want_ok {
                        fail(&mut out, kind, format!("address {address} tx {tx} rx {rx} is refused ({:?}) although the native configuration accepts it", e));
                    }
                }
            }
        }
        "read_handler_octet_strings" => {
            // 1..4 octet strings of one response header are handed to the foreign ReadHandler through the binding's
            // iterator; the callback drains it the way the C / .NET / Java glue does
            let n = 1 + (a % 4) as usize;
            let strings: Vec<(Vec<u8>, u16)> = (0..n)
                .map(|k| {
                    let len = 1 + ((a >> (8 + 4 * k)) & 0x7) as usize;
                    let bytes: Vec<u8> = (0..len).map(|j| (b >> (8 * ((k + j) % 8))) as u8 ^ (k as u8 * 31 + j as u8)).collect();
                    (bytes, (cc >> (16 * k)) as u16)
                })
                .collect();
            extern "C" fn on_octets(_info: ffi::HeaderInfo, values: *mut crate::OctetStringIterator<'_>, ctx: *mut std::os::raw::c_void) {
                let got = unsafe { &mut *(ctx as *mut Vec<(u16, Vec<u8>)>) };
                loop {
                    let s = match unsafe { crate::octet_string_iterator_next(values) } {
                        Some(s) => s,
                        None => break,
                    };
                    let mut bytes = vec![];
                    loop {
                        let p = unsafe { crate::byte_iterator_next(s.value) };
                        if p.is_null() {
                            break;
                        }
                        bytes.push(unsafe { *p });
                    }
                    got.push((s.index, bytes));
                    if got.len() > 16 {
                        break;
                    }
                }
            }
            let mut got: Vec<(u16, Vec<u8>)> = vec![];
            let mut handler = ffi::ReadHandler {
                begin_fragment: None,
                end_fragment: None,
                handle_binary_input: None,
                handle_double_bit_binary_input: None,
                handle_binary_output_status: None,
                handle_counter: None,
                handle_frozen_counter: None,
                handle_analog_input: None,
                handle_frozen_analog_input: None,
                handle_analog_output_status: None,
                handle_binary_output_command_event: None,
                handle_analog_output_command_event: None,
                handle_unsigned_integer: None,
                handle_octet_string: Some(on_octets),
                handle_abs_time: None,
                handle_string_attr: None,
                handle_variation_list_attr: None,
                handle_uint_attr: None,
                handle_bool_attr: None,
                handle_int_attr: None,
                handle_time_attr: None,
                handle_float_attr: None,
                handle_octet_string_attr: None,
                handle_bit_string_attr: None,
                on_destroy: None,
                ctx: &mut got as *mut _ as *mut std::os::raw::c_void,
            };
            let info = HeaderInfo { variation: Variation::Group110(0), qualifier: QualifierCode::Range16, is_event: false, has_flags: false };
            {
                let mut it = strings.iter().map(|(b, i)| (b.as_slice(), *i));
                dnp3::master::ReadHandler::handle_octet_string(&mut handler, info, &mut it);
            }
            let want: Vec<(u16, Vec<u8>)> = strings.iter().map(|(b, i)| (*i, b.clone())).collect();
            if got != want {
                fail(&mut out, kind, format!("octet strings {:02x?} reach the foreign handler as {:02x?}", want, got));
            }
            if n >= 2 {
                out.label("several_strings_in_one_header");
            }
        }
        "permissions" => {
            let set = |k: u32| PermissionSet { execute: bit(a, k), write: bit(a, k + 1), read: bit(a, k + 2) };
            let n = Permissions { world: set(0), group: set(3), owner: set(6) };
            let f = ffi::Permissions::from(n);
            let flat = |p: &ffi::PermissionSet| (p.execute, p.write, p.read);
            let want = |k: u32| (bit(a, k), bit(a, k + 1), bit(a, k + 2));
            if flat(&f.world) != want(0) || flat(&f.group) != want(3) || flat(&f.owner) != want(6) {
                fail(&mut out, "permissions_to_binding", format!("native permissions world {:?} group {:?} owner {:?} cross as world {:?} group {:?} owner {:?} (execute, write, read)", want(0), want(3), want(6), flat(&f.world), flat(&f.group), flat(&f.owner)));
            }
            let fset = |k: u32| ffi::PermissionSet { execute: bit(b, k), write: bit(b, k + 1), read: bit(b, k + 2) };
            let n2 = Permissions::from(ffi::Permissions { world: fset(0), group: fset(3), owner: fset(6) });
            let nflat = |p: &PermissionSet| (p.execute, p.write, p.read);
            let want = |k: u32| (bit(b, k), bit(b, k + 1), bit(b, k + 2));
            if nflat(&n2.world) != want(0) || nflat(&n2.group) != want(3) || nflat(&n2.owner) != want(6) {
                fail(&mut out, "permissions_to_native", format!("binding permissions world {:?} group {:?} owner {:?} cross as {:?}", want(0), want(3), want(6), n2));
            }
        }
        "class_zero" => {
            let f = ffi::ClassZeroConfig { binary: bit(a, 0), double_bit_binary: bit(a, 1), binary_output_status: bit(a, 2), counter: bit(a, 3), frozen_counter: bit(a, 4), analog: bit(a, 5), analog_output_status: bit(a, 6), octet_string: bit(a, 7) };
            let n = dnp3::outstation::database::ClassZeroConfig::from(f);
            let got = [n.binary, n.double_bit_binary, n.binary_output_status, n.counter, n.frozen_counter, n.analog, n.analog_output_status, n.octet_string];
            for k in 0..8 {
                if got[k] != bit(a, k as u32) {
                    fail(&mut out, kind, format!("class zero config {:#04x}: field #{k} crosses as {}", a as u8, got[k]));
                }
            }
        }
        "event_buffer_config" => {
            let x = |k: u32| ((a >> (k * 8)) as u8 as u16).wrapping_mul(257).wrapping_add(k as u16);
            let f: ffi::EventBufferConfig = ffi::EventBufferConfigFields { max_binary: x(0), max_double_bit_binary: x(1), max_binary_output_status: x(2), max_counter: x(3), max_frozen_counter: x(4), max_analog: x(5), max_analog_output_status: x(6), max_octet_string: x(7) }.into();
            let n = EventBufferConfig::from(&f);
            let got = [n.max_binary, n.max_double_binary, n.max_binary_output_status, n.max_counter, n.max_frozen_counter, n.max_analog, n.max_analog_output_status, n.max_octet_string];
            for k in 0..8 {
                if got[k] != x(k as u32) {
                    fail(&mut out, kind, format!("event buffer config: field #{k} = {} crosses into the library as {}", x(k as u32), got[k]));
                }
            }
            let back = ffi::EventBufferConfig::from(n);
            let got = [back.max_binary, back.max_double_bit_binary, back.max_binary_output_status, back.max_counter, back.max_frozen_counter, back.max_analog, back.max_analog_output_status, back.max_octet_string];
            for k in 0..8 {
                if got[k] != x(k as u32) {
                    fail(&mut out, kind, format!("event buffer config: field #{k} = {} crosses out of the library as {}", x(k as u32), got[k]));
                }
            }
        }
        "features" => {
            let f = ffi::OutstationFeatures { self_address: bit(a, 0), broadcast: bit(a, 1), unsolicited: bit(a, 2), respond_to_any_master: bit(a, 3) };
            let n = Features::from(&f);
            let got = [n.self_address, n.broadcast, n.unsolicited, n.respond_to_any_master];
            for k in 0..4 {
                if (got[k] == Feature::Enabled) != bit(a, k as u32) {
                    fail(&mut out, kind, format!("features {:#03x}: field #{k} crosses as {:?}", a & 15, got[k]));
                }
            }
        }
        "application_iin" => {
            let f = ffi::ApplicationIin { need_time: bit(a, 0), local_control: bit(a, 1), device_trouble: bit(a, 2), config_corrupt: bit(a, 3) };
            let n = ApplicationIin::from(f);
            if [n.need_time, n.local_control, n.device_trouble, n.config_corrupt] != [bit(a, 0), bit(a, 1), bit(a, 2), bit(a, 3)] {
                fail(&mut out, kind, format!("application IIN {:#03x} crosses as {:?}", a & 15, n));
            }
        }
        "restart_delay" => {
            let val = b as u16;
            let n = match a % 3 {
                0 => None,
                1 => Some(RestartDelay::Seconds(val)),
                _ => Some(RestartDelay::Milliseconds(val)),
            };
            let f = ffi::RestartDelay::from(n);
            let back = Option::<RestartDelay>::from(f.clone());
            if back != n || (n.is_some() && f.value() != val) {
                fail(&mut out, kind, format!("restart delay {:?} crosses as type {:?} value {} and back as {:?}", n, f.restart_type(), f.value(), back));
            }
        }
        "association_config" => {
            let ec = |k: u32| ffi::EventClasses { class1: bit(a, k), class2: bit(a, k + 1), class3: bit(a, k + 2) };
            let want_ec = |k: u32| (bit(a, k), bit(a, k + 1), bit(a, k + 2));
            let timeout_ms = 1 + (b % 3_600_000);
            let keep = (b >> 32) % 100;
            let (mn, mx) = (1 + cc % 1000, 1000 + (cc >> 16) % 100_000);
            let f: ffi::AssociationConfig = ffi::AssociationConfigFields {
                response_timeout: Duration::from_millis(timeout_ms),
                disable_unsol_classes: ec(0),
                enable_unsol_classes: ec(3),
                startup_integrity_classes: ffi::Classes { class0: bit(a, 12), class1: bit(a, 13), class2: bit(a, 14), class3: bit(a, 15) },
                auto_time_sync: ffi::AutoTimeSync::None,
                auto_tasks_retry_strategy: ffi::RetryStrategyFields { min_delay: Duration::from_millis(mn), max_delay: Duration::from_millis(mx) }.into(),
                keep_alive_timeout: Duration::from_secs(keep),
                auto_integrity_scan_on_buffer_overflow: bit(a, 16),
                event_scan_on_events_available: ec(6),
                max_queued_user_requests: (cc >> 40) as u16,
            }
            .into();
            match AssociationConfig::try_from(f) {
                Err(e) => fail(&mut out, kind, format!("valid association configuration refused: {:?}", e)),
                Ok(n) => {
                    let fe = |e: EventClasses| (e.class1, e.class2, e.class3);
                    let mut bad = vec![];
                    if fe(n.disable_unsol_classes) != want_ec(0) {
                        bad.push(format!("disable_unsol_classes {:?} -> {:?}", want_ec(0), fe(n.disable_unsol_classes)));
                    }
                    if fe(n.enable_unsol_classes) != want_ec(3) {
                        bad.push(format!("enable_unsol_classes {:?} -> {:?}", want_ec(3), fe(n.enable_unsol_classes)));
                    }
                    if fe(n.event_scan_on_events_available) != want_ec(6) {
                        bad.push(format!("event_scan_on_events_available {:?} -> {:?}", want_ec(6), fe(n.event_scan_on_events_available)));
                    }
                    let s = n.startup_integrity_classes;
                    if (s.class0, s.events.class1, s.events.class2, s.events.class3) != (bit(a, 12), bit(a, 13), bit(a, 14), bit(a, 15)) {
                        bad.push(format!("startup_integrity_classes -> {:?}", s));
                    }
                    if Duration::from(n.response_timeout) != Duration::from_millis(timeout_ms) {
                        bad.push(format!("response_timeout {timeout_ms} ms -> {:?}", n.response_timeout));
                    }
                    let want_keep = if keep == 0 { None } else { Some(Duration::from_secs(keep)) };
                    if n.keep_alive_timeout != want_keep {
                        bad.push(format!("keep_alive_timeout {keep} s -> {:?}", n.keep_alive_timeout));
                    }
                    if n.auto_integrity_scan_on_buffer_overflow != bit(a, 16) {
                        bad.push("auto_integrity_scan_on_buffer_overflow".into());
                    }
                    if n.max_queued_user_requests != (cc >> 40) as u16 as usize {
                        bad.push(format!("max_queued_user_requests {} -> {}", (cc >> 40) as u16, n.max_queued_user_requests));
                    }
                    let rs = format!("{:?}", n.auto_tasks_retry_strategy);
                    let want_rs = format!("{:?}", RetryStrategy::new(Duration::from_millis(mn), Duration::from_millis(mx)));
                    if rs != want_rs {
                        bad.push(format!("auto_tasks_retry_strategy {want_rs} -> {rs}"));
                    }
                    if !bad.is_empty() {
                        fail(&mut out, kind, bad.join("; "));
                    }
                }
            }
        }
        "retry_connect" => {
            let (mn, mx, rc) = (a % 100_000, b % 1_000_000, cc % 50_000);
            let r: ffi::RetryStrategy = ffi::RetryStrategyFields { min_delay: Duration::from_millis(mn), max_delay: Duration::from_millis(mx) }.into();
            if format!("{:?}", RetryStrategy::from(r)) != format!("{:?}", RetryStrategy::new(Duration::from_millis(mn), Duration::from_millis(mx))) {
                fail(&mut out, kind, format!("retry strategy min {mn} max {mx}"));
            }
            let cs: ffi::ConnectStrategy = ffi::ConnectStrategyFields { min_connect_delay: Duration::from_millis(mn), max_connect_delay: Duration::from_millis(mx), reconnect_delay: Duration::from_millis(rc) }.into();
            if format!("{:?}", ConnectStrategy::from(cs)) != format!("{:?}", ConnectStrategy::new(Duration::from_millis(mn), Duration::from_millis(mx), Duration::from_millis(rc))) {
                fail(&mut out, kind, format!("connect strategy min {mn} max {mx} reconnect {rc}"));
            }
        }
        "file_configs" => {
            let (blk, size) = (a as u16, b as u32);
            let n = FileReadConfig::from(ffi::FileReadConfig { max_block_size: blk, max_file_size: size });
            let d = DirReadConfig::from(ffi::DirReadConfig { max_block_size: blk, max_file_size: size });
            if n.max_block_size != blk || n.max_file_size != size as usize || d.max_block_size != blk || d.max_file_size != size as usize {
                fail(&mut out, kind, format!("block {blk} size {size} -> {:?} / {:?}", n, d));
            }
        }
        "decode_level" => {
            let (al, tl, ll, pl) = (v::all_app_decode_level(), v::all_transport_decode_level(), v::all_link_decode_level(), v::all_phys_decode_level());
            let (x, y, z, w) = (al[a as usize % al.len()], tl[(a >> 8) as usize % tl.len()], ll[(a >> 16) as usize % ll.len()], pl[(a >> 24) as usize % pl.len()]);
            let f: ffi::DecodeLevel = ffi::DecodeLevelFields { application: x, transport: y, link: z, physical: w }.into();
            let n = dnp3::decode::DecodeLevel::from(f);
            if norm(&format!("{:?}", n.application)) != norm(&format!("{:?}", x)) || norm(&format!("{:?}", n.transport)) != norm(&format!("{:?}", y)) || norm(&format!("{:?}", n.link)) != norm(&format!("{:?}", z)) || norm(&format!("{:?}", n.physical)) != norm(&format!("{:?}", w)) {
                fail(&mut out, kind, format!("decode level ({:?}, {:?}, {:?}, {:?}) crosses as {:?}", x, y, z, w, n));
            }
            let back = ffi::DecodeLevel::from(n);
            if back.application() != x || back.transport() != y || back.link() != z || back.physical() != w {
                fail(&mut out, kind, format!("decode level ({:?}, {:?}, {:?}, {:?}) comes back as ({:?}, {:?}, {:?}, {:?})", x, y, z, w, back.application(), back.transport(), back.link(), back.physical()));
            }
        }
        "g12v1" => {
            let (tl, ol) = (v::all_trip_close_code(), v::all_op_type());
            let (tcc, op) = (tl[a as usize % tl.len()], ol[(a >> 8) as usize % ol.len()]);
            let code: ffi::ControlCode = ffi::ControlCodeFields { tcc, clear: bit(a, 16), queue: bit(a, 17), op_type: op }.into();
            let f = ffi::Group12Var1 { code, count: b as u8, on_time: (b >> 8) as u32, off_time: cc as u32 };
            let n = Group12Var1::from(f);
            if n.count != b as u8 || n.on_time != (b >> 8) as u32 || n.off_time != cc as u32 || n.code.clear != bit(a, 16) || n.code.queue != bit(a, 17) || norm(&format!("{:?}", n.code.tcc)) != norm(&format!("{:?}", tcc)) || norm(&format!("{:?}", n.code.op_type)) != norm(&format!("{:?}", op)) {
                fail(&mut out, kind, format!("CROB tcc {:?} op {:?} clear {} queue {} count {} on {} off {} crosses as {:?}", tcc, op, bit(a, 16), bit(a, 17), b as u8, (b >> 8) as u32, cc as u32, n));
            }
            let back = ffi::Group12Var1::from(n);
            if back.count != b as u8 || back.on_time != (b >> 8) as u32 || back.off_time != cc as u32 || back.code.tcc() != tcc || back.code.op_type() != op || back.code.clear() != bit(a, 16) || back.code.queue() != bit(a, 17) {
                fail(&mut out, kind, format!("CROB count {} on {} off {} comes back as count {} on {} off {}", b as u8, (b >> 8) as u32, cc as u32, back.count, back.on_time, back.off_time));
            }
        }
        "request_header" => {
            let fl = v::all_function_code();
            let ff = fl[b as usize % fl.len()];
            // the sequence number type has no public constructor: only 0 can be produced outside the library
            let ctrl = ControlField { fir: bit(a, 4), fin: bit(a, 5), con: bit(a, 6), uns: bit(a, 7), seq: Sequence::default() };
            let a = a & !0x0F;
            let f = ffi::RequestHeader::from(RequestHeader { control: ctrl, function: ff.into() });
            let cf = f.control_field();
            if f.function() != ff || cf.seq != (a & 0x0F) as u8 || cf.fir != bit(a, 4) || cf.fin != bit(a, 5) || cf.con != bit(a, 6) || cf.uns != bit(a, 7) {
                fail(&mut out, kind, format!("request header function {:?} control {:#04x} crosses as {:?} fir={} fin={} con={} uns={} seq={}", ff, a as u8, f.function(), cf.fir, cf.fin, cf.con, cf.uns, cf.seq));
            }
        }
        "buffer_state" => {
            let x = |k: u32| ((a >> (k * 5)) & 0x1F) as usize * 3 + k as usize;
            let n = BufferState {
                classes: ClassCount { num_class_1: x(0), num_class_2: x(1), num_class_3: x(2) },
                types: TypeCount { num_binary_input: x(3), num_double_bit_binary_input: x(4), num_binary_output_status: x(5), num_counter: x(6), num_frozen_counter: x(7), num_analog: x(8), num_analog_output_status: x(9), num_octet_string: x(10) },
            };
            let f = ffi::BufferState::from(n);
            let got = [
                f.classes.num_class_1,
                f.classes.num_class_2,
                f.classes.num_class_3,
                f.types.num_binary_input,
                f.types.num_double_bit_binary_input,
                f.types.num_binary_output_status,
                f.types.num_counter,
                f.types.num_frozen_counter,
                f.types.num_analog,
                f.types.num_analog_output_status,
                f.types.num_octet_string,
            ];
            for k in 0..11 {
                if got[k] as usize != x(k as u32) {
                    fail(&mut out, kind, format!("buffer state: count #{k} = {} crosses as {}", x(k as u32), got[k]));
                }
            }
        }
        "utc_open_file" => {
            let t = Option::<Timestamp>::from(ffi::UtcTimestamp { value: a, is_valid: bit(b, 0) });
            let want = if bit(b, 0) { Some(Timestamp::new(a)) } else { None };
            if t != want {
                fail(&mut out, kind, format!("UTC timestamp value {a} valid {} crosses as {:?}", bit(b, 0), t));
            }
        }
        "update_options" => {
            let modes = v::all_event_mode();
            let m = modes[a as usize % modes.len()];
            let o: ffi::UpdateOptions = ffi::UpdateOptionsFields { update_static: bit(b, 0), event_mode: m }.into();
            let d = format!("{:?}", dnp3::outstation::database::UpdateOptions::from(o));
            let field = |name: &str| -> String {
                let key = format!("{name}: ");
                d.find(&key).map(|i| d[i + key.len()..].split(|c| c == ',' || c == ' ' || c == '}').next().unwrap_or("").to_string()).unwrap_or_default()
            };
            if field("update_static") != format!("{}", bit(b, 0)) || norm(&field("event_mode")) != norm(&format!("{:?}", m)) {
                fail(&mut out, kind, format!("update options static {} mode {:?} cross as {d}", bit(b, 0), m));
            }
        }
        _ => {
            // flags and time on their own, both ways
            use dnp3::app::measurement::{Flags, Time};
            let fl = Flags::from(&ffi::Flags { value: a as u8 });
            if fl.value != a as u8 || ffi::Flags::from(Flags::new(a as u8)).value != a as u8 {
                fail(&mut out, kind, format!("flags {:#04x}", a as u8));
            }
            let q = v::all_time_quality();
            let qq = q[b as usize % q.len()];
            let ts: ffi::Timestamp = ffi::TimestampFields { value: cc & 0xFFFF_FFFF_FFFF, quality: qq }.into();
            let n = Option::<Time>::from(&ts);
            let back = ffi::Timestamp::from(n);
            let want_v = if qq == ffi::TimeQuality::InvalidTime { 0 } else { cc & 0xFFFF_FFFF_FFFF };
            if back.quality() != qq || back.value() != want_v {
                fail(&mut out, kind, format!("time {} {:?} comes back as {} {:?}", cc & 0xFFFF_FFFF_FFFF, qq, back.value(), back.quality()));
            }
        }
    }
    out
}

pub struct Structs;
impl Prop for Structs {
    type Case = SCase;
    const ID: &'static str = "C20";
    const NAME: &'static str = "structs";
    fn rule() -> &'static str {
        "configuration, header and status structures crossing the boundary (IIN octets, response/request headers, header info with every variation, file permissions both ways, class-zero / event-buffer / feature / application-IIN configuration, restart delays both ways, association configuration with all class sets, timeouts and retry strategy, connect strategy, file read configuration, decode levels both ways, control relay output blocks both ways, buffer state counts, UTC timestamps, update options, flags and times, file descriptors with arbitrary UTF-8 names incl. NUL, master channel configuration with unequal buffer sizes at the limits, octet strings handed to a foreign ReadHandler) with generated field values; each field must arrive in its namesake with its value; every case is non-trivial"
    }
    fn strategy(_tier: Tier) -> BoxedStrategy<SCase> {
        (0u8..KINDS.len() as u8, any::<u64>(), any::<u64>(), any::<u64>()).prop_map(|(kind, a, b, c)| SCase { kind, a, b, c }).boxed()
    }
    fn cases(tier: Tier) -> u32 {
        match tier {
            Tier::Quick => 100_000,
            Tier::Thorough => 10_000_000,
        }
    }
    fn run(case: &SCase) -> CaseOut {
        run_struct(case)
    }
}
