//! C20 — the binding layer maps every value to its namesake, losslessly
//!
//! (a) every variant of every enum conversion, by name (exhaustive: the variant lists are read back from the generated
//!     ffi.rs at build time); (b) structs: generated field values, field-wise against an independently written expectation
//!     and, where both directions exist, the round trip; (c) differential database: op sequences applied through the
//!     `database_*` binding functions to one database and through the native traits to a twin.
use super::engine::*;
use super::variants as v;
use crate::ffi;
use dnp3::app::measurement::*;
use dnp3::app::Timestamp;
use dnp3::outstation::database::*;
use proptest::prelude::*;
use serde::{Deserialize, Serialize};
use std::fmt::Debug;

// ---------------------------------------------------------------------------------------------
// names

/// fold case, underscores and other punctuation; `Some(X)` -> X
pub fn norm(s: &str) -> String {
    let s = s.trim();
    let s = if s.starts_with("Some(") && s.ends_with(')') { &s[5..s.len() - 1] } else { s };
    // payload of tuple/struct variants is not part of the name
    let s = s.split(|c| c == '(' || c == '{').next().unwrap_or(s);
    s.chars().filter(|c| c.is_ascii_alphanumeric()).map(|c| c.to_ascii_lowercase()).collect()
}

pub struct Tally {
    pub n: u64,
    pub samples: Vec<J>,
    pub fail: Option<(Fail, J)>,
}

impl Tally {
    pub fn new() -> Self {
        Tally { n: 0, samples: vec![], fail: None }
    }
    fn bad(&mut self, clause: &str, table: &str, detail: String) {
        if self.fail.is_none() {
            self.fail = Some((Fail::new(clause, detail.clone()).with_sig(format!("{clause} {table}")), J::o(vec![("table", J::s(table)), ("detail", J::s(&detail))])));
        }
    }
    /// one enum conversion, all variants: the result's name must be the source's name (or its listed rename)
    pub fn names<F: Debug + Copy, N: Debug>(&mut self, table: &str, all: Vec<F>, conv: impl Fn(F) -> N, renames: &[(&str, &str)]) {
        if all.is_empty() {
            self.bad("E-empty", table, format!("{table}: no variants enumerated"));
        }
        for x in all {
            let from = format!("{:?}", x);
            let to = format!("{:?}", conv(x));
            let want = renames.iter().find(|r| norm(r.0) == norm(&from)).map(|r| r.1.to_string()).unwrap_or_else(|| from.clone());
            self.n += 1;
            if self.samples.len() < 2 {
                self.samples.push(J::s(&format!("{table}: {from} -> {to}")));
            }
            if norm(&want) != norm(&to) {
                self.bad("E-name", table, format!("{table}: {from} is converted to {to} (expected its namesake {want})"));
            }
        }
    }
    /// both directions exist: back(forth(x)) == x
    pub fn round<F: Debug + Copy + PartialEq, N>(&mut self, table: &str, all: Vec<F>, forth: impl Fn(F) -> N, back: impl Fn(N) -> F) {
        for x in all {
            let y = back(forth(x));
            self.n += 1;
            if y != x {
                self.bad("E-round-trip", table, format!("{table}: {:?} comes back as {:?}", x, y));
            }
        }
    }
    pub fn done(self) -> (u64, Vec<J>, Option<(Fail, J)>) {
        (self.n, self.samples, self.fail)
    }
}

// ---------------------------------------------------------------------------------------------
// (a) enum conversions in the direction binding -> native (every variant exists on the binding side by construction)

fn enums_ffi_to_native() -> (u64, Vec<J>, Option<(Fail, J)>) {
    use dnp3::app::control::*;
    use dnp3::app::*;
    use dnp3::decode::*;
    use dnp3::link::*;
    use dnp3::master::*;
    let mut t = Tally::new();
    t.names("UpdateFlagsType", v::all_update_flags_type(), |x| UpdateFlagsType::from(x), &[]);
    t.names("EventClass", v::all_event_class(), |x| Option::<EventClass>::from(x), &[]);
    t.names("FileMode", v::all_file_mode(), |x| FileMode::from(x), &[]);
    t.names("CommandMode", v::all_command_mode(), |x| CommandMode::from(x), &[]);
    t.names("TimeSyncMode", v::all_time_sync_mode(), |x| TimeSyncProcedure::from(x), &[]);
    t.names("FunctionCode", v::all_function_code(), |x| -> FunctionCode { x.into() }, &[]);
    t.round("FunctionCode", v::all_function_code(), |x| -> FunctionCode { x.into() }, |n| ffi::FunctionCode::from(n));
    t.names("UdpSocketMode", v::all_udp_socket_mode(), |x| dnp3::udp::UdpSocketMode::from(x), &[]);
    t.names("LinkErrorMode", v::all_link_error_mode(), |x| LinkErrorMode::from(x), &[]);
    t.names("LinkReadMode", v::all_link_read_mode(), |x| LinkReadMode::from(x), &[]);
    t.names("CommandStatus", v::all_command_status(), |x| -> CommandStatus { x.into() }, &[]);
    t.round("CommandStatus", v::all_command_status(), |x| -> CommandStatus { x.into() }, |n| ffi::CommandStatus::from(n));
    // a status given by the application travels to the master as its code: it must still be the like-named value after the
    // wire (binding -> native -> code octet -> native -> binding)
    t.round("CommandStatus over the wire", v::all_command_status(), |x| -> CommandStatus { let n: CommandStatus = x.into(); CommandStatus::from(n.as_u8()) }, |n| ffi::CommandStatus::from(n));
    t.names("Variation", v::all_variation(), |x| Variation::from(x), &[]);
    t.round("Variation", v::all_variation(), |x| Variation::from(x), |n| ffi::Variation::from(n));
    t.names("AppDecodeLevel", v::all_app_decode_level(), |x| AppDecodeLevel::from(x), &[]);
    t.round("AppDecodeLevel", v::all_app_decode_level(), |x| AppDecodeLevel::from(x), |n| ffi::AppDecodeLevel::from(n));
    t.names("TransportDecodeLevel", v::all_transport_decode_level(), |x| TransportDecodeLevel::from(x), &[]);
    t.round("TransportDecodeLevel", v::all_transport_decode_level(), |x| TransportDecodeLevel::from(x), |n| ffi::TransportDecodeLevel::from(n));
    t.names("LinkDecodeLevel", v::all_link_decode_level(), |x| LinkDecodeLevel::from(x), &[]);
    t.round("LinkDecodeLevel", v::all_link_decode_level(), |x| LinkDecodeLevel::from(x), |n| ffi::LinkDecodeLevel::from(n));
    t.names("PhysDecodeLevel", v::all_phys_decode_level(), |x| PhysDecodeLevel::from(x), &[]);
    t.round("PhysDecodeLevel", v::all_phys_decode_level(), |x| PhysDecodeLevel::from(x), |n| ffi::PhysDecodeLevel::from(n));
    // enums carried inside structs
    t.names("EventMode (UpdateOptions)", v::all_event_mode(), |m| {
        let o: ffi::UpdateOptions = ffi::UpdateOptionsFields { update_static: true, event_mode: m }.into();
        debug_field(&format!("{:?}", UpdateOptions::from(o)), "event_mode")
    }, &[]);
    t.names("TimeQuality (Timestamp)", v::all_time_quality(), |q| {
        let ts: ffi::Timestamp = ffi::TimestampFields { value: 5, quality: q }.into();
        match Option::<Time>::from(&ts) {
            None => "InvalidTime".to_string(),
            Some(Time::Synchronized(_)) => "SynchronizedTime".to_string(),
            Some(Time::Unsynchronized(_)) => "UnsynchronizedTime".to_string(),
        }
    }, &[]);
    t.round("TimeQuality (Timestamp)", v::all_time_quality(), |q| {
        let ts: ffi::Timestamp = ffi::TimestampFields { value: 5, quality: q }.into();
        Option::<Time>::from(&ts)
    }, |n| ffi::Timestamp::from(n).quality());
    t.names("DoubleBit", v::all_double_bit(), |d| {
        let x: ffi::DoubleBitBinaryInput = ffi::DoubleBitBinaryInputFields { index: 1, value: d, flags: ffi::Flags { value: 1 }, time: ffi::TimestampFields { value: 0, quality: ffi::TimeQuality::InvalidTime }.into() }.into();
        DoubleBitBinaryInput::from(x).value
    }, &[]);
    t.round("DoubleBit", v::all_double_bit(), |d| {
        let x: ffi::DoubleBitBinaryInput = ffi::DoubleBitBinaryInputFields { index: 1, value: d, flags: ffi::Flags { value: 1 }, time: ffi::TimestampFields { value: 0, quality: ffi::TimeQuality::InvalidTime }.into() }.into();
        DoubleBitBinaryInput::from(x)
    }, |n| ffi::DoubleBitBinaryInput::new(1, n).value());
    // control codes: trip-close code and op type through ControlCode, both ways
    for tcc in v::all_trip_close_code() {
        for op in v::all_op_type() {
            for (queue, clear) in [(false, false), (true, false), (false, true), (true, true)] {
                let c: ffi::ControlCode = ffi::ControlCodeFields { tcc, clear, queue, op_type: op }.into();
                let n = ControlCode::from(c.clone());
                t.n += 1;
                if norm(&format!("{:?}", n.tcc)) != norm(&format!("{:?}", tcc)) || norm(&format!("{:?}", n.op_type)) != norm(&format!("{:?}", op)) || n.queue != queue || n.clear != clear {
                    t.bad("E-name", "ControlCode", format!("ControlCode: tcc {:?} op {:?} queue {queue} clear {clear} is converted to {:?}", tcc, op, n));
                }
                let back = ffi::ControlCode::from(n);
                if back.tcc() != tcc || back.op_type() != op || back.queue() != queue || back.clear() != clear {
                    t.bad("E-round-trip", "ControlCode", format!("ControlCode: tcc {:?} op {:?} queue {queue} clear {clear} comes back as tcc {:?} op {:?} queue {} clear {}", tcc, op, back.tcc(), back.op_type(), back.queue(), back.clear()));
                }
            }
        }
    }
    t.done()
}

/// value of a field in a `Debug` rendering of a struct (`Name { a: X, b: Y }`)
fn debug_field(debug: &str, field: &str) -> String {
    let key = format!("{field}: ");
    match debug.find(&key) {
        Some(i) => {
            let rest = &debug[i + key.len()..];
            let end = rest.find(|c| c == ',' || c == '}').unwrap_or(rest.len());
            rest[..end].trim().to_string()
        }
        None => format!("<no field {field} in {debug}>"),
    }
}

// point configurations: every combination of static x event variation
fn configs() -> (u64, Vec<J>, Option<(Fail, J)>) {
    let mut t = Tally::new();
    macro_rules! cfg {
        ($name:literal, $sv:ident, $ev:ident, $fields:ident, $ffi:ident, $native:ident $(, $extra:ident : $val:expr)*) => {
            for s in v::$sv() {
                for e in v::$ev() {
                    let c: ffi::$ffi = ffi::$fields { static_variation: s, event_variation: e $(, $extra: $val)* }.into();
                    let n = $native::from(c);
                    let d = format!("{:?}", n);
                    t.n += 1;
                    if t.samples.len() < 2 {
                        t.samples.push(J::s(&format!("{}: ({:?}, {:?}) -> {}", $name, s, e, d)));
                    }
                    if norm(&debug_field(&d, "s_var")) != norm(&format!("{:?}", s)) || norm(&debug_field(&d, "e_var")) != norm(&format!("{:?}", e)) {
                        t.bad("S-config", $name, format!("{}: static {:?} event {:?} is converted to {}", $name, s, e, d));
                    }
                }
            }
        };
    }
    cfg!("BinaryInputConfig", all_static_binary_input_variation, all_event_binary_input_variation, BinaryInputConfigFields, BinaryInputConfig, BinaryInputConfig);
    cfg!("DoubleBitBinaryInputConfig", all_static_double_bit_binary_input_variation, all_event_double_bit_binary_input_variation, DoubleBitBinaryInputConfigFields, DoubleBitBinaryInputConfig, DoubleBitBinaryInputConfig);
    cfg!("BinaryOutputStatusConfig", all_static_binary_output_status_variation, all_event_binary_output_status_variation, BinaryOutputStatusConfigFields, BinaryOutputStatusConfig, BinaryOutputStatusConfig);
    cfg!("CounterConfig", all_static_counter_variation, all_event_counter_variation, CounterConfigFields, CounterConfig, CounterConfig, deadband: 7);
    cfg!("FrozenCounterConfig", all_static_frozen_counter_variation, all_event_frozen_counter_variation, FrozenCounterConfigFields, FrozenCounterConfig, FrozenCounterConfig, deadband: 7);
    cfg!("AnalogInputConfig", all_static_analog_input_variation, all_event_analog_input_variation, AnalogInputConfigFields, AnalogInputConfig, AnalogInputConfig, deadband: 7.5);
    cfg!("AnalogOutputStatusConfig", all_static_analog_output_status_variation, all_event_analog_output_status_variation, AnalogOutputStatusConfigFields, AnalogOutputStatusConfig, AnalogOutputStatusConfig, deadband: 7.5);
    // dead-bands are carried over
    for db in [0u32, 1, 65535, u32::MAX] {
        let c: ffi::CounterConfig = ffi::CounterConfigFields { static_variation: ffi::StaticCounterVariation::Group20Var1, event_variation: ffi::EventCounterVariation::Group22Var1, deadband: db }.into();
        t.n += 1;
        if CounterConfig::from(c).deadband != db {
            t.bad("S-config", "CounterConfig.deadband", format!("counter dead-band {db} not carried over"));
        }
        let c: ffi::FrozenCounterConfig = ffi::FrozenCounterConfigFields { static_variation: ffi::StaticFrozenCounterVariation::Group21Var1, event_variation: ffi::EventFrozenCounterVariation::Group23Var1, deadband: db }.into();
        t.n += 1;
        if FrozenCounterConfig::from(c).deadband != db {
            t.bad("S-config", "FrozenCounterConfig.deadband", format!("frozen counter dead-band {db} not carried over"));
        }
    }
    for db in [0.0f64, -0.0, 0.5, 1e300, f64::MAX, -1.0, -0.5, f64::MIN, f64::INFINITY, f64::NEG_INFINITY, f64::NAN, 5e-324] {
        let c: ffi::AnalogInputConfig = ffi::AnalogInputConfigFields { static_variation: ffi::StaticAnalogInputVariation::Group30Var1, event_variation: ffi::EventAnalogInputVariation::Group32Var1, deadband: db }.into();
        t.n += 1;
        if AnalogInputConfig::from(c).deadband.to_bits() != db.to_bits() {
            t.bad("S-config", "AnalogInputConfig.deadband", format!("analog dead-band {db} not carried over"));
        }
        let c: ffi::AnalogOutputStatusConfig = ffi::AnalogOutputStatusConfigFields { static_variation: ffi::StaticAnalogOutputStatusVariation::Group40Var1, event_variation: ffi::EventAnalogOutputStatusVariation::Group42Var1, deadband: db }.into();
        t.n += 1;
        if AnalogOutputStatusConfig::from(c).deadband.to_bits() != db.to_bits() {
            t.bad("S-config", "AnalogOutputStatusConfig.deadband", format!("analog output status dead-band {db} not carried over"));
        }
    }
    t.done()
}

// ---------------------------------------------------------------------------------------------
// (b) measurements: generated field values, both directions

#[derive(Clone, Debug, Serialize, Deserialize)]
pub struct Meas {
    /// 0 binary, 1 double-bit, 2 binary output status, 3 counter, 4 frozen counter, 5 analog, 6 analog output status
    pub ty: u8,
    pub index: u16,
    /// analog as f64 bits; counters = low 32 bits; binary = bit 0; double-bit = bits 1..0
    pub bits: u64,
    pub flags: u8,
    pub time: u64,
    /// 0 invalid, 1 synchronized, 2 unsynchronized
    pub quality: u8,
}

fn ffi_quality(q: u8) -> ffi::TimeQuality {
    match q % 3 {
        0 => ffi::TimeQuality::InvalidTime,
        1 => ffi::TimeQuality::SynchronizedTime,
        _ => ffi::TimeQuality::UnsynchronizedTime,
    }
}
fn ffi_time(m: &Meas) -> ffi::Timestamp {
    ffi::TimestampFields { value: m.time, quality: ffi_quality(m.quality) }.into()
}
/// the expectation, written independently of the binding crate: namesake quality, same 48-bit value
fn native_time(m: &Meas) -> Option<Time> {
    match m.quality % 3 {
        0 => None,
        1 => Some(Time::Synchronized(Timestamp::new(m.time))),
        _ => Some(Time::Unsynchronized(Timestamp::new(m.time))),
    }
}
fn ffi_double(b: u64) -> ffi::DoubleBit {
    match b & 3 {
        0 => ffi::DoubleBit::Intermediate,
        1 => ffi::DoubleBit::DeterminedOff,
        2 => ffi::DoubleBit::DeterminedOn,
        _ => ffi::DoubleBit::Indeterminate,
    }
}
fn native_double(b: u64) -> DoubleBit {
    match b & 3 {
        0 => DoubleBit::Intermediate,
        1 => DoubleBit::DeterminedOff,
        2 => DoubleBit::DeterminedOn,
        _ => DoubleBit::Indeterminate,
    }
}

fn same_f64(a: f64, b: f64) -> bool {
    a.to_bits() == b.to_bits() || (a.is_nan() && b.is_nan())
}

/// native value as a comparable tuple (value bits, flags, time)
type Flat = (u64, u8, Option<(u64, bool)>);
fn flat_time(t: Option<Time>) -> Option<(u64, bool)> {
    t.map(|t| match t {
        Time::Synchronized(x) => (x.raw_value(), true),
        Time::Unsynchronized(x) => (x.raw_value(), false),
    })
}

pub fn ffi_meas_to_native(m: &Meas) -> Flat {
    let flags = ffi::Flags { value: m.flags };
    let time = ffi_time(m);
    let index = m.index;
    match m.ty % 7 {
        0 => {
            let x: ffi::BinaryInput = ffi::BinaryInputFields { index, value: m.bits & 1 != 0, flags, time }.into();
            let n = BinaryInput::from(x);
            (n.value as u64, n.flags.value, flat_time(n.time))
        }
        1 => {
            let x: ffi::DoubleBitBinaryInput = ffi::DoubleBitBinaryInputFields { index, value: ffi_double(m.bits), flags, time }.into();
            let n = DoubleBitBinaryInput::from(x);
            (
                match n.value {
                    DoubleBit::Intermediate => 0,
                    DoubleBit::DeterminedOff => 1,
                    DoubleBit::DeterminedOn => 2,
                    DoubleBit::Indeterminate => 3,
                },
                n.flags.value,
                flat_time(n.time),
            )
        }
        2 => {
            let x: ffi::BinaryOutputStatus = ffi::BinaryOutputStatusFields { index, value: m.bits & 1 != 0, flags, time }.into();
            let n = BinaryOutputStatus::from(x);
            (n.value as u64, n.flags.value, flat_time(n.time))
        }
        3 => {
            let x: ffi::Counter = ffi::CounterFields { index, value: m.bits as u32, flags, time }.into();
            let n = Counter::from(x);
            (n.value as u64, n.flags.value, flat_time(n.time))
        }
        4 => {
            let x: ffi::FrozenCounter = ffi::FrozenCounterFields { index, value: m.bits as u32, flags, time }.into();
            let n = FrozenCounter::from(x);
            (n.value as u64, n.flags.value, flat_time(n.time))
        }
        5 => {
            let x: ffi::AnalogInput = ffi::AnalogInputFields { index, value: f64::from_bits(m.bits), flags, time }.into();
            let n = AnalogInput::from(x);
            (n.value.to_bits(), n.flags.value, flat_time(n.time))
        }
        _ => {
            let x: ffi::AnalogOutputStatus = ffi::AnalogOutputStatusFields { index, value: f64::from_bits(m.bits), flags, time }.into();
            let n = AnalogOutputStatus::from(x);
            (n.value.to_bits(), n.flags.value, flat_time(n.time))
        }
    }
}

fn expected_flat(m: &Meas) -> Flat {
    let v = match m.ty % 7 {
        0 | 2 => m.bits & 1,
        1 => m.bits & 3,
        3 | 4 => m.bits as u32 as u64,
        _ => m.bits,
    };
    (v, m.flags, flat_time(native_time(m)))
}

/// native -> binding (what a master's read handler or database_get hands to the host language)
pub fn native_meas_to_ffi(m: &Meas) -> (u16, u64, u8, u64, ffi::TimeQuality) {
    let flags = Flags::new(m.flags);
    let time = native_time(m);
    let i = m.index;
    match m.ty % 7 {
        0 => {
            let x = ffi::BinaryInput::new(i, BinaryInput { value: m.bits & 1 != 0, flags, time });
            (x.index(), x.value() as u64, x.flags().value(), x.time().value(), x.time().quality())
        }
        1 => {
            let x = ffi::DoubleBitBinaryInput::new(i, DoubleBitBinaryInput { value: native_double(m.bits), flags, time });
            let v = match x.value() {
                ffi::DoubleBit::Intermediate => 0,
                ffi::DoubleBit::DeterminedOff => 1,
                ffi::DoubleBit::DeterminedOn => 2,
                ffi::DoubleBit::Indeterminate => 3,
            };
            (x.index(), v, x.flags().value(), x.time().value(), x.time().quality())
        }
        2 => {
            let x = ffi::BinaryOutputStatus::new(i, BinaryOutputStatus { value: m.bits & 1 != 0, flags, time });
            (x.index(), x.value() as u64, x.flags().value(), x.time().value(), x.time().quality())
        }
        3 => {
            let x = ffi::Counter::new(i, Counter { value: m.bits as u32, flags, time });
            (x.index(), x.value() as u64, x.flags().value(), x.time().value(), x.time().quality())
        }
        4 => {
            let x = ffi::FrozenCounter::new(i, FrozenCounter { value: m.bits as u32, flags, time });
            (x.index(), x.value() as u64, x.flags().value(), x.time().value(), x.time().quality())
        }
        5 => {
            let x = ffi::AnalogInput::new(i, AnalogInput { value: f64::from_bits(m.bits), flags, time });
            (x.index(), x.value().to_bits(), x.flags().value(), x.time().value(), x.time().quality())
        }
        _ => {
            let x = ffi::AnalogOutputStatus::new(i, AnalogOutputStatus { value: f64::from_bits(m.bits), flags, time });
            (x.index(), x.value().to_bits(), x.flags().value(), x.time().value(), x.time().quality())
        }
    }
}

pub fn run_meas(m: &Meas) -> CaseOut {
    let mut out = CaseOut::default();
    let names = ["binary", "double_bit", "binary_output_status", "counter", "frozen_counter", "analog", "analog_output_status"];
    let name = names[(m.ty % 7) as usize];
    out.label(name);
    let got = ffi_meas_to_native(m);
    let want = expected_flat(m);
    let same_value = if m.ty % 7 >= 5 { same_f64(f64::from_bits(got.0), f64::from_bits(want.0)) } else { got.0 == want.0 };
    // a native Timestamp holds 48 bits
    let want_time = want.2.map(|(t, s)| (t & 0xFFFF_FFFF_FFFF, s));
    if !same_value || got.1 != want.1 || got.2 != want_time {
        out.fail(Fail::new("M-to-native", format!("{name} {:?} crosses into the library as value {:#x} flags {:#04x} time {:?}; expected value {:#x} flags {:#04x} time {:?}", m, got.0, got.1, got.2, want.0, want.1, want_time)).with_sig(format!("M-to-native {name}")));
        return out;
    }
    let back = native_meas_to_ffi(m);
    let want_q = ffi_quality(m.quality);
    let want_t = if m.quality % 3 == 0 { 0 } else { m.time & 0xFFFF_FFFF_FFFF };
    let same_value = if m.ty % 7 >= 5 { same_f64(f64::from_bits(back.1), f64::from_bits(want.0)) } else { back.1 == want.0 };
    if back.0 != m.index || !same_value || back.2 != m.flags || back.3 != want_t || back.4 != want_q {
        out.fail(Fail::new("M-to-binding", format!("{name} {:?} crosses out of the library as index {} value {:#x} flags {:#04x} time {} {:?}; expected index {} value {:#x} flags {:#04x} time {} {:?}", m, back.0, back.1, back.2, back.3, back.4, m.index, want.0, m.flags, want_t, want_q)).with_sig(format!("M-to-binding {name}")));
        return out;
    }
    out.nontrivial = m.flags != 1 || m.quality % 3 != 0;
    out
}

fn meas_strategy() -> BoxedStrategy<Meas> {
    let bits = prop_oneof![
        2 => proptest::sample::select(vec![0u64, 1, 2, 3, 0xFFFF, 0x1_0000, 0xFFFF_FFFF, 0x1_0000_0000, u64::MAX, f64::NAN.to_bits(), f64::INFINITY.to_bits(), (-1.5f64).to_bits(), f64::MAX.to_bits(), 5e-324f64.to_bits()]),
        2 => any::<u64>(),
        1 => any::<f64>().prop_map(|x| x.to_bits()),
    ];
    let time = prop_oneof![Just(0u64), Just(1), Just(0xFFFF_FFFF_FFFF), Just(0xFFFF_FFFF_FFFE), any::<u64>().prop_map(|x| x & 0xFFFF_FFFF_FFFF), any::<u64>()];
    (0u8..7, prop_oneof![Just(0u16), Just(65535), any::<u16>()], bits, prop_oneof![Just(1u8), any::<u8>()], time, 0u8..3).prop_map(|(ty, index, bits, flags, time, quality)| Meas { ty, index, bits, flags, time, quality }).boxed()
}

pub struct Measurements;
impl Prop for Measurements {
    type Case = Meas;
    const ID: &'static str = "C20";
    const NAME: &'static str = "measurements";
    fn rule() -> &'static str {
        "measurements of the seven point types with generated value bit patterns (incl. NaN, infinities, 2^16/2^32 boundaries), every flag octet, 48-bit and wider timestamps and the three time qualities are converted binding -> native (impl From<ffi::X>) and native -> binding (ffi::X::new, as used by read handlers and database_get); every field must equal an expectation written independently of the binding crate; non-trivial = flags != ONLINE or a time present"
    }
    fn strategy(_tier: Tier) -> BoxedStrategy<Meas> {
        meas_strategy()
    }
    fn cases(tier: Tier) -> u32 {
        match tier {
            Tier::Quick => 100_000,
            Tier::Thorough => 20_000_000,
        }
    }
    fn run(case: &Meas) -> CaseOut {
        run_meas(case)
    }
}

pub fn run<C: Codec>(tier: Tier) -> i32 {
    let mut ctx = Ctx::<C>::new("C20", tier);
    ctx.assumptions.push("trusted base: the name normalisation (case and punctuation folded) with the rename table in harness_ffi/c20.rs; the expectations for struct fields written by hand in the harness; the variant lists read back from the generated ffi.rs".into());
    ctx.assumptions.push("conversions behind the tls and serial features are not compiled into the shadow build and not checked".into());
    ctx.exhaustive("every variant of every binding->native enum conversion (by name), round trips where both directions exist, control codes", enums_ffi_to_native);
    ctx.exhaustive("point configurations: every static x event variation pair of the seven config structs, dead-bands", configs);
    super::c20b::exhaustive(&mut ctx);
    ctx.run::<Measurements>();
    ctx.run::<super::c20b::Structs>();
    ctx.run::<super::c20db::DbOps>();
    ctx.finish()
}

pub fn replay<C: Codec>(text: &str) -> i32 {
    let head = match C::from_str::<ReplayHead>(text) {
        Ok(h) => h,
        Err(e) => {
            println!("INCONCLUSIVE replay file does not parse: {e}");
            return 2;
        }
    };
    if head.check.starts_with("exhaustive") {
        println!("replaying an exhaustive sub-domain: re-running the quick check of C20");
        return run::<C>(Tier::Quick);
    }
    let known = load_known::<C>("C20");
    replay_file::<C, Measurements>(text, &known)
        .or_else(|| replay_file::<C, super::c20b::Structs>(text, &known))
        .or_else(|| replay_file::<C, super::c20db::DbOps>(text, &known))
        .unwrap_or_else(|| {
            println!("INCONCLUSIVE no sub-check accepts this replay file");
            2
        })
}
