//! C20 (c): a database operation invoked through the binding layer has exactly the effect of the corresponding native
//! call with the same arguments. Two databases (from two never-spawned outstations), one driven through the
//! `database_*` binding functions, the twin through the native Add/Remove/Update/UpdateFlags/Get traits.
use super::c20::{ffi_meas_to_native, Meas};
use super::engine::*;
use crate::ffi;
use dnp3::app::attr::*;
use dnp3::app::measurement::*;
use dnp3::app::{NullListener, Timestamp};
use dnp3::link::{EndpointAddress, LinkErrorMode};
use dnp3::outstation::database::*;
use dnp3::outstation::*;
use dnp3::tcp::{AddressFilter, Server};
use proptest::prelude::*;
use serde::{Deserialize, Serialize};
use std::collections::BTreeSet;

struct App;
impl OutstationApplication for App {}
struct Info;
impl OutstationInformation for Info {}

fn new_outstation(max_events: u16) -> Option<OutstationHandle> {
    let mut server = Server::new_tcp_server(LinkErrorMode::Close, "127.0.0.1:0".parse().unwrap());
    let config = OutstationConfig::new(EndpointAddress::try_new(1024).unwrap(), EndpointAddress::try_new(1).unwrap(), EventBufferConfig::all_types(max_events));
    // the task is never spawned: only the database is needed
    server.add_outstation_no_spawn(config, Box::new(App), Box::new(Info), DefaultControlHandler::create(), NullListener::create(), AddressFilter::Any).ok().map(|(h, _task)| h)
}

#[derive(Clone, Debug, Serialize, Deserialize)]
pub enum Op {
    /// type 0..=7 (7 = octet string), index, class 0..=3, static variation selector, event variation selector, dead-band selector
    Add(u8, u16, u8, u8, u8, u8),
    Remove(u8, u16),
    /// measurement (type 0..=6), update_static, event mode 0..=2, use the *_2 function
    Update(Meas, bool, u8, bool),
    /// octet string: index, bytes, update_static, event mode, *_2
    UpdateOctets(u16, Vec<u8>, bool, u8, bool),
    /// type 0..=6, index, flags, time, quality, update_static, event mode
    UpdateFlags(u8, u16, u8, u64, u8, bool, u8),
    Get(u8, u16),
    /// kind 0..=6 (string, uint, int, time, bool, float, double), set, writable, variation, value bits
    DefineAttr(u8, u8, bool, u8, u64),
}

#[derive(Clone, Debug, Serialize, Deserialize)]
pub struct Case {
    pub max_events: u16,
    /// points added first: (type, index, class, static sel, event sel, dead-band sel)
    pub setup: Vec<(u8, u16, u8, u8, u8, u8)>,
    /// (redirect selector, op): unless selector % 8 == 0 the op's (type, index) is replaced by the set-up point
    /// number selector * len >> 16, so that most operations hit existing points
    pub ops: Vec<(u16, Op)>,
}

fn redirect(setup: &[(u8, u16, u8, u8, u8, u8)], sel: u16, op: &Op) -> Op {
    if setup.is_empty() || sel % 8 == 0 {
        return op.clone();
    }
    let p = setup[(sel as usize * setup.len()) >> 16];
    let (ty, index) = (p.0 % 8, p.1);
    match op {
        Op::Add(..) | Op::DefineAttr(..) => op.clone(),
        Op::Remove(..) => Op::Remove(ty, index),
        Op::Get(..) => Op::Get(ty, index),
        Op::Update(m, us, mode, two) => {
            if ty == 7 {
                Op::UpdateOctets(index, vec![m.bits as u8, m.flags], *us, *mode, *two)
            } else {
                let mut m = m.clone();
                m.ty = ty;
                m.index = index;
                Op::Update(m, *us, *mode, *two)
            }
        }
        Op::UpdateOctets(_, b, us, mode, two) => {
            if ty == 7 {
                Op::UpdateOctets(index, b.clone(), *us, *mode, *two)
            } else {
                op.clone()
            }
        }
        Op::UpdateFlags(_, _, f, t, q, us, mode) => {
            if ty == 7 {
                op.clone()
            } else {
                Op::UpdateFlags(ty, index, *f, *t, *q, *us, *mode)
            }
        }
    }
}

fn ffi_class(c: u8) -> ffi::EventClass {
    match c % 4 {
        0 => ffi::EventClass::None,
        1 => ffi::EventClass::Class1,
        2 => ffi::EventClass::Class2,
        _ => ffi::EventClass::Class3,
    }
}
fn native_class(c: u8) -> Option<EventClass> {
    match c % 4 {
        0 => None,
        1 => Some(EventClass::Class1),
        2 => Some(EventClass::Class2),
        _ => Some(EventClass::Class3),
    }
}
fn ffi_options(update_static: bool, mode: u8) -> ffi::UpdateOptions {
    ffi::UpdateOptionsFields {
        update_static,
        event_mode: match mode % 3 {
            0 => ffi::EventMode::Detect,
            1 => ffi::EventMode::Force,
            _ => ffi::EventMode::Suppress,
        },
    }
    .into()
}
fn native_options(update_static: bool, mode: u8) -> UpdateOptions {
    UpdateOptions::new(
        update_static,
        match mode % 3 {
            0 => EventMode::Detect,
            1 => EventMode::Force,
            _ => EventMode::Suppress,
        },
    )
}
fn pick<T: Copy>(all: &[T], sel: u8) -> T {
    all[sel as usize % all.len()]
}

const DB_U: [u32; 3] = [0, 2, 1000];
const DB_F: [f64; 7] = [0.0, 0.5, 7.5, -1.0, f64::NAN, f64::INFINITY, f64::NEG_INFINITY];

/// result of one operation in a comparable, printable form
fn info_str(i: UpdateInfo) -> String {
    format!("{:?}", i)
}
fn ffi_info_str(i: ffi::UpdateInfo) -> String {
    match i.result() {
        ffi::UpdateResult::NoPoint => "NoPoint".to_string(),
        ffi::UpdateResult::NoEvent => "NoEvent".to_string(),
        ffi::UpdateResult::Created => format!("Created({})", i.created()),
        ffi::UpdateResult::Overflow => format!("Overflow {{ created: {}, discarded: {} }}", i.created(), i.discarded()),
    }
}

fn native_time(time: u64, quality: u8) -> Option<Time> {
    match quality % 3 {
        0 => None,
        1 => Some(Time::Synchronized(Timestamp::new(time))),
        _ => Some(Time::Unsynchronized(Timestamp::new(time))),
    }
}
fn native_double(b: u64) -> DoubleBit {
    match b & 3 {
        0 => DoubleBit::Intermediate,
        1 => DoubleBit::DeterminedOff,
        2 => DoubleBit::DeterminedOn,
        _ => DoubleBit::Indeterminate,
    }
}

/// current value of (type, index) through the native Get trait, printable
fn native_get(db: &Database, ty: u8, index: u16) -> String {
    match ty % 8 {
        0 => format!("{:?}", Get::<BinaryInput>::get(db, index)),
        1 => format!("{:?}", Get::<DoubleBitBinaryInput>::get(db, index)),
        2 => format!("{:?}", Get::<BinaryOutputStatus>::get(db, index)),
        3 => format!("{:?}", Get::<Counter>::get(db, index)),
        4 => format!("{:?}", Get::<FrozenCounter>::get(db, index)),
        5 => format!("{:?}", Get::<AnalogInput>::get(db, index)),
        6 => format!("{:?}", Get::<AnalogOutputStatus>::get(db, index)),
        _ => format!("{:?}", Get::<OctetString>::get(db, index).map(|o| o.value().to_vec())),
    }
}

/// current value through the binding's database_get_*, converted back by hand (field by field) and printed like native_get
unsafe fn ffi_get(db: *mut Database, ty: u8, index: u16) -> String {
    fn t(ts: &ffi::Timestamp) -> Option<Time> {
        match ts.quality() {
            ffi::TimeQuality::InvalidTime => None,
            ffi::TimeQuality::SynchronizedTime => Some(Time::Synchronized(Timestamp::new(ts.value()))),
            ffi::TimeQuality::UnsynchronizedTime => Some(Time::Unsynchronized(Timestamp::new(ts.value()))),
        }
    }
    match ty % 8 {
        0 => format!("{:?}", crate::database_get_binary_input(db, index).ok().map(|x| BinaryInput { value: x.value(), flags: Flags::new(x.flags().value()), time: t(x.time()) })),
        1 => format!(
            "{:?}",
            crate::database_get_double_bit_binary_input(db, index).ok().map(|x| DoubleBitBinaryInput {
                value: match x.value() {
                    ffi::DoubleBit::Intermediate => DoubleBit::Intermediate,
                    ffi::DoubleBit::DeterminedOff => DoubleBit::DeterminedOff,
                    ffi::DoubleBit::DeterminedOn => DoubleBit::DeterminedOn,
                    ffi::DoubleBit::Indeterminate => DoubleBit::Indeterminate,
                },
                flags: Flags::new(x.flags().value()),
                time: t(x.time())
            })
        ),
        2 => format!("{:?}", crate::database_get_binary_output_status(db, index).ok().map(|x| BinaryOutputStatus { value: x.value(), flags: Flags::new(x.flags().value()), time: t(x.time()) })),
        3 => format!("{:?}", crate::database_get_counter(db, index).ok().map(|x| Counter { value: x.value(), flags: Flags::new(x.flags().value()), time: t(x.time()) })),
        4 => format!("{:?}", crate::database_get_frozen_counter(db, index).ok().map(|x| FrozenCounter { value: x.value(), flags: Flags::new(x.flags().value()), time: t(x.time()) })),
        5 => format!("{:?}", crate::database_get_analog_input(db, index).ok().map(|x| AnalogInput { value: x.value(), flags: Flags::new(x.flags().value()), time: t(x.time()) })),
        6 => format!("{:?}", crate::database_get_analog_output_status(db, index).ok().map(|x| AnalogOutputStatus { value: x.value(), flags: Flags::new(x.flags().value()), time: t(x.time()) })),
        _ => native_get(&*db, ty, index),
    }
}

/// apply one op through the binding layer; returns a printable result
unsafe fn apply_ffi(db: *mut Database, op: &Op) -> String {
    use ffi::*;
    match op {
        Op::Add(ty, index, class, s, e, d) => {
            let c = ffi_class(*class);
            let r = match ty % 8 {
                0 => crate::database_add_binary_input(db, *index, c, BinaryInputConfigFields { static_variation: pick(&super::variants::all_static_binary_input_variation(), *s), event_variation: pick(&super::variants::all_event_binary_input_variation(), *e) }.into()),
                1 => crate::database_add_double_bit_binary_input(
                    db,
                    *index,
                    c,
                    DoubleBitBinaryInputConfigFields { static_variation: pick(&super::variants::all_static_double_bit_binary_input_variation(), *s), event_variation: pick(&super::variants::all_event_double_bit_binary_input_variation(), *e) }.into(),
                ),
                2 => crate::database_add_binary_output_status(
                    db,
                    *index,
                    c,
                    BinaryOutputStatusConfigFields { static_variation: pick(&super::variants::all_static_binary_output_status_variation(), *s), event_variation: pick(&super::variants::all_event_binary_output_status_variation(), *e) }.into(),
                ),
                3 => crate::database_add_counter(db, *index, c, CounterConfigFields { static_variation: pick(&super::variants::all_static_counter_variation(), *s), event_variation: pick(&super::variants::all_event_counter_variation(), *e), deadband: pick(&DB_U, *d) }.into()),
                4 => crate::database_add_frozen_counter(
                    db,
                    *index,
                    c,
                    FrozenCounterConfigFields { static_variation: pick(&super::variants::all_static_frozen_counter_variation(), *s), event_variation: pick(&super::variants::all_event_frozen_counter_variation(), *e), deadband: pick(&DB_U, *d) }.into(),
                ),
                5 => crate::database_add_analog_input(db, *index, c, AnalogInputConfigFields { static_variation: pick(&super::variants::all_static_analog_input_variation(), *s), event_variation: pick(&super::variants::all_event_analog_input_variation(), *e), deadband: pick(&DB_F, *d) }.into()),
                6 => crate::database_add_analog_output_status(
                    db,
                    *index,
                    c,
                    AnalogOutputStatusConfigFields { static_variation: pick(&super::variants::all_static_analog_output_status_variation(), *s), event_variation: pick(&super::variants::all_event_analog_output_status_variation(), *e), deadband: pick(&DB_F, *d) }.into(),
                ),
                _ => crate::database_add_octet_string(db, *index, c),
            };
            format!("{r}")
        }
        Op::Remove(ty, index) => {
            let r = match ty % 8 {
                0 => crate::database_remove_binary_input(db, *index),
                1 => crate::database_remove_double_bit_binary_input(db, *index),
                2 => crate::database_remove_binary_output_status(db, *index),
                3 => crate::database_remove_counter(db, *index),
                4 => crate::database_remove_frozen_counter(db, *index),
                5 => crate::database_remove_analog_input(db, *index),
                6 => crate::database_remove_analog_output_status(db, *index),
                _ => crate::database_remove_octet_string(db, *index),
            };
            format!("{r}")
        }
        Op::Update(m, us, mode, two) => {
            let o = ffi_options(*us, *mode);
            let flags = Flags { value: m.flags };
            let time: Timestamp = TimestampFields {
                value: m.time,
                quality: match m.quality % 3 {
                    0 => TimeQuality::InvalidTime,
                    1 => TimeQuality::SynchronizedTime,
                    _ => TimeQuality::UnsynchronizedTime,
                },
            }
            .into();
            let index = m.index;
            macro_rules! upd {
                ($f1:ident, $f2:ident, $v:expr) => {
                    if *two {
                        ffi_info_str(crate::$f2(db, $v, o))
                    } else {
                        format!("{}", crate::$f1(db, $v, o))
                    }
                };
            }
            match m.ty % 7 {
                0 => upd!(database_update_binary_input, database_update_binary_input_2, BinaryInputFields { index, value: m.bits & 1 != 0, flags, time }.into()),
                1 => upd!(
                    database_update_double_bit_binary_input,
                    database_update_double_bit_binary_input_2,
                    DoubleBitBinaryInputFields {
                        index,
                        value: match m.bits & 3 {
                            0 => DoubleBit::Intermediate,
                            1 => DoubleBit::DeterminedOff,
                            2 => DoubleBit::DeterminedOn,
                            _ => DoubleBit::Indeterminate,
                        },
                        flags,
                        time
                    }
                    .into()
                ),
                2 => upd!(database_update_binary_output_status, database_update_binary_output_status_2, BinaryOutputStatusFields { index, value: m.bits & 1 != 0, flags, time }.into()),
                3 => upd!(database_update_counter, database_update_counter_2, CounterFields { index, value: m.bits as u32, flags, time }.into()),
                4 => upd!(database_update_frozen_counter, database_update_frozen_counter_2, FrozenCounterFields { index, value: m.bits as u32, flags, time }.into()),
                5 => upd!(database_update_analog_input, database_update_analog_input_2, AnalogInputFields { index, value: f64::from_bits(m.bits), flags, time }.into()),
                _ => upd!(database_update_analog_output_status, database_update_analog_output_status_2, AnalogOutputStatusFields { index, value: f64::from_bits(m.bits), flags, time }.into()),
            }
        }
        Op::UpdateOctets(index, bytes, us, mode, two) => {
            let v = crate::octet_string_value_create();
            for b in bytes {
                crate::octet_string_value_add(v, *b);
            }
            let o = ffi_options(*us, *mode);
            let r = if *two { ffi_info_str(crate::database_update_octet_string_2(db, *index, v, o)) } else { format!("{}", crate::database_update_octet_string(db, *index, v, o)) };
            crate::octet_string_value_destroy(v);
            r
        }
        Op::UpdateFlags(ty, index, flags, time, quality, us, mode) => {
            let ft = super::variants::all_update_flags_type()[(*ty % 7) as usize];
            let ts: Timestamp = TimestampFields {
                value: *time,
                quality: match quality % 3 {
                    0 => TimeQuality::InvalidTime,
                    1 => TimeQuality::SynchronizedTime,
                    _ => TimeQuality::UnsynchronizedTime,
                },
            }
            .into();
            ffi_info_str(crate::database_update_flags(db, *index, ft, Flags { value: *flags }, ts, ffi_options(*us, *mode)))
        }
        Op::Get(ty, index) => ffi_get(db, *ty, *index),
        Op::DefineAttr(kind, set, writable, var, bits) => {
            let r = match kind % 7 {
                0 => {
                    let s = std::ffi::CString::new(format!("s{}", bits % 1000)).unwrap();
                    crate::database_define_string_attr(db, *set, *writable, *var, &s)
                }
                1 => crate::database_define_uint_attr(db, *set, *writable, *var, *bits as u32),
                2 => crate::database_define_int_attr(db, *set, *writable, *var, *bits as i32),
                3 => crate::database_define_time_attr(db, *set, *writable, *var, *bits & 0xFFFF_FFFF_FFFF),
                4 => crate::database_define_bool_attr(db, *set, *writable, *var, bits & 1 != 0),
                5 => crate::database_define_float_attr(db, *set, *writable, *var, f32::from_bits(*bits as u32)),
                _ => crate::database_define_double_attr(db, *set, *writable, *var, f64::from_bits(*bits)),
            };
            super::c20::norm(&format!("{:?}", r))
        }
    }
}

/// the corresponding native call
fn apply_native(db: &mut Database, op: &Op) -> String {
    match op {
        Op::Add(ty, index, class, s, e, d) => {
            let c = native_class(*class);
            let r = match ty % 8 {
                0 => db.add(*index, c, BinaryInputConfig::new(pick(&[StaticBinaryInputVariation::Group1Var1, StaticBinaryInputVariation::Group1Var2], *s), pick(&[EventBinaryInputVariation::Group2Var1, EventBinaryInputVariation::Group2Var2, EventBinaryInputVariation::Group2Var3], *e))),
                1 => db.add(
                    *index,
                    c,
                    DoubleBitBinaryInputConfig::new(
                        pick(&[StaticDoubleBitBinaryInputVariation::Group3Var1, StaticDoubleBitBinaryInputVariation::Group3Var2], *s),
                        pick(&[EventDoubleBitBinaryInputVariation::Group4Var1, EventDoubleBitBinaryInputVariation::Group4Var2, EventDoubleBitBinaryInputVariation::Group4Var3], *e),
                    ),
                ),
                2 => db.add(
                    *index,
                    c,
                    BinaryOutputStatusConfig::new(pick(&[StaticBinaryOutputStatusVariation::Group10Var1, StaticBinaryOutputStatusVariation::Group10Var2], *s), pick(&[EventBinaryOutputStatusVariation::Group11Var1, EventBinaryOutputStatusVariation::Group11Var2], *e)),
                ),
                3 => db.add(
                    *index,
                    c,
                    CounterConfig::new(
                        pick(&[StaticCounterVariation::Group20Var1, StaticCounterVariation::Group20Var2, StaticCounterVariation::Group20Var5, StaticCounterVariation::Group20Var6], *s),
                        pick(&[EventCounterVariation::Group22Var1, EventCounterVariation::Group22Var2, EventCounterVariation::Group22Var5, EventCounterVariation::Group22Var6], *e),
                        pick(&DB_U, *d),
                    ),
                ),
                4 => db.add(
                    *index,
                    c,
                    FrozenCounterConfig::new(
                        pick(
                            &[
                                StaticFrozenCounterVariation::Group21Var1,
                                StaticFrozenCounterVariation::Group21Var2,
                                StaticFrozenCounterVariation::Group21Var5,
                                StaticFrozenCounterVariation::Group21Var6,
                                StaticFrozenCounterVariation::Group21Var9,
                                StaticFrozenCounterVariation::Group21Var10,
                            ],
                            *s,
                        ),
                        pick(&[EventFrozenCounterVariation::Group23Var1, EventFrozenCounterVariation::Group23Var2, EventFrozenCounterVariation::Group23Var5, EventFrozenCounterVariation::Group23Var6], *e),
                        pick(&DB_U, *d),
                    ),
                ),
                5 => db.add(
                    *index,
                    c,
                    AnalogInputConfig::new(
                        pick(
                            &[
                                StaticAnalogInputVariation::Group30Var1,
                                StaticAnalogInputVariation::Group30Var2,
                                StaticAnalogInputVariation::Group30Var3,
                                StaticAnalogInputVariation::Group30Var4,
                                StaticAnalogInputVariation::Group30Var5,
                                StaticAnalogInputVariation::Group30Var6,
                            ],
                            *s,
                        ),
                        pick(
                            &[
                                EventAnalogInputVariation::Group32Var1,
                                EventAnalogInputVariation::Group32Var2,
                                EventAnalogInputVariation::Group32Var3,
                                EventAnalogInputVariation::Group32Var4,
                                EventAnalogInputVariation::Group32Var5,
                                EventAnalogInputVariation::Group32Var6,
                                EventAnalogInputVariation::Group32Var7,
                                EventAnalogInputVariation::Group32Var8,
                            ],
                            *e,
                        ),
                        pick(&DB_F, *d),
                    ),
                ),
                6 => db.add(
                    *index,
                    c,
                    AnalogOutputStatusConfig::new(
                        pick(&[StaticAnalogOutputStatusVariation::Group40Var1, StaticAnalogOutputStatusVariation::Group40Var2, StaticAnalogOutputStatusVariation::Group40Var3, StaticAnalogOutputStatusVariation::Group40Var4], *s),
                        pick(
                            &[
                                EventAnalogOutputStatusVariation::Group42Var1,
                                EventAnalogOutputStatusVariation::Group42Var2,
                                EventAnalogOutputStatusVariation::Group42Var3,
                                EventAnalogOutputStatusVariation::Group42Var4,
                                EventAnalogOutputStatusVariation::Group42Var5,
                                EventAnalogOutputStatusVariation::Group42Var6,
                                EventAnalogOutputStatusVariation::Group42Var7,
                                EventAnalogOutputStatusVariation::Group42Var8,
                            ],
                            *e,
                        ),
                        pick(&DB_F, *d),
                    ),
                ),
                _ => db.add(*index, c, OctetStringConfig),
            };
            format!("{r}")
        }
        Op::Remove(ty, index) => {
            let r = match ty % 8 {
                0 => Remove::<BinaryInput>::remove(db, *index),
                1 => Remove::<DoubleBitBinaryInput>::remove(db, *index),
                2 => Remove::<BinaryOutputStatus>::remove(db, *index),
                3 => Remove::<Counter>::remove(db, *index),
                4 => Remove::<FrozenCounter>::remove(db, *index),
                5 => Remove::<AnalogInput>::remove(db, *index),
                6 => Remove::<AnalogOutputStatus>::remove(db, *index),
                _ => Remove::<OctetString>::remove(db, *index),
            };
            format!("{r}")
        }
        Op::Update(m, us, mode, two) => {
            let o = native_options(*us, *mode);
            let flags = Flags::new(m.flags);
            let time = native_time(m.time, m.quality);
            let i = m.index;
            macro_rules! upd {
                ($v:expr) => {
                    if *two {
                        info_str(db.update2(i, &$v, o))
                    } else {
                        format!("{}", db.update(i, &$v, o))
                    }
                };
            }
            match m.ty % 7 {
                0 => upd!(BinaryInput { value: m.bits & 1 != 0, flags, time }),
                1 => upd!(DoubleBitBinaryInput { value: native_double(m.bits), flags, time }),
                2 => upd!(BinaryOutputStatus { value: m.bits & 1 != 0, flags, time }),
                3 => upd!(Counter { value: m.bits as u32, flags, time }),
                4 => upd!(FrozenCounter { value: m.bits as u32, flags, time }),
                5 => upd!(AnalogInput { value: f64::from_bits(m.bits), flags, time }),
                _ => upd!(AnalogOutputStatus { value: f64::from_bits(m.bits), flags, time }),
            }
        }
        Op::UpdateOctets(index, bytes, us, mode, two) => {
            let o = native_options(*us, *mode);
            match OctetString::new(bytes) {
                Ok(s) => {
                    if *two {
                        info_str(db.update2(*index, &s, o))
                    } else {
                        format!("{}", db.update(*index, &s, o))
                    }
                }
                // the binding reports an unusable value like a missing point
                Err(_) => {
                    if *two {
                        info_str(UpdateInfo::NoPoint)
                    } else {
                        "false".to_string()
                    }
                }
            }
        }
        Op::UpdateFlags(ty, index, flags, time, quality, us, mode) => {
            let ft = [
                UpdateFlagsType::BinaryInput,
                UpdateFlagsType::DoubleBitBinaryInput,
                UpdateFlagsType::BinaryOutputStatus,
                UpdateFlagsType::Counter,
                UpdateFlagsType::FrozenCounter,
                UpdateFlagsType::AnalogInput,
                UpdateFlagsType::AnalogOutputStatus,
            ][(*ty % 7) as usize];
            info_str(db.update_flags(*index, ft, Flags::new(*flags), native_time(*time, *quality), native_options(*us, *mode)))
        }
        Op::Get(ty, index) => native_get(db, *ty, *index),
        Op::DefineAttr(kind, set, writable, var, bits) => {
            let value = match kind % 7 {
                0 => OwnedAttrValue::VisibleString(format!("s{}", bits % 1000)),
                1 => OwnedAttrValue::UnsignedInt(*bits as u32),
                2 => OwnedAttrValue::SignedInt(*bits as i32),
                3 => OwnedAttrValue::Dnp3Time(Timestamp::new(*bits & 0xFFFF_FFFF_FFFF)),
                4 => OwnedAttrValue::SignedInt((bits & 1) as i32),
                5 => OwnedAttrValue::FloatingPoint(FloatType::F32(f32::from_bits(*bits as u32))),
                _ => OwnedAttrValue::FloatingPoint(FloatType::F64(f64::from_bits(*bits))),
            };
            let prop = if *writable { AttrProp::writable() } else { AttrProp::default() };
            match db.define_attr(prop, OwnedAttribute::new(AttrSet::new(*set), *var, value)) {
                Ok(()) => "ok".to_string(),
                Err(e) => super::c20::norm(&format!("{:?}", e)),
            }
        }
    }
}

pub fn run_case(case: &Case) -> CaseOut {
    let mut out = CaseOut::default();
    let (Some(a), Some(b)) = (new_outstation(case.max_events), new_outstation(case.max_events)) else {
        panic!("verif/harness: cannot create an outstation");
    };
    let mut touched: BTreeSet<(u8, u16)> = BTreeSet::new();
    let mut events = false;
    let setup_ops: Vec<Op> = case.setup.iter().map(|p| Op::Add(p.0, p.1, p.2, p.3, p.4, p.5)).collect();
    let ops: Vec<Op> = setup_ops.into_iter().chain(case.ops.iter().map(|(sel, op)| redirect(&case.setup, *sel, op))).collect();
    for (k, op) in ops.iter().enumerate() {
        let ra = a.transaction(|db| unsafe { apply_ffi(db as *mut Database, op) });
        let rb = b.transaction(|db| apply_native(db, op));
        match op {
            Op::Add(ty, i, ..) | Op::Remove(ty, i) | Op::UpdateFlags(ty, i, ..) | Op::Get(ty, i) => {
                touched.insert((*ty % 8, *i));
            }
            Op::Update(m, ..) => {
                touched.insert((m.ty % 7, m.index));
            }
            Op::UpdateOctets(i, ..) => {
                touched.insert((7, *i));
            }
            Op::DefineAttr(..) => {}
        }
        if ra.contains("Created") || ra.contains("Overflow") {
            events = true;
        }
        if ra.contains("Overflow") {
            out.label("overflow");
        }
        if ra != rb {
            let kind = format!("{:?}", op);
            let kind = kind.split('(').next().unwrap_or("").to_string();
            out.fail(Fail::new("D-result", format!("op #{k} {:?}: through the binding layer -> {ra}; native call -> {rb}", op)).with_sig(format!("D-result {kind}")));
            return out;
        }
    }
    // every point touched: same state in both databases, by the native Get and by the binding's get
    for (ty, i) in &touched {
        let ga = a.transaction(|db| native_get(db, *ty, *i));
        let gb = b.transaction(|db| native_get(db, *ty, *i));
        if ga != gb {
            out.fail(Fail::new("D-state", format!("type {ty} index {i}: database driven through the binding layer holds {ga}, the natively driven twin holds {gb}")).with_sig(format!("D-state type{ty}")));
            return out;
        }
        let fa = a.transaction(|db| unsafe { ffi_get(db as *mut Database, *ty, *i) });
        if fa != ga {
            out.fail(Fail::new("D-get", format!("type {ty} index {i}: database_get_* returns {fa}, the database holds {ga}")).with_sig(format!("D-get type{ty}")));
            return out;
        }
    }
    if events {
        out.label("events");
    }
    out.nontrivial = events;
    out
}

fn case_strategy(tier: Tier) -> BoxedStrategy<Case> {
    let n = match tier {
        Tier::Quick => 30,
        Tier::Thorough => 100,
    };
    let idx = prop_oneof![4 => 0u16..4, 1 => Just(65535u16), 1 => any::<u16>()];
    let bits = prop_oneof![
        3 => proptest::sample::select(vec![0u64, 1, 2, 3, 5, 1000, 1001, 1003, 0xFFFF_FFFF, 0.4f64.to_bits(), 1.0f64.to_bits(), 7.4f64.to_bits(), 7.6f64.to_bits(), 100.0f64.to_bits(), f64::NAN.to_bits()]),
        1 => any::<u64>(),
    ];
    let time = prop_oneof![Just(0u64), Just(0xFFFF_FFFF_FFFF), any::<u64>().prop_map(|x| x & 0xFFFF_FFFF_FFFF)];
    let meas = (0u8..7, idx.clone(), bits.clone(), prop_oneof![Just(1u8), any::<u8>()], time.clone(), 0u8..3).prop_map(|(ty, index, bits, flags, time, quality)| Meas { ty, index, bits, flags, time, quality });
    let op = prop_oneof![
        4 => (0u8..8, idx.clone(), 0u8..4, any::<u8>(), any::<u8>(), any::<u8>()).prop_map(|(t, i, c, s, e, d)| Op::Add(t, i, c, s, e, d)),
        1 => (0u8..8, idx.clone()).prop_map(|(t, i)| Op::Remove(t, i)),
        8 => (meas, prop_oneof![4 => Just(true), 1 => Just(false)], 0u8..3, any::<bool>()).prop_map(|(m, us, mode, two)| Op::Update(m, us, mode, two)),
        2 => (idx.clone(), prop_oneof![6 => proptest::collection::vec(any::<u8>(), 0..4), 1 => proptest::collection::vec(any::<u8>(), 253..=257)], any::<bool>(), 0u8..3, any::<bool>()).prop_map(|(i, b, us, mode, two)| Op::UpdateOctets(i, b, us, mode, two)),
        3 => (0u8..7, idx.clone(), any::<u8>(), time, 0u8..3, any::<bool>(), 0u8..3).prop_map(|(t, i, f, tm, q, us, mode)| Op::UpdateFlags(t, i, f, tm, q, us, mode)),
        2 => (0u8..8, idx).prop_map(|(t, i)| Op::Get(t, i)),
        1 => (0u8..7, prop_oneof![Just(0u8), Just(1u8), any::<u8>()], any::<bool>(), prop_oneof![Just(0u8), Just(254u8), Just(255u8), Just(1u8), 196u8..=252, any::<u8>()], bits).prop_map(|(k, s, w, v, b)| Op::DefineAttr(k, s, w, v, b)),
    ];
    let setup = proptest::collection::vec((0u8..8, prop_oneof![4 => 0u16..4, 1 => Just(65535u16)], prop_oneof![1 => Just(0u8), 5 => 1u8..4], any::<u8>(), any::<u8>(), any::<u8>()), 0..8);
    (prop_oneof![1 => Just(0u16), 2 => Just(1u16), 2 => Just(2u16), 3 => Just(50u16)], setup, proptest::collection::vec((any::<u16>(), op), 1..n)).prop_map(|(max_events, setup, ops)| Case { max_events, setup, ops }).boxed()
}

pub struct DbOps;
impl Prop for DbOps {
    type Case = Case;
    const ID: &'static str = "C20";
    const NAME: &'static str = "database";
    fn rule() -> &'static str {
        "generated sequences of add / remove / update / update_2 / update_flags / get for the eight point types (all configured variations, dead-bands, classes, update options, values at boundaries, flags, times, event buffers of 0/1/2/50 so that overflow ids occur) and device attribute definitions are applied through the database_* binding functions to one database and through the native traits to a twin; every return value (booleans, UpdateInfo with event ids, attribute definition errors by name) and the final state of every touched point (native Get on both, and the binding's database_get_*) must agree; non-trivial = at least one update created an event"
    }
    fn strategy(tier: Tier) -> BoxedStrategy<Case> {
        case_strategy(tier)
    }
    fn cases(tier: Tier) -> u32 {
        match tier {
            Tier::Quick => 60_000,
            Tier::Thorough => 600_000,
        }
    }
    fn run(case: &Case) -> CaseOut {
        run_case(case)
    }
    fn floors() -> Vec<(&'static str, u32)> {
        vec![("events", 300), ("overflow", 50)]
    }
}
