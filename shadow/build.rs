fn main() {
    println!("cargo:rustc-cfg=stepfunc_dnp3_verif");
    println!("cargo:rustc-check-cfg=cfg(stepfunc_dnp3_verif)");
    println!("cargo:rerun-if-env-changed=VERIF_SRC_HASH");
    if let Ok(h) = std::env::var("VERIF_SRC_HASH") {
        println!("cargo:rustc-env=VERIF_SRC_HASH={h}");
    }
}
