//! `verif_ffi` binary: supplies the serde_json codec and hands over to the harness compiled into dnp3-ffi (hook H4).
struct JsonCodec;

impl dnp3_ffi::verif::engine::Codec for JsonCodec {
    fn to_string<T: serde::Serialize>(t: &T) -> String {
        serde_json::to_string(t).unwrap_or_else(|e| format!("\"<unserialisable: {e}>\""))
    }
    fn from_str<T: serde::de::DeserializeOwned>(s: &str) -> Result<T, String> {
        serde_json::from_str(s).map_err(|e| e.to_string())
    }
}

fn main() {
    dnp3_ffi::verif::main::<JsonCodec>()
}
