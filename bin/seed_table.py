#!/usr/bin/env python3
"""prints the markdown table of DESIGN.md §13 from /verif/seeded/*/meta.json (one row per seeded change)"""
import json, glob, os
rows = []
for m in sorted(glob.glob('/verif/seeded/*/meta.json')):
    d = json.load(open(m))
    name = os.path.basename(os.path.dirname(m))
    hist = d.get('detection_history', 'first run')
    first = 'first run' if hist.strip().lower().startswith('first run') else hist
    rows.append((name, d['breaks_property'], ' '.join(d['detected_by']) or 'NOT DETECTED', d.get('detection', ''), first))
print('| seeded change | breaks | caught by (quick) | clause / how | history |')
print('|---|---|---|---|---|')
for r in rows:
    print('| ' + ' | '.join(x.replace('|', '/').replace('\n', ' ') for x in r) + ' |')
missed = [r for r in rows if r[4] != 'first run']
print()
print(f'{len(rows)} changes; {len(missed)} missed at first; {sum(1 for r in rows if r[2]=="NOT DETECTED")} not detected by any quick check.')
