#!/usr/bin/env python3
"""Regenerates /verif/MANIFEST.json from the table below (kept in one place so it is always valid)."""
import json, subprocess

CHECKS = {
 "C06": dict(
   technique="property-based testing: exhaustive sub-domains + proptest-generated streams, differential against an independent reference scanner",
   text="Generated-input search with an explicit oracle. Exhaustive over all 251 payload lengths x every 2-way split x every single-bit error x both error modes; proptest-generated streams (frames, noise, sync bytes, truncated and bit-flipped frames, embedded frame images) under generated chunkings are read through the real link::reader::Reader over the in-memory PhysLayer and compared with an independent greedy reference scanner; a separate CRC clause checks 1-3 bit errors without the scanner; a sessions sub-check reads 2-4 sessions through ONE reader with Reader::reset() in between (sessions ending inside a frame, at a framing error, or abandoned with bytes buffered) and requires every session to deliver exactly what the scanner finds in its own bytes. Exploration is the right level: the domain is unbounded byte streams x chunkings; finite sub-domains are enumerated completely and reported as such.",
   note="Trusted base: /verif/harness/wire (bit-serial CRC-16/DNP, frame encoder, greedy scanner written from IEEE 1815), hook H3 (VerifIo returns exactly the queued chunk per read). Assumes weight<=3 errors inside one block are always detected by CRC-16/DNP (HD=6 at these lengths).",
   design="DESIGN.md §5 C06"),

 "C03": dict(
   technique="stateful property-based testing (proptest op sequences + interpreter) against an independent event ledger",
   text="Generated histories (updates of all 8 point types, polls by class/type/variation with count limits, right/wrong/late confirms, timeouts, aborting requests, enable/disable unsolicited, reconnects, tiny buffers) drive a real OutstationTask behind the real ServerTask loop on a paused-clock runtime; the harness plays the master on the wire with its own codecs and keeps a ledger of every event id, every fragment that carried it and every release callback. Clauses L1-L6 of DESIGN.md §5 C03 are checked after every step, and the history ends with a confirmed drain. Exploration: the space of histories is unbounded; shrinking yields a minimal op list as replay.",
   note="Trusted base: harness/wire (link, transport, application walker and measurement decoder), hooks H1/H3, virtual clock of tokio (paused). 'Confirmed' is decided by the harness from what it sent and when; confirms exactly at a deadline instant are not judged.",
   design="DESIGN.md §5 C03"),
 "C08": dict(
   technique="property-based testing: exhaustive length sweep + proptest-mutated segment streams against a validity predicate",
   text="Every fragment length 1..=2048 is written through transport::real::writer::Writer, deframed by the reference codec (FIR/FIN/sequence/<=249 rules) and read back through transport::real::reader::Reader under three chunkings, for both directions and every start sequence; generated segment streams from two senders are mutated (drop, duplicate, swap, re-address, FIR/FIN toggles, sequence perturbation, empty frames, interleaving, segments addressed to a broadcast address, datagram transport with two socket addresses per link address and several frames per datagram, reads abandoned and pop() called in the middle of a fragment) and the delivered fragments are compared, both ways, with the statement's validity predicate.",
   note="Trusted base: harness/wire/transport.rs (segmenter + predicate), harness/wire/link.rs. Link addressing is kept valid (C07 covers addressing). A broadcast segment with FIR but without FIN is taken to end the fragment in progress (as every FIR does) and to start nothing.",
   design="DESIGN.md §5 C08"),
 "C12": dict(
   technique="property-based testing of request/response pairs on a deterministic session rig, reference parser as second opinion",
   text="Generated requests (every function code, flag combination, sequence number, 0-4 object headers of acceptable / not-acceptable-for-the-function / unknown / truncated kinds, large control echoes) are sent in idle, solicited-confirm-wait and both unsolicited-confirm-wait states; every transmitted fragment is checked for correlation, flags, numbering, size bound, clean parse by the library parser and the reference walker, silence for no-reply functions whenever every object header parses (usable by the function or not) and an IIN2 error bit for anything rejected, including well-formed but unreadable headers in a READ that was deferred during an unsolicited confirm wait.",
   note="Which IIN2 error bit is used, and silence-vs-error for no-ack functions / CONFIRM whose objects do not parse, are not asserted. Fragments carrying a response function code are not requests and are not judged.",
   design="DESIGN.md §5 C12"),
 "C13": dict(
   technique="stateful property-based testing against a reference model of the indication bits (shares the C03 ledger)",
   text="The C03 history generator extended with broadcasts (3 confirm modes), restart-bit writes, application IIN changes; a model derived from the statement predicts every IIN bit of every newly built response (class bits from the ledger minus in-flight events, overflow latch, restart latch, broadcast pending, application bits) and is compared with the wire.",
   note="Re-sent fragments are not judged (C05). Callback/transmission order is reconstructed from the enter_*_confirm_wait callbacks. A confirm-mandatory broadcast indication after a confirmation the outstation was not waiting for is not judged (statement ambiguous).",
   design="DESIGN.md §5 C13"),
 "C04": dict(
   technique="stateful property-based testing against a reference model of select-before-operate derived from the statement",
   text="Generated op sequences (SELECT / OPERATE in five near-miss variants / DIRECT_OPERATE / READ / WRITE / CONFIRM / malformed / broadcast / foreign master / link status / byte-identical repeats / time advances around the select timeout / reconnects, 4-bit sequence wrap, g12v1 and g41v1-4 with 1- and 2-byte prefixes, handler statuses per index) drive the real outstation session; a model written from the statement (armed / disarmed by any received application fragment) predicts for every OPERATE whether it must execute; compared both ways with ControlHandler::operate(SelectBeforeOperate) calls and with the echoed statuses.",
   note="Not judged: OPERATE exactly at the timeout instant; the timeout base after a retransmitted SELECT. Trusted base: harness/wire codecs, virtual clock.",
   design="DESIGN.md §5 C04"),
 "C05": dict(
   technique="property-based testing with a byte-identity oracle over everything the outstation has transmitted in the session",
   text="Every function the outstation executes is placed in idle, mid multi-fragment series (k confirmed fragments) or inside a null/data unsolicited confirm wait, then repeated 1-4 times byte-identically with generated non-request steps in between; side-effecting callbacks must not fire again, the echo must equal the first reply, and anything re-sent in a confirm wait (echo of a repeated READ, unsolicited retry) must be byte-identical to a fragment already transmitted.",
   note="A READ repeated from idle is answered afresh by design; identity is not asserted there.",
   design="DESIGN.md §5 C05"),
 "C11": dict(
   technique="property-based testing against a mirror-database snapshot and a series-shape/gating oracle",
   text="Generated databases (8 types, sparse indices to 65535, all static variations, arbitrary flags, runs long enough to split bit-packed headers), READs of 1-4 headers (class 0, classes, all-objects/ranges, specific variations, overlaps), tx buffers 249..2048, octet strings up to 255 octets, updates between any two fragments and per-fragment confirm behaviours (right, wrong, UNS bit, slow, missing, ignored traffic half way through the wait, new request, disconnect, pre-empting connection); the concatenated series is compared object by object with the snapshot taken when the READ was sent (points per header, ascending, value, variation/promotion), and FIR/FIN/sequence/CON, confirm gating, abort and fresh-series rules are checked step by step on the virtual clock.",
   note="One known finding (objects larger than any fragment, DESIGN.md §12.4) is listed in known_findings.json and printed as KNOWN-FINDING. Point add/remove during a series and READs beyond max_read_request_headers are outside the domain; type order inside a class-0 expansion is not asserted.",
   design="DESIGN.md §5 C11"),
 "C14": dict(
   technique="stateful property-based testing: clauses U1-U8 over time-stamped unsolicited fragments (shares the C03 interpreter)",
   text="The C03 history generator with unsolicited reporting on; exact virtual transmission times of every fragment are recorded by the in-memory physical layer, and the clauses U1-U8 of DESIGN.md §5 C14 (start-up nulls, enabled classes, one outstanding, identical retries within the limit, retry delay, DISABLE, deferred READ, progress) are evaluated after every step.",
   note="'Up to' n retries: fewer is not a violation. Events exactly at a deadline instant are not judged. ENABLE/DISABLE take effect when their reply is observed.",
   design="DESIGN.md §5 C14"),
 "C01": dict(
   technique="property-based testing / fuzz-style generation: grammar+mutation fragments through every parser consumer, frame streams through link+transport at all decode levels, hostile session scripts with a liveness probe",
   text="Four generators: (1) grammar-derived and mutated application fragments through ParsedFragment::parse, Display at all decode levels, header iteration, request/response validation, measurement extraction with a draining handler and control echo writers; (2) frame streams with arbitrary control bytes, addresses, transport headers and damage through the real link layer and transport reassembly, both roles, all decode-level combinations; (3) hostile session scripts (fragments, raw segments, raw wire bytes, state-moving requests, updates into tiny event buffers, confirms, time, reconnects) against a real outstation session with generated configuration. Oracle: no panic (overflow checks and debug assertions on), no busy loop at one virtual instant, and after the script the endpoint still answers a link status request and a READ with a fresh sequence number (Close mode: on the next connection). (4) the same for a real master: hostile responses (sequence-matched or not, echo deviations, hostile object parts) to every kind of user request and auto task, raw segments and bytes, foreign sources, with the start-up sequence or a quiet association; a Starve step leaves a user request unanswered while the outstation keeps the line busy (null unsolicited responses, stale responses, link status requests, foreign frames) more often than the response timeout: the request must still end; afterwards the master must answer a link status request and serve a user READ.",
   note="Non-yielding infinite loops are only caught by a wall-clock watchdog and reported as INCONCLUSIVE. TLS/serial/UDP sockets are not exercised; datagram semantics are (C06).",
   design="DESIGN.md §5 C01"),
 "C07": dict(
   technique="exhaustive enumeration of the link addressing table + property-based FCB sequences + generated session cases",
   text="The complete table 256 control bytes x 19 destination addresses x 7 source addresses x role x self-address feature x {fresh, after link reset} x 2 passes (440k frames) is run through link::layer::Layer and compared with a transcription of the statement (accepted, reply function/addresses, delivery, FCB toggling); generated RESET/CONFIRMED_USER_DATA sequences check the frame-count-bit rule; generated session cases send valid and invalid fragments from the configured master, a foreign master and the three broadcast addresses in idle and confirm-wait states with the any-master/broadcast features on and off: nothing may be transmitted in reaction to a broadcast, nothing but link-layer traffic and no callback for a foreign master; fragments also travel in two transport segments, from one master address or from two (configured + foreign), and CONFIRMs matching the outstanding response arrive by broadcast and from foreign masters.",
   note="Frames with malformed flag combinations and secondary frames are only required not to be acted on when not addressed to the endpoint. A REQUEST_LINK_STATUS to a broadcast address is required NOT to be answered.",
   design="DESIGN.md §5 C07"),
 "C02": dict(
   technique="stateful property-based testing of a deterministic two-endpoint simulation (PairRig) with fault injection by a proxy; history oracle (authentic / converged / events at least once)",
   text="A real MasterTask and a real OutstationTask (real link and transport layers on both sides, the real ServerTask loop, a client loop mirroring tcp/client.rs) are joined by an in-memory proxy task on a paused-clock runtime. Generated histories: updates of all eight point types with unique values, commands through the master mirrored into output status points, waits around the confirm and response timeouts, connection cuts (now, after k bytes incl. mid-frame, half-open with pre-emption by the next connection), re-chunking and per-direction delays; configurations: unsolicited on/off, event buffers 1/2/3/60, fragment sizes 249..2048, both link error modes on both sides, poll periods, event/overflow scans. After every step every value the ReadHandler received must be one the point really held under the C10 reference (S1); after the history stops, an integrity poll that started after the last update must complete within 100 x (poll period + response timeout) of link-up virtual time and deliver every point's current value, equal to Database::get (S2); every event whose id was not reported discarded must have reached the handler as an event (S3). A second sub-check (tcp) uses only the public API over real sockets and threads: spawn_master_tcp_client <-> byte proxy on 127.0.0.1 <-> Server::add_outstation on a multi-thread runtime, with updates also issued in bursts from a separate OS thread, cuts and re-chunking at the proxy; S1 is judged always, S2/S3 once convergence has been observed, and not converging within the wall-clock budget is a label, never a violation.",
   note="The deterministic sub-check is single-threaded by design; the tcp sub-check samples real thread interleavings and the kernel TCP stack a few dozen (quick) to a few thousand (thorough) times but cannot steer them. Duplicated deliveries and the relative order of a stale event and a newer static value are not asserted. UpdateInfo is trusted to name created / discarded event ids.",
   design="DESIGN.md §5 C02"),
 "C09": dict(
   technique="property-based testing / grammar-based fuzz-style generation: accept=>exact differential against an independent header walker, byte-for-byte differential of every request builder against reference encoders, writer output re-parsed",
   text="(1) accept_exact: fragments from a grammar over the reference size table (every function code, every group/variation x 8 qualifiers, boundary counts and ranges incl. ranges ending at 255/65535, octet strings, attributes, free format), half of them with layout-suited qualifiers so that they are accepted, then truncated/extended/bit-flipped; whenever the library accepts the object part, a generated visitor (one arm per variant of the library's header enums) iterates every header: second pass == first, declared count/indices == yielded, Display shows as many objects, every object re-encodes with the library's own write() to the wire octets, and the independent walker must consume exactly the same octets into the same headers, indices and object octets. (2) requests: descriptions of ReadRequest (all shapes), Headers (incl. time-and-interval, attribute writes), CommandBuilder (5 control types x 8/16-bit indices x several headers), dead-band writes and file objects g70v2/3/4/5/7 are encoded by the library builders and by reference encoders - octets must be identical - then parsed. (3) writers: every response/unsolicited fragment of the static and event writers (C10 generator) must parse, agree with the walker and decode to the described points.",
   note="One-directional on purpose (accept => exact); the walker abstains on combinations the standard leaves undefined, unknown objects and attribute TLVs. Requests the builders can be made to emit from nonsensical user input (e.g. a range READ of an event group) are only required to parse when the combination is certainly defined. Responses written by the session (control echoes, delay/restart responses) are parsed by C12's checks, not here. A one-byte object count beyond 255 objects per header is outside the generated domain.",
   design="DESIGN.md §5 C09"),
 "C10": dict(
   technique="property-based testing: database -> response/unsolicited writer -> library parser -> measurement extraction, compared with a statement-derived 'what this variation can carry' reference",
   text="Generated databases (8 point types, every configurable static and event variation, indices incl. 0/255/256/65535), update sequences (analog values at the i16/i32/binary32 limits, fractions, NaN, infinities, subnormals; counters around 2^16 and 2^32; every flag octet; 48-bit times, synchronized and not, with gaps around 65535 ms and decreasing; Detect/Force/Suppress; update_static on/off) are read by class 0, event classes, type and variation (all, ranges, count-limited) or reported through write_unsolicited into 249..2048-byte fragments; each fragment passes ParsedFragment::parse and extract_measurements_inner into a recording ReadHandler. Every delivered (index, value, flags, time) is compared with carry(variation, record) written from the statement (saturation + OVER_RANGE, low 16 bits of counters, ONLINE for flag-less variations, packed only for plainly ONLINE points, no time / absolute time / exactly reconstructed relative time); every selected point arrives once per selecting header in an admissible variation, every selected event once, in order, for its own point and type.",
   note="Not asserted: NaN into an integer variation; the time delivered for a record without time in a time-carrying variation; sync quality through absolute-time variations; state bits of user flags that contradict the value; +-inf into binary32 may be kept or saturated+flagged; the library may promote a packed variation more often than required. UpdateInfo is trusted to say whether an update created an event.",
   design="DESIGN.md §5 C10"),
 "C15": dict(
   technique="property-based testing of response streams against a statement-derived acceptance model (MasterRig)",
   text="A real MasterTask (real link layer and transport) is driven over the in-memory physical layer; the harness plays the outstations. For an outstanding READ (1-3 planned fragments), command, link check or nothing, generated streams mix the expected fragment with one-deviation variants (sequence, source, FIR/FIN/CON/UNS, IIN2, unparsable objects, non-response functions), unsolicited responses (new/duplicate, with and without data/CON, unknown source) and silences. The model says which fragments are accepted; compared with the user future's outcome, the ReadHandler's begin/objects/end record and the CONFIRMs on the wire (exactly one per accepted CON fragment, right sequence number and UNS bit).",
   note="Fragments that are not well-formed responses at header level may fail the task or be ignored; a READ answered with an early FIN is a valid shorter answer; the timeout instant is not judged.",
   design="DESIGN.md §5 C15"),
 "C16": dict(
   technique="property-based testing: one-deviation echoes for commands; fault injection at every step of every user request kind",
   text="(1) Command sets over the five control types, 8/16-bit indices, 1-3 headers, direct or select-before-operate; the harness echoes faithfully or with exactly one deviation at step 1 or 2; success iff faithful, OPERATE only after a faithful SELECT echo with seq+1 and identical objects, nothing sent after a deviation; headers are closed explicitly or by the builder itself, and every step's objects on the wire are compared with a reference encoding of what the user asked for. (2) Eighteen request kinds (read, commands, three time-sync procedures, restarts, dead-band write, empty-response request, link check, file read with a FileReader, file authentication / open / write block / close / info, directory read) x fault after step k (reply lost - optionally with a link frame, an unsolicited response, a stale or a foreign response arriving instead -, disconnect, channel disabled, association removed, none): the user future resolves exactly once with Ok iff no fault and otherwise with the corresponding error (reply lost -> ResponseTimeout, disable -> Disabled, disconnect -> Link), the FileReader gets exactly one terminal callback, within (steps+1) response timeouts of virtual time.",
   note="Master shutdown by dropping all handles is not generated; which error the in-flight request of a removed association gets is not judged.",
   design="DESIGN.md §5 C16"),
 "C17": dict(
   technique="stateful property-based testing against the ordering relation of the statement (scripted outstation)",
   text="Generated association configurations and a scripted outstation (per request: proper reply with generated indication bits, IIN2 rejection with or without indication bits, unacceptable reply, silence; injected unsolicited responses and reconnects). A model of what is still due (clear restart < disable < integrity < time sync < enable < polls) is updated from the indications the harness itself sent (a reply's indications are applied after the task's own result, so a restart shown in the reply to the integrity poll or to ENABLE_UNSOLICITED re-arms that very step); every transmitted request is checked against it, retry instants against the exponential back-off, and unsolicited data against the integrity-poll gate.",
   note="After an IIN2 rejection of DISABLE/ENABLE giving up and retrying are both accepted; a request already on the wire when an indication is injected is not judged for order, and does not count as the repetition a restart calls for.",
   design="DESIGN.md §5 C17"),
 "C18": dict(
   technique="property-based testing of the paired simulation with scripted per-message delays; metamorphic accuracy bound derived from the statement",
   text="A real master and a real outstation joined by the proxy of PairRig, which delays each message by a generated amount (0..70000 ms per leg, often all equal so that the error must vanish); master clock values incl. those within reach of 2^48-1 and a master without clock; the LAN, non-LAN and direct-write procedures; reported processing delays 0..65535, honest (the reply really is that late) or not; an application that rejects the write or keeps NEED_TIME set; unsolicited reports and wrong-sequence replies injected at generated instants; optional earlier attempts that are abandoned (write rejected, connection cut after the first request, NEED_TIME kept) before the judged procedure. Whenever the master reports success, exactly one write_absolute_time happened and its value differs from the master's clock at that very virtual instant by no more than the one-way delay (LAN, direct write) or the largest difference between the one-way delays (non-LAN), +1 ms rounding; whenever the reported processing delay exceeds the round trip, NEED_TIME persists, the application rejected the write, the time does not fit 48 bits or the master has no clock, success must not be reported.",
   note="A reply with unexpected objects cannot be produced by the real outstation; that clause is exercised only through the scripted outstation of C15/C16. A dishonest processing-delay report is only required to be caught when it exceeds the round trip. Whether a fault-free synchronisation must succeed is not asserted (statement is one-directional).",
   design="DESIGN.md §5 C18"),
 "C19": dict(
   technique="stateful property-based testing over exactly time-stamped request traces (virtual clock)",
   text="1-4 associations with 0-3 polls each and optional keep-alive, user READs and WRITEs and poll demands at generated times, outstations that answer promptly, late or never and send null unsolicited responses at any moment. Checked on the trace: one request outstanding at a time, user requests in order and ahead of polls, polls never early and never late while the channel is idle, nothing due is left waiting at quiescence, keep-alive only after the configured silence of THAT outstation, associations take turns (between two user requests of one association every other association whose request has waited since before the first is served), bounded task polls while idle (no spinning).",
   note="A demand issued while that very poll is running is not judged. Requests refused with TooManyRequests (documented back-pressure, 16 waiting requests) leave the model's queue; the turn-taking clause is suspended once 15 requests wait at the same time (the master may not have seen all of them).",
   design="DESIGN.md §5 C19"),
 "C20": dict(
   technique="exhaustive enumeration of enum conversions (variant lists read back from the generated FFI) + property-based struct conversion checks + differential (binding vs native) model-based database op sequences",
   text="(a) Every variant of every binding->native enum conversion (update flags type, event class, file mode, command mode, time sync mode, function code, UDP/link modes, command status, 135 variations, decode levels, event mode, time quality, double bit, control codes, restart delay type, write-time/freeze results, auto time sync) is converted and compared by name with its namesake; round trips where both directions exist; native->binding enums (read/task types, client/connection states, file type, broadcast action, operate type, every task error into each of the eight binding error enums, command / time-sync / file errors, qualifier and response function inside header structures) from hand lists guarded by exhaustive matches, with the documented folding table. All seven point configuration structs over every static x event variation pair. (b) Generated measurements (7 types, value bit patterns, every flag octet, 48-bit times x 3 qualities) both directions against an independent expectation; 19 kinds of configuration / header / status structures field by field. (c) Differential database: generated sequences of add/remove/update/update_2/update_flags/get/define-attribute through the database_* binding functions on one database and the native traits on a twin (event buffers 0/1/2/50 so overflow ids occur): every return value and the final state of every touched point must agree, also through database_get_*.",
   note="The shadow build has the tls and serial features off: TLS / serial configuration conversions are not checked. Sequence numbers inside headers can only be produced as 0 outside the library. Request/command-set builder functions of the binding are not compared (the native writers are crate-private). The rename/folding tables in harness_ffi are part of the trusted base.",
   design="DESIGN.md §5 C20"),
}
NOT_YET = {
}

def main():
    props = [json.loads(l) for l in open('/verif/properties.jsonl')]
    hooks = subprocess.run(['git','-C','/repo','log','--format=%h %s'],capture_output=True,text=True).stdout.splitlines()
    hook_commits = [l.split()[0] for l in hooks if 'verif hook' in l]
    checks=[]; na=[]
    for p in props:
        pid=p['id']
        if pid in CHECKS:
            c=CHECKS[pid]
            checks.append({
              "property_id": pid,
              "quick_cmd": f"bin/check {pid} quick",
              "thorough_cmd": f"bin/check {pid} thorough",
              "evidence_file": f"/verif/evidence/{pid}.json",
              "replay_cmd_template": f"bin/check {pid} replay {{path}}",
              "engine": "verif-harness-ffi" if pid=="C20" else "verif-harness",
              "level_claimed": {"category":"exploration","text":c['text'],"design_ref":c['design']},
              "level_note": c['note'],
              "technique": c['technique'],
            })
        else:
            na.append({"property_id":pid,"reason":NOT_YET.get(pid,"check not built yet in this session (work in progress; property-based testing applies and is planned, see DESIGN.md §5)")})
    m={
      "version":1,
      "setup_cmd":"bin/setup",
      "hooks":{
        "guard":"stepfunc_dnp3_verif",
        "enable":"cfg flag --cfg stepfunc_dnp3_verif, emitted only by /verif/shadow/build.rs (and /verif/shadow_ffi/build.rs); the shadow package's [lib] path points at /repo/dnp3/src/lib.rs so checks always compile /repo's working tree",
        "baseline_off_cmd":"bin/baseline",
        "source_commits":hook_commits,
        "add_only":True,
      },
      "engines":[{"name":"verif-harness","path":"/verif/harness","serves_properties":sorted(k for k in CHECKS.keys() if k!="C20"),
                  "kind_free_text":"Rust harness compiled into the dnp3 crate (hook H1) in a non-test build; proptest TestRunner with fixed seeds, shrinking to JSON replay files, independent reference codecs, deterministic single-thread tokio rigs with paused clock over an in-memory PhysLayer (hook H3)"},
                 {"name":"verif-harness-ffi","path":"/verif/harness_ffi","serves_properties":["C20"],
                  "kind_free_text":"Rust harness compiled into the dnp3-ffi crate (hook H4) by the shadow package /verif/shadow_ffi, whose build script runs the real oo-bindgen code generation and reads the variant list of every generated enum back from ffi.rs; shares the proptest runner / evidence / replay engine of verif-harness"}],
      "checks":checks,
      "not_applicable":na,
      "notes":"exit codes: 0 held (KNOWN-FINDING lines possible), 1 VIOLATION, 2 INCONCLUSIVE (build failure / watchdog / generator health). VERIF_SEED selects the PRNG stream; VERIF_SCALE=<percent> scales generated case counts.",
    }
    json.dump(m,open('/verif/MANIFEST.json','w'),indent=1)
    print("checks:",len(checks),"not_applicable:",len(na))
main()
