#!/usr/bin/env python3
"""Regenerates /verif/MANIFEST.json from the table below (kept in one place so it is always valid)."""
import json, subprocess

CHECKS = {
 "C06": dict(
   technique="property-based testing: exhaustive sub-domains + proptest-generated streams, differential against an independent reference scanner",
   text="Generated-input search with an explicit oracle. Exhaustive over all 251 payload lengths x every 2-way split x every single-bit error x both error modes; proptest-generated streams (frames, noise, sync bytes, truncated and bit-flipped frames, embedded frame images) under generated chunkings are read through the real link::reader::Reader over the in-memory PhysLayer and compared with an independent greedy reference scanner; a separate CRC clause checks 1-3 bit errors without the scanner. Exploration is the right level: the domain is unbounded byte streams x chunkings; finite sub-domains are enumerated completely and reported as such.",
   note="Trusted base: /verif/harness/wire (bit-serial CRC-16/DNP, frame encoder, greedy scanner written from IEEE 1815), hook H3 (VerifIo returns exactly the queued chunk per read). Assumes weight<=3 errors inside one block are always detected by CRC-16/DNP (HD=6 at these lengths).",
   design="DESIGN.md §5 C06"),

 "C03": dict(
   technique="stateful property-based testing (proptest op sequences + interpreter) against an independent event ledger",
   text="Generated histories (updates of all 8 point types, polls by class/type/variation with count limits, right/wrong/late confirms, timeouts, aborting requests, enable/disable unsolicited, reconnects, tiny buffers) drive a real OutstationTask behind the real ServerTask loop on a paused-clock runtime; the harness plays the master on the wire with its own codecs and keeps a ledger of every event id, every fragment that carried it and every release callback. Clauses L1-L6 of DESIGN.md §5 C03 are checked after every step, and the history ends with a confirmed drain. Exploration: the space of histories is unbounded; shrinking yields a minimal op list as replay.",
   note="Trusted base: harness/wire (link, transport, application walker and measurement decoder), hooks H1/H3, virtual clock of tokio (paused). 'Confirmed' is decided by the harness from what it sent and when; confirms exactly at a deadline instant are not judged.",
   design="DESIGN.md §5 C03"),
 "C08": dict(
   technique="property-based testing: exhaustive length sweep + proptest-mutated segment streams against a validity predicate",
   text="Every fragment length 1..=2048 is written through transport::real::writer::Writer, deframed by the reference codec (FIR/FIN/sequence/<=249 rules) and read back through transport::real::reader::Reader under three chunkings, for both directions and every start sequence; generated segment streams from two senders are mutated (drop, duplicate, swap, re-address, FIR/FIN toggles, sequence perturbation, empty frames, interleaving) and the delivered fragments are compared, both ways, with the statement's validity predicate.",
   note="Trusted base: harness/wire/transport.rs (segmenter + predicate), harness/wire/link.rs. Link addressing is kept valid (C07 covers addressing).",
   design="DESIGN.md §5 C08"),
 "C12": dict(
   technique="property-based testing of request/response pairs on a deterministic session rig, reference parser as second opinion",
   text="Generated requests (every function code, flag combination, sequence number, 0-4 object headers of acceptable / not-acceptable-for-the-function / unknown / truncated kinds, large control echoes) are sent in idle, solicited-confirm-wait and both unsolicited-confirm-wait states; every transmitted fragment is checked for correlation, flags, numbering, size bound, clean parse by the library parser and the reference walker, silence for no-reply functions and an IIN2 error bit for anything rejected.",
   note="Which IIN2 error bit is used, and silence-vs-error for no-ack functions / CONFIRM with unacceptable objects, are not asserted. Fragments carrying a response function code are not requests and are not judged.",
   design="DESIGN.md §5 C12"),
 "C13": dict(
   technique="stateful property-based testing against a reference model of the indication bits (shares the C03 ledger)",
   text="The C03 history generator extended with broadcasts (3 confirm modes), restart-bit writes, application IIN changes; a model derived from the statement predicts every IIN bit of every newly built response (class bits from the ledger minus in-flight events, overflow latch, restart latch, broadcast pending, application bits) and is compared with the wire.",
   note="Re-sent fragments are not judged (C05). Callback/transmission order is reconstructed from the enter_*_confirm_wait callbacks. A confirm-mandatory broadcast indication after a confirmation the outstation was not waiting for is not judged (statement ambiguous).",
   design="DESIGN.md §5 C13"),
}
NOT_YET = {
}

def main():
    props = [json.loads(l) for l in open('/verif/properties.jsonl')]
    hooks = subprocess.run(['git','-C','/repo','log','--format=%h %s'],capture_output=True,text=True).stdout.splitlines()
    hook_commits = [l.split()[0] for l in hooks if 'verif hook' in l]
    checks=[]; na=[]
    for p in props:
        pid=p['id']
        if pid in CHECKS:
            c=CHECKS[pid]
            checks.append({
              "property_id": pid,
              "quick_cmd": f"bin/check {pid} quick",
              "thorough_cmd": f"bin/check {pid} thorough",
              "evidence_file": f"/verif/evidence/{pid}.json",
              "replay_cmd_template": f"bin/check {pid} replay {{path}}",
              "engine": "verif-harness",
              "level_claimed": {"category":"exploration","text":c['text'],"design_ref":c['design']},
              "level_note": c['note'],
              "technique": c['technique'],
            })
        else:
            na.append({"property_id":pid,"reason":NOT_YET.get(pid,"check not built yet in this session (work in progress; property-based testing applies and is planned, see DESIGN.md §5)")})
    m={
      "version":1,
      "setup_cmd":"bin/setup",
      "hooks":{
        "guard":"stepfunc_dnp3_verif",
        "enable":"cfg flag --cfg stepfunc_dnp3_verif, emitted only by /verif/shadow/build.rs (and /verif/shadow_ffi/build.rs); the shadow package's [lib] path points at /repo/dnp3/src/lib.rs so checks always compile /repo's working tree",
        "baseline_off_cmd":"bin/baseline",
        "source_commits":hook_commits,
        "add_only":True,
      },
      "engines":[{"name":"verif-harness","path":"/verif/harness","serves_properties":sorted(CHECKS.keys()),
                  "kind_free_text":"Rust harness compiled into the dnp3 crate (hook H1) in a non-test build; proptest TestRunner with fixed seeds, shrinking to JSON replay files, independent reference codecs, deterministic single-thread tokio rigs with paused clock over an in-memory PhysLayer (hook H3)"}],
      "checks":checks,
      "not_applicable":na,
      "notes":"exit codes: 0 held (KNOWN-FINDING lines possible), 1 VIOLATION, 2 INCONCLUSIVE (build failure / watchdog / generator health). VERIF_SEED selects the PRNG stream; VERIF_SCALE=<percent> scales generated case counts.",
    }
    json.dump(m,open('/verif/MANIFEST.json','w'),indent=1)
    print("checks:",len(checks),"not_applicable:",len(na))
main()
