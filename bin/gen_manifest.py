#!/usr/bin/env python3
"""Regenerates /verif/MANIFEST.json from the table below (kept in one place so it is always valid)."""
import json, subprocess

CHECKS = {
 "C06": dict(
   technique="property-based testing: exhaustive sub-domains + proptest-generated streams, differential against an independent reference scanner",
   text="Generated-input search with an explicit oracle. Exhaustive over all 251 payload lengths x every 2-way split x every single-bit error x both error modes; proptest-generated streams (frames, noise, sync bytes, truncated and bit-flipped frames, embedded frame images) under generated chunkings are read through the real link::reader::Reader over the in-memory PhysLayer and compared with an independent greedy reference scanner; a separate CRC clause checks 1-3 bit errors without the scanner. Exploration is the right level: the domain is unbounded byte streams x chunkings; finite sub-domains are enumerated completely and reported as such.",
   note="Trusted base: /verif/harness/wire (bit-serial CRC-16/DNP, frame encoder, greedy scanner written from IEEE 1815), hook H3 (VerifIo returns exactly the queued chunk per read). Assumes weight<=3 errors inside one block are always detected by CRC-16/DNP (HD=6 at these lengths).",
   design="DESIGN.md §5 C06"),
}

NOT_YET = {
}

def main():
    props = [json.loads(l) for l in open('/verif/properties.jsonl')]
    hooks = subprocess.run(['git','-C','/repo','log','--format=%h %s'],capture_output=True,text=True).stdout.splitlines()
    hook_commits = [l.split()[0] for l in hooks if 'verif hook' in l]
    checks=[]; na=[]
    for p in props:
        pid=p['id']
        if pid in CHECKS:
            c=CHECKS[pid]
            checks.append({
              "property_id": pid,
              "quick_cmd": f"bin/check {pid} quick",
              "thorough_cmd": f"bin/check {pid} thorough",
              "evidence_file": f"/verif/evidence/{pid}.json",
              "replay_cmd_template": f"bin/check {pid} replay {{path}}",
              "engine": "verif-harness",
              "level_claimed": {"category":"exploration","text":c['text'],"design_ref":c['design']},
              "level_note": c['note'],
              "technique": c['technique'],
            })
        else:
            na.append({"property_id":pid,"reason":NOT_YET.get(pid,"check not built yet in this session (work in progress; property-based testing applies and is planned, see DESIGN.md §5)")})
    m={
      "version":1,
      "setup_cmd":"bin/setup",
      "hooks":{
        "guard":"stepfunc_dnp3_verif",
        "enable":"cfg flag --cfg stepfunc_dnp3_verif, emitted only by /verif/shadow/build.rs (and /verif/shadow_ffi/build.rs); the shadow package's [lib] path points at /repo/dnp3/src/lib.rs so checks always compile /repo's working tree",
        "baseline_off_cmd":"bin/baseline",
        "source_commits":hook_commits,
        "add_only":True,
      },
      "engines":[{"name":"verif-harness","path":"/verif/harness","serves_properties":sorted(CHECKS.keys()),
                  "kind_free_text":"Rust harness compiled into the dnp3 crate (hook H1) in a non-test build; proptest TestRunner with fixed seeds, shrinking to JSON replay files, independent reference codecs, deterministic single-thread tokio rigs with paused clock over an in-memory PhysLayer (hook H3)"}],
      "checks":checks,
      "not_applicable":na,
      "notes":"exit codes: 0 held (KNOWN-FINDING lines possible), 1 VIOLATION, 2 INCONCLUSIVE (build failure / watchdog / generator health). VERIF_SEED selects the PRNG stream; VERIF_SCALE=<percent> scales generated case counts.",
    }
    json.dump(m,open('/verif/MANIFEST.json','w'),indent=1)
    print("checks:",len(checks),"not_applicable:",len(na))
main()
