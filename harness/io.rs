//! H3: in-memory physical layer. The harness decides exactly what every `read` returns.
use std::collections::VecDeque;
use tokio::sync::mpsc::{unbounded_channel, UnboundedReceiver, UnboundedSender};

/// library side of the pipe (wrapped by `PhysLayer::Verif`)
pub struct VerifIo {
    rx: UnboundedReceiver<Chunk>,
    tx: UnboundedSender<(Option<tokio::time::Instant>, Vec<u8>)>,
    pending: VecDeque<u8>,
    datagram: bool,
    /// socket address the bytes returned by the last `read` came from (datagram sources), if the harness named one
    last_from: Option<std::net::SocketAddr>,
    /// destination socket address of every `write`, in order (None = no address given)
    write_to: std::sync::Arc<std::sync::Mutex<Vec<Option<std::net::SocketAddr>>>>,
}

/// what the harness queues for one `read`: the octets and, optionally, the socket address they come from
pub struct Chunk {
    pub data: Vec<u8>,
    pub from: Option<std::net::SocketAddr>,
}

/// harness side of the pipe
pub struct VerifPeer {
    pub to_lib: Option<UnboundedSender<Chunk>>,
    pub from_lib: UnboundedReceiver<(Option<tokio::time::Instant>, Vec<u8>)>,
    /// destination socket address of every write of the library, in the order of `from_lib`
    pub write_to: std::sync::Arc<std::sync::Mutex<Vec<Option<std::net::SocketAddr>>>>,
}

pub fn pipe(datagram: bool) -> (VerifIo, VerifPeer) {
    let (to_lib, rx) = unbounded_channel();
    let (tx, from_lib) = unbounded_channel();
    let write_to: std::sync::Arc<std::sync::Mutex<Vec<Option<std::net::SocketAddr>>>> =
        Default::default();
    (
        VerifIo {
            rx,
            tx,
            pending: VecDeque::new(),
            datagram,
            last_from: None,
            write_to: write_to.clone(),
        },
        VerifPeer {
            to_lib: Some(to_lib),
            from_lib,
            write_to,
        },
    )
}

impl VerifIo {
    /// returns exactly the next chunk queued by the harness (split if larger than `buf` in stream mode,
    /// truncated in datagram mode); Ok(0) = EOF when the harness closed its end
    pub async fn read(&mut self, buf: &mut [u8]) -> std::io::Result<usize> {
        if buf.is_empty() {
            return Ok(0);
        }
        if self.pending.is_empty() {
            loop {
                match self.rx.recv().await {
                    None => return Ok(0),
                    Some(chunk) => {
                        if chunk.data.is_empty() {
                            continue;
                        }
                        self.last_from = chunk.from;
                        self.pending.extend(chunk.data);
                        break;
                    }
                }
            }
        }
        let n = std::cmp::min(buf.len(), self.pending.len());
        for b in buf.iter_mut().take(n) {
            *b = self.pending.pop_front().unwrap();
        }
        if self.datagram {
            self.pending.clear();
        }
        Ok(n)
    }

    /// the physical source address of what the last `read` returned
    pub fn last_source(&self) -> crate::util::phys::PhysAddr {
        match self.last_from {
            Some(a) => crate::util::phys::PhysAddr::Udp(a),
            None => crate::util::phys::PhysAddr::None,
        }
    }

    /// `write` with the physical destination address the library chose
    pub async fn write_all_to(
        &mut self,
        data: &[u8],
        addr: crate::util::phys::PhysAddr,
    ) -> std::io::Result<()> {
        self.write_to.lock().unwrap().push(match addr {
            crate::util::phys::PhysAddr::Udp(a) => Some(a),
            crate::util::phys::PhysAddr::None => None,
        });
        self.write_all(data).await
    }

    pub async fn write_all(&mut self, data: &[u8]) -> std::io::Result<()> {
        // the (virtual) instant of the write, when a tokio runtime with a clock is running
        let now = if tokio::runtime::Handle::try_current().is_ok() {
            Some(tokio::time::Instant::now())
        } else {
            None
        };
        self.tx
            .send((now, data.to_vec()))
            .map_err(|_| std::io::Error::new(std::io::ErrorKind::BrokenPipe, "verif peer closed"))
    }
}

impl VerifPeer {
    pub fn send(&self, data: &[u8]) -> bool {
        match &self.to_lib {
            Some(tx) => tx
                .send(Chunk {
                    data: data.to_vec(),
                    from: None,
                })
                .is_ok(),
            None => false,
        }
    }
    /// one datagram from the given (fictitious) socket address 10.0.0.<peer>:20000
    pub fn send_from(&self, data: &[u8], peer: u8) -> bool {
        match &self.to_lib {
            Some(tx) => tx
                .send(Chunk {
                    data: data.to_vec(),
                    from: Some(std::net::SocketAddr::from(([10, 0, 0, peer], 20000))),
                })
                .is_ok(),
            None => false,
        }
    }
    /// close the harness->library direction (library reads EOF)
    pub fn close(&mut self) {
        self.to_lib = None;
    }
    /// everything the library has written so far (non-blocking), one Vec per `write` call
    pub fn drain(&mut self) -> Vec<Vec<u8>> {
        self.drain_timed().into_iter().map(|x| x.1).collect()
    }
    /// same, with the virtual instant of each write
    pub fn drain_timed(&mut self) -> Vec<(Option<tokio::time::Instant>, Vec<u8>)> {
        let mut out = Vec::new();
        while let Ok(x) = self.from_lib.try_recv() {
            out.push(x);
        }
        out
    }
}
