//! MasterRig: a real `MasterTask` (real link layer and transport) behind a connection loop that mirrors
//! tcp/client.rs, over `PhysLayer::Verif`. The harness plays one or more outstations on the wire and owns
//! the user-side handles.
use super::handler::{HEv, RecHandler};
use super::{settle, Counted, Polls};
use crate::app::parse::options::ParseOptions;
use crate::app::{BufferSize, FunctionCode, RetryStrategy, Sequence, Timeout, Timestamp};
use crate::link::reader::LinkModes;
use crate::link::{EndpointAddress, LinkErrorMode};
use crate::master::task::MasterTask;
use crate::master::*;
use crate::util::phys::PhysLayer;
use crate::util::session::{Enabled, RunError, Session, StopReason};
use crate::verif::engine::{self, Fail};
use crate::verif::io::{pipe, VerifPeer};
use crate::verif::wire::app::Fragment;
use crate::verif::wire::link as rl;
use crate::verif::wire::transport::Segment;
use std::collections::BTreeMap;
use std::sync::{Arc, Mutex};
use std::time::Duration;

pub const M_ADDR: u16 = 1;

#[derive(Clone, Debug, PartialEq)]
pub enum InfoEv {
    TaskStart(String, u8, u8),
    TaskSuccess(String, u8, u8),
    TaskFail(String, String),
    Unsolicited(bool, u8),
}

#[derive(Clone, Default)]
pub struct InfoLog {
    pub log: Arc<Mutex<Vec<(u64, InfoEv)>>>,
    pub start: Option<tokio::time::Instant>,
}

impl InfoLog {
    fn push(&self, e: InfoEv) {
        let t = self
            .start
            .map(|s| tokio::time::Instant::now().duration_since(s).as_millis() as u64)
            .unwrap_or(0);
        self.log.lock().unwrap().push((t, e));
    }
    pub fn take(&self) -> Vec<(u64, InfoEv)> {
        std::mem::take(&mut self.log.lock().unwrap())
    }
}

impl AssociationInformation for InfoLog {
    fn task_start(&mut self, task_type: TaskType, fc: FunctionCode, seq: Sequence) {
        self.push(InfoEv::TaskStart(
            format!("{:?}", task_type),
            fc.as_u8(),
            seq.value(),
        ));
    }
    fn task_success(&mut self, task_type: TaskType, fc: FunctionCode, seq: Sequence) {
        self.push(InfoEv::TaskSuccess(
            format!("{:?}", task_type),
            fc.as_u8(),
            seq.value(),
        ));
    }
    fn task_fail(&mut self, task_type: TaskType, error: TaskError) {
        self.push(InfoEv::TaskFail(
            format!("{:?}", task_type),
            format!("{:?}", error),
        ));
    }
    fn unsolicited_response(&mut self, is_duplicate: bool, seq: Sequence) {
        self.push(InfoEv::Unsolicited(is_duplicate, seq.value()));
    }
}

/// master clock: (offset added to virtual ms since rig start) or None = no time available
#[derive(Clone)]
pub struct Clock {
    pub offset: Arc<Mutex<Option<u64>>>,
    pub start: tokio::time::Instant,
}

impl AssociationHandler for Clock {
    fn get_current_time(&self) -> Option<Timestamp> {
        let off = (*self.offset.lock().unwrap())?;
        let now = tokio::time::Instant::now()
            .duration_since(self.start)
            .as_millis() as u64;
        // a DNP3 time stamp holds 48 bits: beyond that the master has no representable time
        let v = off.checked_add(now)?;
        if v > 0x0000_FFFF_FFFF_FFFF {
            return None;
        }
        Some(Timestamp::new(v))
    }
}

pub struct Assoc {
    pub addr: u16,
    pub handle: AssociationHandle,
    pub read: RecHandler,
    pub info: InfoLog,
    pub clock: Clock,
    /// transport sequence number the harness uses when it plays this outstation
    pub tseq: u8,
}

/// a user request in flight: its textual outcome appears in `result` when the future resolves
#[derive(Clone)]
pub struct Pending {
    pub name: String,
    pub result: Arc<Mutex<Vec<(u64, String)>>>,
}

impl Pending {
    pub fn outcomes(&self) -> Vec<(u64, String)> {
        self.result.lock().unwrap().clone()
    }
}

#[derive(Clone, Debug, PartialEq)]
pub enum MTx {
    /// application fragment the master sent to link address `dst`
    Fragment {
        t: u64,
        dst: u16,
        bytes: Vec<u8>,
    },
    Link {
        t: u64,
        ctrl: u8,
        dst: u16,
        src: u16,
    },
    Garbage {
        t: u64,
        why: String,
    },
}

pub struct MasterRig {
    pub channel: MasterChannel,
    pub polls: Polls,
    pub assocs: BTreeMap<u16, Assoc>,
    peer: Option<VerifPeer>,
    conns: tokio::sync::mpsc::UnboundedSender<PhysLayer>,
    task: Option<tokio::task::JoinHandle<()>>,
    partial: Option<(u16, u8, Vec<u8>)>,
    pub start: tokio::time::Instant,
    pub task_failure: Option<Fail>,
    /// request fragments a helper drained while looking for something else: returned first by `take_requests`
    pub requeue: Vec<(u64, u16, Vec<u8>)>,
}

impl MasterRig {
    pub async fn start(discard: bool, decode: [u8; 4], tx_size: u16) -> MasterRig {
        super::init_tracing();
        let start = tokio::time::Instant::now();
        let mut cfg = MasterChannelConfig::new(EndpointAddress::raw(M_ADDR));
        cfg.decode_level = super::decode_level(decode[0], decode[1], decode[2], decode[3]);
        cfg.tx_buffer_size = BufferSize::new(tx_size.max(249) as usize).unwrap();
        let (tx, rx) = crate::util::channel::request_channel();
        let task = MasterTask::new(
            Enabled::Yes,
            LinkModes::stream(if discard {
                LinkErrorMode::Discard
            } else {
                LinkErrorMode::Close
            }),
            ParseOptions::default(),
            cfg,
            rx,
        );
        let channel = MasterChannel::new(tx, MasterChannelType::Stream);
        let (conns, mut conn_rx) = tokio::sync::mpsc::unbounded_channel::<PhysLayer>();
        let polls = Polls::default();
        let fut = Counted::new(
            async move {
                let mut session = Session::master(task);
                loop {
                    if session.wait_for_enabled().await.is_err() {
                        return;
                    }
                    // wait for the harness to "accept the connection", processing user messages meanwhile
                    let mut io = loop {
                        tokio::select! {
                            io = conn_rx.recv() => match io {
                                Some(io) => break io,
                                None => return,
                            },
                            r = session.process_next_message() => {
                                if let Err(StopReason::Shutdown) = r {
                                    return;
                                }
                            }
                        }
                    };
                    if let RunError::Stop(StopReason::Shutdown) = session.run(&mut io).await {
                        return;
                    }
                }
            },
            polls.clone(),
        );
        let task = tokio::spawn(fut);
        MasterRig {
            channel,
            polls,
            assocs: BTreeMap::new(),
            peer: None,
            conns,
            task: Some(task),
            partial: None,
            start,
            task_failure: None,
            requeue: vec![],
        }
    }

    pub fn now_ms(&self) -> u64 {
        tokio::time::Instant::now()
            .duration_since(self.start)
            .as_millis() as u64
    }

    pub async fn add_association(
        &mut self,
        addr: u16,
        config: AssociationConfig,
        clock_offset: Option<u64>,
    ) {
        let read = RecHandler::default();
        let info = InfoLog {
            log: Default::default(),
            start: Some(self.start),
        };
        let clock = Clock {
            offset: Arc::new(Mutex::new(clock_offset)),
            start: self.start,
        };
        let mut ch = self.channel.clone();
        let (r, i, c) = (read.clone(), info.clone(), clock.clone());
        let polls = self.polls.clone();
        let jh = tokio::spawn(Counted::new(
            async move {
                ch.add_association(
                    EndpointAddress::raw(addr),
                    config,
                    Box::new(r),
                    Box::new(c),
                    Box::new(i),
                )
                .await
            },
            polls,
        ));
        self.settle().await;
        let handle = jh
            .await
            .expect("add_association task")
            .expect("add_association");
        self.assocs.insert(
            addr,
            Assoc {
                addr,
                handle,
                read,
                info,
                clock,
                tseq: 0,
            },
        );
    }

    /// asks the channel for a second association with an address that is taken already; true = refused
    pub async fn add_duplicate_association(
        &mut self,
        addr: u16,
        config: AssociationConfig,
    ) -> bool {
        let clock = Clock {
            offset: Arc::new(Mutex::new(Some(0))),
            start: self.start,
        };
        let info = InfoLog {
            log: Default::default(),
            start: Some(self.start),
        };
        let mut ch = self.channel.clone();
        let polls = self.polls.clone();
        let jh = tokio::spawn(Counted::new(
            async move {
                ch.add_association(
                    EndpointAddress::raw(addr),
                    config,
                    Box::new(RecHandler::default()),
                    Box::new(clock),
                    Box::new(info),
                )
                .await
                .is_err()
            },
            polls,
        ));
        self.settle().await;
        jh.await.unwrap_or(true)
    }

    /// hand the master a new connection
    pub async fn connect(&mut self) {
        let (io, peer) = pipe(false);
        let _ = self.conns.send(PhysLayer::Verif(io));
        self.peer = Some(peer);
        self.partial = None;
        for a in self.assocs.values_mut() {
            a.tseq = 0;
        }
        self.settle().await;
    }

    pub async fn disconnect(&mut self) {
        self.peer = None;
        self.partial = None;
        self.settle().await;
    }

    pub fn connected(&self) -> bool {
        self.peer.is_some()
    }

    pub fn session_alive(&self) -> bool {
        self.peer
            .as_ref()
            .and_then(|p| p.to_lib.as_ref())
            .map(|tx| !tx.is_closed())
            .unwrap_or(false)
    }

    pub fn send_raw(&mut self, bytes: &[u8]) {
        if let Some(p) = &self.peer {
            p.send(bytes);
        }
    }

    /// frames carrying `fragment` from outstation `src` to link address `dst`
    pub fn frame_fragment(&mut self, src: u16, dst: u16, fragment: &[u8]) -> Vec<u8> {
        let tseq = self.assocs.get(&src).map(|a| a.tseq).unwrap_or(0);
        let (segs, next) = crate::verif::wire::transport::segment(src, fragment, tseq);
        if let Some(a) = self.assocs.get_mut(&src) {
            a.tseq = next;
        }
        let mut out = vec![];
        for s in segs {
            out.extend(rl::encode(0x44, dst, src, &s.payload()));
        }
        out
    }

    /// a response from outstation `src` to the master
    pub fn respond(&mut self, src: u16, f: &Fragment) {
        let b = self.frame_fragment(src, M_ADDR, &f.encode());
        self.send_raw(&b);
    }

    pub async fn settle(&mut self) {
        settle(&self.polls).await;
        self.check_task().await;
    }

    pub async fn advance(&mut self, ms: u64) {
        if ms > 0 {
            tokio::time::sleep(Duration::from_millis(ms)).await;
        }
        self.settle().await;
    }

    async fn check_task(&mut self) {
        if let Some(t) = &self.task {
            if t.is_finished() {
                let t = self.task.take().unwrap();
                match t.await {
                    Ok(()) => {
                        if self.task_failure.is_none() {
                            self.task_failure = Some(Fail::new(
                                "task-ended",
                                "the master task returned although it was never shut down",
                            ));
                        }
                    }
                    Err(e) => {
                        let text = engine::take_panic().unwrap_or_else(|| format!("panic@?: {e}"));
                        if self.task_failure.is_none() {
                            self.task_failure = Some(if text.contains("verif-spin") {
                                Fail::new("spin", text.clone())
                                    .with_sig("spin: master task busy-loops without time advancing")
                            } else {
                                engine::panic_fail(&text)
                            });
                        }
                    }
                }
            }
        }
    }

    /// decode everything the master wrote since the last call
    pub fn take_tx(&mut self) -> Vec<MTx> {
        let now = self.now_ms();
        let start = self.start;
        let mut out = vec![];
        let chunks = match &mut self.peer {
            Some(p) => p.drain_timed(),
            None => vec![],
        };
        for (at, c) in chunks {
            let t = at
                .map(|i| i.duration_since(start).as_millis() as u64)
                .unwrap_or(now);
            match rl::try_frame(&c) {
                rl::TryFrame::Ok(f, n) if n == c.len() => {
                    if f.payload.is_empty() {
                        out.push(MTx::Link {
                            t,
                            ctrl: f.ctrl,
                            dst: f.dst,
                            src: f.src,
                        });
                        continue;
                    }
                    if f.ctrl != 0xC4 || f.src != M_ADDR {
                        out.push(MTx::Garbage {
                            t,
                            why: format!(
                                "data frame with control {:#04x} source {}",
                                f.ctrl, f.src
                            ),
                        });
                        continue;
                    }
                    let seg = Segment::from_payload(f.src, &f.payload).unwrap();
                    match (&mut self.partial, seg.fir) {
                        (_, true) => {
                            if self.partial.is_some() {
                                out.push(MTx::Garbage {
                                    t,
                                    why: "FIR segment while a fragment was being assembled".into(),
                                });
                            }
                            self.partial = Some((f.dst, seg.seq, seg.data.clone()));
                        }
                        (None, false) => {
                            out.push(MTx::Garbage {
                                t,
                                why: "non-FIR segment with nothing to continue".into(),
                            });
                            continue;
                        }
                        (Some((dst, seq, acc)), false) => {
                            if *dst != f.dst || seg.seq != (*seq + 1) & 0x3F {
                                out.push(MTx::Garbage {
                                    t,
                                    why: "segment does not continue the previous one".into(),
                                });
                                self.partial = None;
                                continue;
                            }
                            *seq = seg.seq;
                            acc.extend_from_slice(&seg.data);
                        }
                    }
                    if seg.fin {
                        let (dst, _, bytes) = self.partial.take().unwrap();
                        out.push(MTx::Fragment { t, dst, bytes });
                    }
                }
                _ => out.push(MTx::Garbage {
                    t,
                    why: format!(
                        "a write of {} bytes is not exactly one valid link frame",
                        c.len()
                    ),
                }),
            }
        }
        out
    }

    /// the application fragments only: (time, destination, parsed)
    pub fn take_requests(&mut self) -> Vec<(u64, u16, Fragment)> {
        let mut out: Vec<(u64, u16, Fragment)> = std::mem::take(&mut self.requeue)
            .into_iter()
            .filter_map(|(t, dst, bytes)| Fragment::parse(&bytes).map(|f| (t, dst, f)))
            .collect();
        out.extend(self.take_tx().into_iter().filter_map(|t| match t {
            MTx::Fragment { t, dst, bytes } => Fragment::parse(&bytes).map(|f| (t, dst, f)),
            _ => None,
        }));
        out
    }

    /// run a user request in the background; its outcome text is recorded when it resolves
    pub fn submit<F, T>(&self, name: &str, fut: F) -> Pending
    where
        F: std::future::Future<Output = T> + Send + 'static,
        T: std::fmt::Debug + Send + 'static,
    {
        let p = Pending {
            name: name.to_string(),
            result: Default::default(),
        };
        let slot = p.result.clone();
        let start = self.start;
        let polls = self.polls.clone();
        tokio::spawn(Counted::new(
            async move {
                let r = fut.await;
                let t = tokio::time::Instant::now()
                    .duration_since(start)
                    .as_millis() as u64;
                slot.lock().unwrap().push((t, format!("{:?}", r)));
            },
            polls,
        ));
        p
    }
}

pub fn assoc_config(response_timeout_ms: u64) -> AssociationConfig {
    let mut c = AssociationConfig::quiet();
    c.response_timeout = Timeout::from_millis(response_timeout_ms.max(1)).unwrap();
    c.auto_tasks_retry_strategy =
        RetryStrategy::new(Duration::from_millis(100), Duration::from_millis(800));
    c
}
