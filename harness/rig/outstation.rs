//! OutstationRig: a real `OutstationTask` behind the real `ServerTask` loop over `PhysLayer::Verif`.
//! The harness plays the master on the wire with the reference codecs.
use super::{settle, Counted, Polls};
use crate::app::attr::Attribute;
use crate::app::control::CommandStatus;
use crate::app::measurement::*;
use crate::app::parse::options::ParseOptions;
use crate::app::variations::{Group12Var1, Group41Var1, Group41Var2, Group41Var3, Group41Var4};
use crate::app::{
    BufferSize, FunctionCode, MaybeAsync, NullListener, RequestHeader, Sequence, Timeout, Timestamp,
};
use crate::link::reader::LinkModes;
use crate::link::{EndpointAddress, LinkErrorMode};
use crate::outstation::database::*;
use crate::outstation::task::OutstationTask;
use crate::outstation::*;
use crate::tcp::server_task::{NewSession, ServerTask};
use crate::util::phys::{PhysAddr, PhysLayer};
use crate::util::session::{Enabled, Session};
use crate::verif::engine::{self, Fail};
use crate::verif::io::{pipe, VerifPeer};
use crate::verif::wire::app::Fragment;
use crate::verif::wire::link as rl;
use crate::verif::wire::transport::Segment;
use serde::{Deserialize, Serialize};
use std::sync::{Arc, Mutex};
use std::time::Duration;

pub const OUTSTATION_ADDR: u16 = 1024;
pub const MASTER_ADDR: u16 = 1;

#[derive(Clone, Debug, Serialize, Deserialize)]
pub struct OutConfig {
    pub discard: bool,
    pub sol_tx: u16,
    pub unsol_tx: u16,
    pub rx: u16,
    pub confirm_timeout_ms: u32,
    pub select_timeout_ms: u32,
    pub unsolicited: bool,
    pub broadcast: bool,
    pub self_address: bool,
    pub any_master: bool,
    pub max_unsol_retries: Option<u8>,
    pub unsol_retry_delay_ms: u32,
    /// overrides `unsol_retry_delay_ms` (values beyond 32 bits: the delay is a plain Duration)
    pub unsol_retry_delay_long_ms: Option<u64>,
    pub keep_alive_ms: Option<u32>,
    pub max_controls: Option<u16>,
    /// per type: binary, double, bos, counter, frozen counter, analog, aos, octet string
    pub event_buffer: [u16; 8],
    /// app, transport, link, phys decode levels
    pub decode: [u8; 4],
    pub class_zero_octet_strings: bool,
    pub max_read_headers: Option<u16>,
    /// Some(k): a datagram outstation whose configured remote endpoint is the socket address of peer k (10.0.0.k:20000)
    pub udp_remote: Option<u8>,
}

impl Default for OutConfig {
    fn default() -> Self {
        OutConfig {
            discard: false,
            sol_tx: 2048,
            unsol_tx: 2048,
            rx: 2048,
            confirm_timeout_ms: 5000,
            select_timeout_ms: 5000,
            unsolicited: false,
            broadcast: true,
            self_address: false,
            any_master: false,
            max_unsol_retries: None,
            unsol_retry_delay_ms: 5000,
            unsol_retry_delay_long_ms: None,
            keep_alive_ms: None,
            max_controls: None,
            udp_remote: None,
            event_buffer: [10; 8],
            decode: [0; 4],
            class_zero_octet_strings: false,
            max_read_headers: None,
        }
    }
}

fn feature(b: bool) -> Feature {
    if b {
        Feature::Enabled
    } else {
        Feature::Disabled
    }
}

impl OutConfig {
    pub fn to_lib(&self) -> OutstationConfig {
        let eb = &self.event_buffer;
        let mut c = OutstationConfig::new(
            EndpointAddress::raw(OUTSTATION_ADDR),
            EndpointAddress::raw(MASTER_ADDR),
            EventBufferConfig::new(eb[0], eb[1], eb[2], eb[3], eb[4], eb[5], eb[6], eb[7]),
        );
        c.solicited_buffer_size = BufferSize::new(self.sol_tx.max(249) as usize).unwrap();
        c.unsolicited_buffer_size = BufferSize::new(self.unsol_tx.max(249) as usize).unwrap();
        c.rx_buffer_size = BufferSize::new(self.rx.max(249) as usize).unwrap();
        c.decode_level = super::decode_level(
            self.decode[0],
            self.decode[1],
            self.decode[2],
            self.decode[3],
        );
        c.confirm_timeout =
            Timeout::from_duration(Duration::from_millis(self.confirm_timeout_ms.max(1) as u64))
                .unwrap();
        c.select_timeout =
            Timeout::from_duration(Duration::from_millis(self.select_timeout_ms.max(1) as u64))
                .unwrap();
        c.features = Features {
            self_address: feature(self.self_address),
            broadcast: feature(self.broadcast),
            unsolicited: feature(self.unsolicited),
            respond_to_any_master: feature(self.any_master),
        };
        c.max_unsolicited_retries = self.max_unsol_retries.map(|x| x as usize);
        c.unsolicited_retry_delay = Duration::from_millis(
            self.unsol_retry_delay_long_ms
                .unwrap_or(self.unsol_retry_delay_ms as u64),
        );
        c.keep_alive_timeout = self.keep_alive_ms.map(|x| Duration::from_millis(x as u64));
        c.max_controls_per_request = self.max_controls;
        c.max_read_request_headers = self.max_read_headers;
        let mut cz = ClassZeroConfig::default();
        cz.octet_string = self.class_zero_octet_strings;
        c.class_zero = cz;
        c
    }
}

// ---------------------------------------------------------------------------------------------
// recording application / information / control handler

#[derive(Clone, Debug, PartialEq)]
pub enum Cb {
    BeginConfirm,
    EventCleared(u64),
    EndConfirm(BufferState),
    WriteAbsoluteTime(u64),
    ColdRestart,
    WarmRestart,
    Freeze(String),
    BeginDeadBands,
    DeadBand(u16, f64),
    EndDeadBands,
    WriteAttr(u8),
    // information
    RequestFromIdle(u8, u8),
    Broadcast(String, String),
    EnterSolConfirmWait(u8),
    SolConfirmTimeout(u8),
    SolConfirmReceived(u8),
    SolConfirmWaitNewRequest,
    WrongSolConfirmSeq(u8, u8),
    UnexpectedConfirm(bool, u8),
    EnterUnsolConfirmWait(u8),
    UnsolConfirmTimeout(u8, bool),
    UnsolConfirmed(u8),
    ClearRestartIin,
    // controls
    ControlBegin,
    ControlEnd,
    /// (description of the control object, index)
    Select(String, u16),
    /// (description, index, operate type)
    Operate(String, u16, String),
    /// a successful operation mirrored into an output status point: (type 2 = binary output status / 6 = analog output status, index, value, time stamp, result)
    Mirror(u8, u16, f64, u64, UpdateInfo),
}

#[derive(Clone, Debug)]
pub struct AppBehaviour {
    pub iin: ApplicationIin,
    pub processing_delay_ms: u16,
    pub cold_restart: Option<RestartDelay>,
    pub warm_restart: Option<RestartDelay>,
    pub write_time: Result<(), RequestError>,
    pub freeze: Result<(), RequestError>,
    pub dead_bands: bool,
    /// command status returned for index i = statuses[i % len] (raw status code)
    pub control_status: Vec<u8>,
    /// the control handler mirrors successful operations into binary/analog output status points
    pub mirror_controls: bool,
    /// a successful write_absolute_time clears the application's NEED_TIME indication
    pub clear_need_time_on_write: bool,
}

impl Default for AppBehaviour {
    fn default() -> Self {
        AppBehaviour {
            iin: ApplicationIin::default(),
            processing_delay_ms: 0,
            cold_restart: None,
            warm_restart: None,
            write_time: Ok(()),
            freeze: Ok(()),
            dead_bands: true,
            control_status: vec![0],
            mirror_controls: false,
            clear_need_time_on_write: false,
        }
    }
}

#[derive(Default)]
pub struct CbLog {
    pub log: Vec<(u64, Cb)>,
}

#[derive(Clone)]
pub struct Shared {
    pub rec: Arc<Mutex<CbLog>>,
    pub beh: Arc<Mutex<AppBehaviour>>,
    pub start: tokio::time::Instant,
    pub serial: Arc<std::sync::atomic::AtomicU64>,
}

impl Shared {
    pub fn new(beh: AppBehaviour, start: tokio::time::Instant) -> Self {
        Shared {
            rec: Arc::new(Mutex::new(CbLog::default())),
            beh: Arc::new(Mutex::new(beh)),
            start,
            serial: Default::default(),
        }
    }
}

impl Shared {
    fn push(&self, cb: Cb) {
        let t = tokio::time::Instant::now()
            .duration_since(self.start)
            .as_millis() as u64;
        self.rec.lock().unwrap().log.push((t, cb));
    }
    pub fn take_log(&self) -> Vec<(u64, Cb)> {
        std::mem::take(&mut self.rec.lock().unwrap().log)
    }
    fn status(&self, index: u16) -> CommandStatus {
        let b = self.beh.lock().unwrap();
        let n = b.control_status.len().max(1);
        CommandStatus::from(
            b.control_status
                .get(index as usize % n)
                .copied()
                .unwrap_or(0),
        )
    }
}

struct App(Shared);

impl OutstationApplication for App {
    fn get_processing_delay_ms(&self) -> u16 {
        self.0.beh.lock().unwrap().processing_delay_ms
    }
    fn write_absolute_time(&mut self, time: Timestamp) -> Result<(), RequestError> {
        self.0.push(Cb::WriteAbsoluteTime(time.raw_value()));
        let mut b = self.0.beh.lock().unwrap();
        if b.write_time.is_ok() && b.clear_need_time_on_write {
            b.iin.need_time = false;
        }
        b.write_time
    }
    fn get_application_iin(&self) -> ApplicationIin {
        self.0.beh.lock().unwrap().iin
    }
    fn cold_restart(&mut self) -> Option<RestartDelay> {
        self.0.push(Cb::ColdRestart);
        self.0.beh.lock().unwrap().cold_restart
    }
    fn warm_restart(&mut self) -> Option<RestartDelay> {
        self.0.push(Cb::WarmRestart);
        self.0.beh.lock().unwrap().warm_restart
    }
    fn freeze_counter(
        &mut self,
        indices: FreezeIndices,
        freeze_type: FreezeType,
        _database: &mut DatabaseHandle,
    ) -> Result<(), RequestError> {
        self.0
            .push(Cb::Freeze(format!("{:?} {:?}", indices, freeze_type)));
        self.0.beh.lock().unwrap().freeze
    }
    fn support_write_analog_dead_bands(&mut self) -> bool {
        self.0.beh.lock().unwrap().dead_bands
    }
    fn begin_write_analog_dead_bands(&mut self) {
        self.0.push(Cb::BeginDeadBands);
    }
    fn write_analog_dead_band(&mut self, index: u16, dead_band: f64) {
        self.0.push(Cb::DeadBand(index, dead_band));
    }
    fn end_write_analog_dead_bands(&mut self) -> MaybeAsync<()> {
        self.0.push(Cb::EndDeadBands);
        MaybeAsync::ready(())
    }
    fn write_device_attr(&mut self, attr: Attribute) -> MaybeAsync<bool> {
        self.0.push(Cb::WriteAttr(attr.variation));
        MaybeAsync::ready(true)
    }
    fn begin_confirm(&mut self) {
        self.0.push(Cb::BeginConfirm);
    }
    fn event_cleared(&mut self, id: u64) {
        self.0.push(Cb::EventCleared(id));
    }
    fn end_confirm(&mut self, state: BufferState) -> MaybeAsync<()> {
        self.0.push(Cb::EndConfirm(state));
        MaybeAsync::ready(())
    }
}

struct Info(Shared);

impl OutstationInformation for Info {
    fn process_request_from_idle(&mut self, header: RequestHeader) {
        self.0.push(Cb::RequestFromIdle(
            header.function.as_u8(),
            header.control.seq.value(),
        ));
    }
    fn broadcast_received(&mut self, function: FunctionCode, action: BroadcastAction) {
        self.0.push(Cb::Broadcast(
            format!("{:?}", function),
            format!("{:?}", action),
        ));
    }
    fn enter_solicited_confirm_wait(&mut self, ecsn: Sequence) {
        self.0.push(Cb::EnterSolConfirmWait(ecsn.value()));
    }
    fn solicited_confirm_timeout(&mut self, ecsn: Sequence) {
        self.0.push(Cb::SolConfirmTimeout(ecsn.value()));
    }
    fn solicited_confirm_received(&mut self, ecsn: Sequence) {
        self.0.push(Cb::SolConfirmReceived(ecsn.value()));
    }
    fn solicited_confirm_wait_new_request(&mut self) {
        self.0.push(Cb::SolConfirmWaitNewRequest);
    }
    fn wrong_solicited_confirm_seq(&mut self, ecsn: Sequence, seq: Sequence) {
        self.0
            .push(Cb::WrongSolConfirmSeq(ecsn.value(), seq.value()));
    }
    fn unexpected_confirm(&mut self, unsolicited: bool, seq: Sequence) {
        self.0.push(Cb::UnexpectedConfirm(unsolicited, seq.value()));
    }
    fn enter_unsolicited_confirm_wait(&mut self, ecsn: Sequence) {
        self.0.push(Cb::EnterUnsolConfirmWait(ecsn.value()));
    }
    fn unsolicited_confirm_timeout(&mut self, ecsn: Sequence, retry: bool) {
        self.0.push(Cb::UnsolConfirmTimeout(ecsn.value(), retry));
    }
    fn unsolicited_confirmed(&mut self, ecsn: Sequence) {
        self.0.push(Cb::UnsolConfirmed(ecsn.value()));
    }
    fn clear_restart_iin(&mut self) {
        self.0.push(Cb::ClearRestartIin);
    }
}

struct Controls(Shared);

impl ControlHandler for Controls {
    fn begin_fragment(&mut self) {
        self.0.push(Cb::ControlBegin);
    }
    fn end_fragment(&mut self, _database: &mut DatabaseHandle) -> MaybeAsync<()> {
        self.0.push(Cb::ControlEnd);
        MaybeAsync::ready(())
    }
}

macro_rules! control_support {
    ($t:ty, $mirror:expr) => {
        impl ControlSupport<$t> for Controls {
            fn select(
                &mut self,
                control: $t,
                index: u16,
                _database: &mut DatabaseHandle,
            ) -> CommandStatus {
                self.0.push(Cb::Select(format!("{:?}", control), index));
                self.0.status(index)
            }
            fn operate(
                &mut self,
                control: $t,
                index: u16,
                op_type: OperateType,
                database: &mut DatabaseHandle,
            ) -> CommandStatus {
                self.0.push(Cb::Operate(
                    format!("{:?}", control),
                    index,
                    format!("{:?}", op_type),
                ));
                let status = self.0.status(index);
                if status == CommandStatus::Success && self.0.beh.lock().unwrap().mirror_controls {
                    let f: fn(&$t) -> (u8, f64) = $mirror;
                    let (ty, v) = f(&control);
                    // a unique, increasing time stamp per mirrored operation
                    let serial = self
                        .0
                        .serial
                        .fetch_add(1, std::sync::atomic::Ordering::Relaxed);
                    let time = Time::Synchronized(Timestamp::new(2_000_000 + serial));
                    let info = database.transaction(|db| {
                        if ty == 2 {
                            db.update2(
                                index,
                                &BinaryOutputStatus::new(v != 0.0, Flags::ONLINE, time),
                                UpdateOptions::detect_event(),
                            )
                        } else {
                            db.update2(
                                index,
                                &AnalogOutputStatus::new(v, Flags::ONLINE, time),
                                UpdateOptions::detect_event(),
                            )
                        }
                    });
                    self.0
                        .push(Cb::Mirror(ty, index, v, 2_000_000 + serial, info));
                }
                status
            }
        }
    };
}

control_support!(Group12Var1, |c| {
    let on = matches!(
        c.code.op_type,
        crate::app::control::OpType::LatchOn | crate::app::control::OpType::PulseOn
    );
    (2, if on { 1.0 } else { 0.0 })
});
control_support!(Group41Var1, |c| (6, c.value as f64));
control_support!(Group41Var2, |c| (6, c.value as f64));
control_support!(Group41Var3, |c| (6, c.value as f64));
control_support!(Group41Var4, |c| (6, c.value));

/// the recording callback objects, for rigs that build their own sessions
pub fn callbacks(
    shared: &Shared,
) -> (
    Box<dyn OutstationApplication>,
    Box<dyn OutstationInformation>,
    Box<dyn ControlHandler>,
) {
    (
        Box::new(App(shared.clone())),
        Box::new(Info(shared.clone())),
        Box::new(Controls(shared.clone())),
    )
}

// ---------------------------------------------------------------------------------------------
// wire-side view of what the outstation transmitted

#[derive(Clone, Debug, PartialEq)]
pub enum Tx {
    /// a complete application fragment (reassembled by the reference transport function), sent to link address `dst`
    Fragment { t: u64, dst: u16, bytes: Vec<u8> },
    /// a link-layer frame that carries no user data (ACK, LINK_STATUS, REQUEST_LINK_STATUS, ...)
    Link {
        t: u64,
        ctrl: u8,
        dst: u16,
        src: u16,
    },
    /// bytes that are not a valid link frame, or a broken segment series
    Garbage { t: u64, why: String },
}

pub struct OutRig {
    pub cfg: OutConfig,
    pub shared: Shared,
    pub handle: OutstationHandle,
    pub polls: Polls,
    peer: Option<VerifPeer>,
    sessions: crate::util::channel::Sender<NewSession>,
    task: Option<tokio::task::JoinHandle<()>>,
    session_id: u64,
    /// the raw writes seen by the most recent `take_tx`, each with the peer number of its destination socket address
    pub last_writes: Vec<(Vec<u8>, Option<u8>)>,
    /// transport sequence number used by the harness when it plays the master
    pub tseq: u8,
    partial: Option<(u16, u8, Vec<u8>)>,
    pub start: tokio::time::Instant,
    pub task_failure: Option<Fail>,
}

impl OutRig {
    /// must be called inside a rig runtime (`rig::runtime()`); connects the first session
    pub async fn start(cfg: OutConfig, beh: AppBehaviour) -> OutRig {
        super::init_tracing();
        let start = tokio::time::Instant::now();
        let shared = Shared::new(beh, start);
        let modes = LinkModes::stream(if cfg.discard {
            LinkErrorMode::Discard
        } else {
            LinkErrorMode::Close
        });
        let (task, handle) = OutstationTask::create(
            Enabled::Yes,
            modes,
            ParseOptions::default(),
            cfg.to_lib(),
            match cfg.udp_remote {
                Some(k) => PhysAddr::Udp(std::net::SocketAddr::from(([10, 0, 0, k], 20000))),
                None => PhysAddr::None,
            },
            Box::new(App(shared.clone())),
            Box::new(Info(shared.clone())),
            Box::new(Controls(shared.clone())),
        );
        let (mut server, sessions) =
            ServerTask::create(Session::outstation(task), NullListener::create());
        let polls = Polls::default();
        let fut = Counted::new(
            async move {
                let _ = server.run().await;
            },
            polls.clone(),
        );
        let task = tokio::spawn(fut);
        let mut rig = OutRig {
            cfg,
            shared,
            handle,
            polls,
            peer: None,
            sessions,
            task: Some(task),
            session_id: 0,
            tseq: 0,
            partial: None,
            start,
            task_failure: None,
            last_writes: vec![],
        };
        rig.connect().await;
        rig
    }

    pub fn now_ms(&self) -> u64 {
        tokio::time::Instant::now()
            .duration_since(self.start)
            .as_millis() as u64
    }

    /// hand the server loop a new connection (the previous one, if any, is replaced)
    pub async fn connect(&mut self) {
        let (io, peer) = pipe(false);
        self.session_id += 1;
        let _ = self
            .sessions
            .send(NewSession::new(self.session_id, PhysLayer::Verif(io)))
            .await;
        self.peer = Some(peer);
        self.tseq = 0;
        self.partial = None;
        self.settle().await;
    }

    /// drop the connection: the outstation reads EOF
    pub async fn disconnect(&mut self) {
        self.peer = None;
        self.partial = None;
        self.settle().await;
    }

    pub fn connected(&self) -> bool {
        self.peer.is_some()
    }

    pub fn send_raw(&mut self, bytes: &[u8]) {
        if let Some(p) = &self.peer {
            p.send(bytes);
        }
    }

    /// link frames (unconfirmed user data, master -> `dst`) carrying `fragment`, segmented by the reference
    /// bytes that arrive from the socket address of peer k
    pub fn send_raw_from(&mut self, bytes: &[u8], peer: u8) {
        if let Some(p) = &self.peer {
            p.send_from(bytes, peer);
        }
    }

    pub fn frame_fragment(&mut self, src: u16, dst: u16, fragment: &[u8]) -> Vec<u8> {
        let (segs, next) = crate::verif::wire::transport::segment(src, fragment, self.tseq);
        self.tseq = next;
        let mut out = vec![];
        for s in segs {
            out.extend(rl::encode(0xC4, dst, src, &s.payload()));
        }
        out
    }

    /// send one application fragment from the configured master to the outstation
    pub fn send_fragment(&mut self, fragment: &[u8]) {
        let b = self.frame_fragment(MASTER_ADDR, OUTSTATION_ADDR, fragment);
        self.send_raw(&b);
    }

    pub fn send(&mut self, f: &Fragment) {
        self.send_fragment(&f.encode());
    }

    pub async fn settle(&mut self) {
        settle(&self.polls).await;
        self.check_task().await;
    }

    /// advance virtual time by `ms` (everything due in between runs at its own instant), then settle
    pub async fn advance(&mut self, ms: u64) {
        if ms > 0 {
            tokio::time::sleep(Duration::from_millis(ms)).await;
        }
        self.settle().await;
    }

    async fn check_task(&mut self) {
        if let Some(t) = &self.task {
            if t.is_finished() {
                let t = self.task.take().unwrap();
                match t.await {
                    Ok(()) => {
                        if self.task_failure.is_none() {
                            self.task_failure = Some(Fail::new("task-ended", "the outstation server task returned although it was never shut down"));
                        }
                    }
                    Err(e) => {
                        let text = engine::take_panic().unwrap_or_else(|| format!("panic@?: {e}"));
                        if self.task_failure.is_none() {
                            self.task_failure = Some(if text.contains("verif-spin") {
                                Fail::new("spin", text.clone()).with_sig(
                                    "spin: outstation task busy-loops without time advancing",
                                )
                            } else {
                                engine::panic_fail(&text)
                            });
                        }
                    }
                }
            }
        }
    }

    pub fn alive(&self) -> bool {
        self.task.is_some()
    }

    /// decode everything the outstation wrote since the last call
    pub fn take_tx(&mut self) -> Vec<Tx> {
        let now = self.now_ms();
        let start = self.start;
        let mut out = vec![];
        let chunks = match &mut self.peer {
            Some(p) => p.drain_timed(),
            None => vec![],
        };
        let dests: Vec<Option<std::net::SocketAddr>> = match &self.peer {
            Some(p) => std::mem::take(&mut *p.write_to.lock().unwrap()),
            None => vec![],
        };
        self.last_writes = chunks
            .iter()
            .enumerate()
            .map(|(i, (_, c))| {
                let peer = dests.get(i).cloned().flatten().and_then(|a| match a.ip() {
                    std::net::IpAddr::V4(v4) => Some(v4.octets()[3]),
                    _ => None,
                });
                (c.clone(), peer)
            })
            .collect();
        for (at, c) in chunks {
            // exact virtual time of the write
            let t = at
                .map(|i| i.duration_since(start).as_millis() as u64)
                .unwrap_or(now);
            match rl::try_frame(&c) {
                rl::TryFrame::Ok(f, n) if n == c.len() => {
                    if f.payload.is_empty() {
                        out.push(Tx::Link {
                            t,
                            ctrl: f.ctrl,
                            dst: f.dst,
                            src: f.src,
                        });
                        continue;
                    }
                    if f.ctrl != 0x44 {
                        out.push(Tx::Garbage {
                            t,
                            why: format!("data frame with control {:#04x}", f.ctrl),
                        });
                        continue;
                    }
                    let seg = Segment::from_payload(f.src, &f.payload).unwrap();
                    match (&mut self.partial, seg.fir) {
                        (None, true) | (Some(_), true) => {
                            if self.partial.is_some() {
                                out.push(Tx::Garbage {
                                    t,
                                    why: "FIR segment while a fragment was being assembled".into(),
                                });
                            }
                            self.partial = Some((f.dst, seg.seq, seg.data.clone()));
                        }
                        (None, false) => {
                            out.push(Tx::Garbage {
                                t,
                                why: "non-FIR segment with nothing to continue".into(),
                            });
                            continue;
                        }
                        (Some((dst, seq, acc)), false) => {
                            if *dst != f.dst || seg.seq != (*seq + 1) & 0x3F {
                                out.push(Tx::Garbage {
                                    t,
                                    why: "segment does not continue the previous one".into(),
                                });
                                self.partial = None;
                                continue;
                            }
                            *seq = seg.seq;
                            acc.extend_from_slice(&seg.data);
                        }
                    }
                    if seg.fin {
                        let (dst, _, bytes) = self.partial.take().unwrap();
                        out.push(Tx::Fragment { t, dst, bytes });
                    }
                }
                _ => out.push(Tx::Garbage {
                    t,
                    why: format!(
                        "a write of {} bytes is not exactly one valid link frame",
                        c.len()
                    ),
                }),
            }
        }
        out
    }

    /// only the application fragments, parsed
    pub fn take_fragments(&mut self) -> Vec<Fragment> {
        self.take_tx()
            .into_iter()
            .filter_map(|t| match t {
                Tx::Fragment { bytes, .. } => Fragment::parse(&bytes),
                _ => None,
            })
            .collect()
    }

    pub fn db<R>(&self, f: impl FnMut(&mut Database) -> R) -> R {
        self.handle.transaction(f)
    }
}
