//! recording ReadHandler: drains every iterator it is handed
use crate::app::attr::AnyAttribute;
use crate::app::measurement::*;
use crate::app::{MaybeAsync, ResponseHeader, Timestamp};
use crate::master::{HeaderInfo, ReadHandler, ReadType};
use std::sync::{Arc, Mutex};

#[derive(Clone, Debug, PartialEq)]
pub struct Item {
    pub index: u16,
    /// bool as 0/1, double-bit 0..=3, counters, analogs
    pub value: f64,
    pub bytes: Vec<u8>,
    pub flags: u8,
    /// (ms, synchronized)
    pub time: Option<(u64, bool)>,
}

#[derive(Clone, Debug, PartialEq)]
pub enum HEv {
    Begin(String, u8, bool),
    End(String, u8),
    /// type code (0..=7 as in props::ost, 8 frozen analog, 9 other), (group, variation), is_event, has_flags, items
    Meas(u8, (u8, u8), bool, bool, Vec<Item>),
    Other(String, usize),
}

#[derive(Clone, Default)]
pub struct RecHandler {
    pub log: Arc<Mutex<Vec<HEv>>>,
}

impl RecHandler {
    pub fn take(&self) -> Vec<HEv> {
        std::mem::take(&mut self.log.lock().unwrap())
    }
    fn push(&self, e: HEv) {
        self.log.lock().unwrap().push(e);
    }
}

fn t(x: Option<Time>) -> Option<(u64, bool)> {
    x.map(|t| match t {
        Time::Synchronized(ts) => (ts.raw_value(), true),
        Time::Unsynchronized(ts) => (ts.raw_value(), false),
    })
}

fn dbl(d: DoubleBit) -> f64 {
    match d {
        DoubleBit::Intermediate => 0.0,
        DoubleBit::DeterminedOff => 1.0,
        DoubleBit::DeterminedOn => 2.0,
        DoubleBit::Indeterminate => 3.0,
    }
}

impl ReadHandler for RecHandler {
    fn begin_fragment(&mut self, read_type: ReadType, header: ResponseHeader) -> MaybeAsync<()> {
        self.push(HEv::Begin(
            format!("{:?}", read_type),
            header.control.seq.value(),
            header.function.is_unsolicited(),
        ));
        MaybeAsync::ready(())
    }
    fn end_fragment(&mut self, read_type: ReadType, header: ResponseHeader) -> MaybeAsync<()> {
        self.push(HEv::End(
            format!("{:?}", read_type),
            header.control.seq.value(),
        ));
        MaybeAsync::ready(())
    }
    fn handle_binary_input(
        &mut self,
        info: HeaderInfo,
        iter: &mut dyn Iterator<Item = (BinaryInput, u16)>,
    ) {
        let items = iter
            .map(|(v, i)| Item {
                index: i,
                value: v.value as u8 as f64,
                bytes: vec![],
                flags: v.flags.value,
                time: t(v.time),
            })
            .collect();
        self.push(HEv::Meas(
            0,
            info.variation.to_group_and_var(),
            info.is_event,
            info.has_flags,
            items,
        ));
    }
    fn handle_double_bit_binary_input(
        &mut self,
        info: HeaderInfo,
        iter: &mut dyn Iterator<Item = (DoubleBitBinaryInput, u16)>,
    ) {
        let items = iter
            .map(|(v, i)| Item {
                index: i,
                value: dbl(v.value),
                bytes: vec![],
                flags: v.flags.value,
                time: t(v.time),
            })
            .collect();
        self.push(HEv::Meas(
            1,
            info.variation.to_group_and_var(),
            info.is_event,
            info.has_flags,
            items,
        ));
    }
    fn handle_binary_output_status(
        &mut self,
        info: HeaderInfo,
        iter: &mut dyn Iterator<Item = (BinaryOutputStatus, u16)>,
    ) {
        let items = iter
            .map(|(v, i)| Item {
                index: i,
                value: v.value as u8 as f64,
                bytes: vec![],
                flags: v.flags.value,
                time: t(v.time),
            })
            .collect();
        self.push(HEv::Meas(
            2,
            info.variation.to_group_and_var(),
            info.is_event,
            info.has_flags,
            items,
        ));
    }
    fn handle_counter(&mut self, info: HeaderInfo, iter: &mut dyn Iterator<Item = (Counter, u16)>) {
        let items = iter
            .map(|(v, i)| Item {
                index: i,
                value: v.value as f64,
                bytes: vec![],
                flags: v.flags.value,
                time: t(v.time),
            })
            .collect();
        self.push(HEv::Meas(
            3,
            info.variation.to_group_and_var(),
            info.is_event,
            info.has_flags,
            items,
        ));
    }
    fn handle_frozen_counter(
        &mut self,
        info: HeaderInfo,
        iter: &mut dyn Iterator<Item = (FrozenCounter, u16)>,
    ) {
        let items = iter
            .map(|(v, i)| Item {
                index: i,
                value: v.value as f64,
                bytes: vec![],
                flags: v.flags.value,
                time: t(v.time),
            })
            .collect();
        self.push(HEv::Meas(
            4,
            info.variation.to_group_and_var(),
            info.is_event,
            info.has_flags,
            items,
        ));
    }
    fn handle_analog_input(
        &mut self,
        info: HeaderInfo,
        iter: &mut dyn Iterator<Item = (AnalogInput, u16)>,
    ) {
        let items = iter
            .map(|(v, i)| Item {
                index: i,
                value: v.value,
                bytes: vec![],
                flags: v.flags.value,
                time: t(v.time),
            })
            .collect();
        self.push(HEv::Meas(
            5,
            info.variation.to_group_and_var(),
            info.is_event,
            info.has_flags,
            items,
        ));
    }
    fn handle_frozen_analog_input(
        &mut self,
        info: HeaderInfo,
        iter: &mut dyn Iterator<Item = (FrozenAnalogInput, u16)>,
    ) {
        let items = iter
            .map(|(v, i)| Item {
                index: i,
                value: v.value,
                bytes: vec![],
                flags: v.flags.value,
                time: t(v.time),
            })
            .collect();
        self.push(HEv::Meas(
            8,
            info.variation.to_group_and_var(),
            info.is_event,
            info.has_flags,
            items,
        ));
    }
    fn handle_analog_input_dead_band(
        &mut self,
        info: HeaderInfo,
        iter: &mut dyn Iterator<Item = (AnalogInputDeadBand, u16)>,
    ) {
        let n = iter.count();
        self.push(HEv::Other(format!("{:?}", info.variation), n));
    }
    fn handle_analog_output_status(
        &mut self,
        info: HeaderInfo,
        iter: &mut dyn Iterator<Item = (AnalogOutputStatus, u16)>,
    ) {
        let items = iter
            .map(|(v, i)| Item {
                index: i,
                value: v.value,
                bytes: vec![],
                flags: v.flags.value,
                time: t(v.time),
            })
            .collect();
        self.push(HEv::Meas(
            6,
            info.variation.to_group_and_var(),
            info.is_event,
            info.has_flags,
            items,
        ));
    }
    fn handle_analog_output_command_event(
        &mut self,
        info: HeaderInfo,
        iter: &mut dyn Iterator<Item = (AnalogOutputCommandEvent, u16)>,
    ) {
        let n = iter.count();
        self.push(HEv::Other(format!("{:?}", info.variation), n));
    }
    fn handle_binary_output_command_event(
        &mut self,
        info: HeaderInfo,
        iter: &mut dyn Iterator<Item = (BinaryOutputCommandEvent, u16)>,
    ) {
        let n = iter.count();
        self.push(HEv::Other(format!("{:?}", info.variation), n));
    }
    fn handle_unsigned_integer(
        &mut self,
        info: HeaderInfo,
        iter: &mut dyn Iterator<Item = (UnsignedInteger, u16)>,
    ) {
        let n = iter.count();
        self.push(HEv::Other(format!("{:?}", info.variation), n));
    }
    fn handle_octet_string<'a>(
        &mut self,
        info: HeaderInfo,
        iter: &'a mut dyn Iterator<Item = (&'a [u8], u16)>,
    ) {
        let items = iter
            .map(|(v, i)| Item {
                index: i,
                value: 0.0,
                bytes: v.to_vec(),
                flags: 0,
                time: None,
            })
            .collect();
        self.push(HEv::Meas(
            7,
            info.variation.to_group_and_var(),
            info.is_event,
            info.has_flags,
            items,
        ));
    }
    fn handle_device_attribute(&mut self, info: HeaderInfo, _attr: AnyAttribute) {
        self.push(HEv::Other(format!("{:?}", info.variation), 1));
    }
    fn handle_abs_time(&mut self, info: HeaderInfo, _time: Timestamp) {
        self.push(HEv::Other(format!("{:?}", info.variation), 1));
    }
}
