//! minimal executor for futures that never really wait (all input queued up-front)
use std::future::Future;
use std::pin::Pin;
use std::sync::Arc;
use std::task::{Context, Poll, Wake, Waker};

struct Noop;
impl Wake for Noop {
    fn wake(self: Arc<Self>) {}
}

/// poll `fut` to completion; every await inside must be immediately ready (or become ready without a wake)
pub fn block_on_ready<F: Future>(fut: F) -> F::Output {
    let waker = Waker::from(Arc::new(Noop));
    let mut cx = Context::from_waker(&waker);
    let mut fut = Box::pin(fut);
    for _ in 0..1_000_000 {
        if let Poll::Ready(x) = fut.as_mut().poll(&mut cx) {
            return x;
        }
    }
    panic!("verif/harness: block_on_ready: future stayed pending");
}

/// poll `fut` a few times; None = it is waiting for input that is not there (the future is dropped)
pub fn poll_once<F: Future>(fut: F) -> Option<F::Output> {
    let waker = Waker::from(Arc::new(Noop));
    let mut cx = Context::from_waker(&waker);
    let mut fut = Box::pin(fut);
    for _ in 0..4 {
        if let Poll::Ready(x) = fut.as_mut().poll(&mut cx) {
            return Some(x);
        }
    }
    None
}
