//! PairRig: a real `MasterTask` and a real `OutstationTask` (behind the real `ServerTask` loop), each with its real
//! link layer and transport, joined by an in-memory proxy task that can delay (per direction, virtual time),
//! re-chunk, truncate at byte k and cut connections. Single-threaded, paused clock: fully deterministic.
use super::handler::RecHandler;
use super::master::{Clock, InfoLog};
use super::outstation::{callbacks, AppBehaviour, OutConfig, Shared, MASTER_ADDR, OUTSTATION_ADDR};
use super::{settle, Counted, Polls};
use crate::app::parse::options::ParseOptions;
use crate::app::{BufferSize, NullListener};
use crate::link::reader::LinkModes;
use crate::link::{EndpointAddress, LinkErrorMode};
use crate::master::task::MasterTask;
use crate::master::*;
use crate::outstation::task::OutstationTask;
use crate::outstation::OutstationHandle;
use crate::tcp::server_task::{NewSession, ServerTask};
use crate::util::phys::{PhysAddr, PhysLayer};
use crate::util::session::{Enabled, RunError, Session, StopReason};
use crate::verif::engine::{self, Fail};
use crate::verif::io::{pipe, VerifPeer};
use std::collections::VecDeque;
use std::sync::{Arc, Mutex};
use std::time::Duration;

/// direction 0 = master -> outstation, 1 = outstation -> master
#[derive(Default)]
pub struct ProxyCtl {
    pub delay_ms: [u64; 2],
    /// sizes of the pieces each forwarded write is cut into (cycled); empty = forward writes unchanged
    pub chunking: [Vec<u16>; 2],
    /// forward only this many more bytes in the direction, then cut the connection
    pub cut_after: [Option<usize>; 2],
    /// cut now
    pub cut: bool,
    /// the master's side is closed, the outstation's side stays open and silent (half-open connection)
    pub half_open: bool,
    /// everything forwarded: (virtual ms, direction, bytes as delivered)
    pub log: Vec<(u64, u8, Vec<u8>)>,
    /// per direction: delays (ms) for the next writes, consumed one per write; when empty `delay_ms` applies
    pub delay_plan: [VecDeque<u64>; 2],
    /// every write of either endpoint: (ms written, ms delivered or u64::MAX, direction, bytes)
    pub writes: Vec<(u64, u64, u8, Vec<u8>)>,
    /// bytes the harness wants delivered now: (direction, bytes)
    pub inject: Vec<(u8, Vec<u8>)>,
    pub bytes: [usize; 2],
    /// set by the proxy when the connection has ended
    pub closed: bool,
    /// true if a cut truncated a write (mid-frame cut)
    pub truncated: bool,
}

async fn proxy(
    mut m: VerifPeer,
    mut o: VerifPeer,
    ctl: Arc<Mutex<ProxyCtl>>,
    wake: Arc<tokio::sync::Notify>,
    start: tokio::time::Instant,
) {
    let mut queue: [VecDeque<(tokio::time::Instant, Vec<u8>)>; 2] =
        [VecDeque::new(), VecDeque::new()];
    let mut last_due: [tokio::time::Instant; 2] = [start, start];
    let mut chunk_pos = [0usize; 2];
    let mut m_open = true;
    loop {
        {
            let c = ctl.lock().unwrap();
            if c.cut {
                break;
            }
            if c.half_open && m_open {
                m.close();
                m_open = false;
                queue[1].clear();
            }
        }
        {
            let mut c = ctl.lock().unwrap();
            let inj = std::mem::take(&mut c.inject);
            let t_ms = tokio::time::Instant::now()
                .duration_since(start)
                .as_millis() as u64;
            for (dir, bytes) in inj {
                c.log.push((t_ms, dir | 0x80, bytes.clone()));
                let dst = if dir == 0 { &o } else { &m };
                dst.send(&bytes);
            }
        }
        let next = [queue[0].front().map(|x| x.0), queue[1].front().map(|x| x.0)];
        let due = match (next[0], next[1]) {
            (Some(a), Some(b)) => Some(a.min(b)),
            (a, b) => a.or(b),
        };
        let far = tokio::time::Instant::now() + Duration::from_secs(86_400 * 365);
        tokio::select! {
            x = m.from_lib.recv(), if m_open => match x {
                Some((_, bytes)) => {
                    let mut c = ctl.lock().unwrap();
                    let d = c.delay_plan[0].pop_front().unwrap_or(c.delay_ms[0]);
                    let now = tokio::time::Instant::now();
                    let due = (now + Duration::from_millis(d)).max(last_due[0]);
                    last_due[0] = due;
                    c.writes.push((now.duration_since(start).as_millis() as u64, due.duration_since(start).as_millis() as u64, 0, bytes.clone()));
                    queue[0].push_back((due, bytes));
                }
                None => {
                    // the master dropped its physical layer
                    if ctl.lock().unwrap().half_open { m_open = false; } else { break; }
                }
            },
            x = o.from_lib.recv() => match x {
                Some((_, bytes)) => {
                    if m_open {
                        let mut c = ctl.lock().unwrap();
                        let d = c.delay_plan[1].pop_front().unwrap_or(c.delay_ms[1]);
                        let now = tokio::time::Instant::now();
                        let due = (now + Duration::from_millis(d)).max(last_due[1]);
                        last_due[1] = due;
                        c.writes.push((now.duration_since(start).as_millis() as u64, due.duration_since(start).as_millis() as u64, 1, bytes.clone()));
                        queue[1].push_back((due, bytes));
                    }
                }
                None => break,
            },
            _ = tokio::time::sleep_until(due.unwrap_or(far)) => {
                let now = tokio::time::Instant::now();
                let mut end = false;
                for dir in 0..2 {
                    while let Some((t, _)) = queue[dir].front() {
                        if *t > now { break; }
                        let (_, mut bytes) = queue[dir].pop_front().unwrap();
                        let mut c = ctl.lock().unwrap();
                        if let Some(k) = c.cut_after[dir] {
                            if bytes.len() >= k {
                                if bytes.len() > k { c.truncated = true; }
                                bytes.truncate(k);
                                c.cut_after[dir] = None;
                                end = true;
                            } else {
                                c.cut_after[dir] = Some(k - bytes.len());
                            }
                        }
                        // re-chunk
                        let mut pieces: Vec<Vec<u8>> = vec![];
                        if c.chunking[dir].is_empty() {
                            pieces.push(bytes);
                        } else {
                            let mut rest = &bytes[..];
                            while !rest.is_empty() {
                                let pat = &c.chunking[dir];
                                let n = (pat[chunk_pos[dir] % pat.len()].max(1) as usize).min(rest.len());
                                chunk_pos[dir] += 1;
                                pieces.push(rest[..n].to_vec());
                                rest = &rest[n..];
                            }
                        }
                        let t_ms = now.duration_since(start).as_millis() as u64;
                        for p in pieces {
                            if p.is_empty() { continue; }
                            c.bytes[dir] += p.len();
                            c.log.push((t_ms, dir as u8, p.clone()));
                            let dst = if dir == 0 { &o } else { &m };
                            dst.send(&p);
                        }
                        if end { break; }
                    }
                    if end { break; }
                }
                if end { break; }
            },
            _ = wake.notified() => {}
        }
    }
    ctl.lock().unwrap().closed = true;
    // dropping both peers: each library side reads EOF and fails its next write
}

#[derive(Clone, Debug)]
pub struct PairConfig {
    pub out: OutConfig,
    pub master_discard: bool,
    pub master_tx: u16,
    pub master_rx: u16,
    pub master_decode: [u8; 4],
    pub assoc: AssociationConfig,
}

pub struct PairRig {
    pub cfg: PairConfig,
    pub polls: Polls,
    pub start: tokio::time::Instant,
    // outstation side
    pub shared: Shared,
    pub out_handle: OutstationHandle,
    sessions: crate::util::channel::Sender<NewSession>,
    session_id: u64,
    out_task: Option<tokio::task::JoinHandle<()>>,
    // master side
    pub channel: MasterChannel,
    pub assoc: AssociationHandle,
    pub read: RecHandler,
    pub info: InfoLog,
    pub clock: Clock,
    conns: tokio::sync::mpsc::UnboundedSender<PhysLayer>,
    master_task: Option<tokio::task::JoinHandle<()>>,
    // connection
    pub ctl: Arc<Mutex<ProxyCtl>>,
    wake: Arc<tokio::sync::Notify>,
    /// settings carried over to the next connection
    pub delay_ms: [u64; 2],
    pub chunking: [Vec<u16>; 2],
    /// wire logs of finished connections
    pub old_logs: Vec<Vec<(u64, u8, Vec<u8>)>>,
    pub task_failure: Option<Fail>,
}

impl PairRig {
    pub async fn start(cfg: PairConfig, beh: AppBehaviour, clock_offset: Option<u64>) -> PairRig {
        super::init_tracing();
        let start = tokio::time::Instant::now();
        let polls = Polls::default();
        // ---- outstation
        let shared = Shared::new(beh, start);
        let modes = LinkModes::stream(if cfg.out.discard {
            LinkErrorMode::Discard
        } else {
            LinkErrorMode::Close
        });
        let (app, info, controls) = callbacks(&shared);
        let (task, out_handle) = OutstationTask::create(
            Enabled::Yes,
            modes,
            ParseOptions::default(),
            cfg.out.to_lib(),
            PhysAddr::None,
            app,
            info,
            controls,
        );
        let (mut server, sessions) =
            ServerTask::create(Session::outstation(task), NullListener::create());
        let out_task = tokio::spawn(Counted::new(
            async move {
                let _ = server.run().await;
            },
            polls.clone(),
        ));
        // ---- master
        let mut mc = MasterChannelConfig::new(EndpointAddress::raw(MASTER_ADDR));
        mc.decode_level = super::decode_level(
            cfg.master_decode[0],
            cfg.master_decode[1],
            cfg.master_decode[2],
            cfg.master_decode[3],
        );
        mc.tx_buffer_size = BufferSize::new(cfg.master_tx.max(249) as usize).unwrap();
        mc.rx_buffer_size = BufferSize::new(cfg.master_rx.max(249) as usize).unwrap();
        let (tx, rx) = crate::util::channel::request_channel();
        let mtask = MasterTask::new(
            Enabled::Yes,
            LinkModes::stream(if cfg.master_discard {
                LinkErrorMode::Discard
            } else {
                LinkErrorMode::Close
            }),
            ParseOptions::default(),
            mc,
            rx,
        );
        let mut channel = MasterChannel::new(tx, MasterChannelType::Stream);
        let (conns, mut conn_rx) = tokio::sync::mpsc::unbounded_channel::<PhysLayer>();
        let master_task = tokio::spawn(Counted::new(
            async move {
                let mut session = Session::master(mtask);
                loop {
                    if session.wait_for_enabled().await.is_err() {
                        return;
                    }
                    let mut io = loop {
                        tokio::select! {
                            io = conn_rx.recv() => match io {
                                Some(io) => break io,
                                None => return,
                            },
                            r = session.process_next_message() => {
                                if let Err(StopReason::Shutdown) = r {
                                    return;
                                }
                            }
                        }
                    };
                    if let RunError::Stop(StopReason::Shutdown) = session.run(&mut io).await {
                        return;
                    }
                }
            },
            polls.clone(),
        ));
        // ---- association
        let read = RecHandler::default();
        let info = InfoLog {
            log: Default::default(),
            start: Some(start),
        };
        let clock = Clock {
            offset: Arc::new(Mutex::new(clock_offset)),
            start,
        };
        let (r, i, c) = (read.clone(), info.clone(), clock.clone());
        let acfg = cfg.assoc;
        let mut ch = channel.clone();
        let jh = tokio::spawn(Counted::new(
            async move {
                ch.add_association(
                    EndpointAddress::raw(OUTSTATION_ADDR),
                    acfg,
                    Box::new(r),
                    Box::new(c),
                    Box::new(i),
                )
                .await
            },
            polls.clone(),
        ));
        settle(&polls).await;
        let assoc = jh
            .await
            .expect("add_association task")
            .expect("add_association");
        let _ = &mut channel;
        let mut rig = PairRig {
            cfg,
            polls,
            start,
            shared,
            out_handle,
            sessions,
            session_id: 0,
            out_task: Some(out_task),
            channel,
            assoc,
            read,
            info,
            clock,
            conns,
            master_task: Some(master_task),
            ctl: Arc::new(Mutex::new(ProxyCtl {
                closed: true,
                ..Default::default()
            })),
            wake: Arc::new(tokio::sync::Notify::new()),
            delay_ms: [0, 0],
            chunking: [vec![], vec![]],
            old_logs: vec![],
            task_failure: None,
        };
        rig.connect().await;
        rig
    }

    pub fn now_ms(&self) -> u64 {
        tokio::time::Instant::now()
            .duration_since(self.start)
            .as_millis() as u64
    }

    pub fn connected(&self) -> bool {
        !self.ctl.lock().unwrap().closed
    }

    /// establish a new connection: a new physical layer for the master, a new session for the outstation's server
    /// loop (which pre-empts the previous one if that is still open), and a proxy between them
    pub async fn connect(&mut self) {
        // a half-open old connection is pre-empted by the new session; otherwise the old connection is cut first
        let half = {
            let c = self.ctl.lock().unwrap();
            c.half_open && !c.closed
        };
        if !half {
            self.ctl.lock().unwrap().cut = true;
            self.wake.notify_one();
            settle(&self.polls).await;
        }
        let (io_m, peer_m) = pipe(false);
        let (io_o, peer_o) = pipe(false);
        self.session_id += 1;
        let _ = self
            .sessions
            .send(NewSession::new(self.session_id, PhysLayer::Verif(io_o)))
            .await;
        if half {
            settle(&self.polls).await;
            self.ctl.lock().unwrap().cut = true;
            self.wake.notify_one();
            settle(&self.polls).await;
        }
        {
            let mut c = self.ctl.lock().unwrap();
            let log = std::mem::take(&mut c.log);
            if !log.is_empty() {
                self.old_logs.push(log);
            }
        }
        let _ = self.conns.send(PhysLayer::Verif(io_m));
        self.ctl = Arc::new(Mutex::new(ProxyCtl {
            delay_ms: self.delay_ms,
            chunking: self.chunking.clone(),
            ..Default::default()
        }));
        self.wake = Arc::new(tokio::sync::Notify::new());
        tokio::spawn(Counted::new(
            proxy(
                peer_m,
                peer_o,
                self.ctl.clone(),
                self.wake.clone(),
                self.start,
            ),
            self.polls.clone(),
        ));
        self.settle().await;
    }

    /// cut the connection now (both ends see it)
    pub async fn cut(&mut self) {
        self.ctl.lock().unwrap().cut = true;
        self.wake.notify_one();
        self.settle().await;
    }

    /// the master's end closes; the outstation's end stays open and silent until the next connection pre-empts it
    pub async fn half_open(&mut self) {
        self.ctl.lock().unwrap().half_open = true;
        self.wake.notify_one();
        self.settle().await;
    }

    pub fn cut_after(&mut self, dir: usize, bytes: usize) {
        self.ctl.lock().unwrap().cut_after[dir % 2] = Some(bytes);
    }

    pub fn set_delay(&mut self, dir: usize, ms: u64) {
        self.delay_ms[dir % 2] = ms;
        self.ctl.lock().unwrap().delay_ms[dir % 2] = ms;
    }

    /// delays for the next writes in a direction (one per write), then back to the constant delay
    pub fn plan_delays(&mut self, dir: usize, plan: &[u64]) {
        self.ctl.lock().unwrap().delay_plan[dir % 2] = plan.iter().cloned().collect();
    }

    /// deliver bytes to one endpoint as if the other had sent them (0 = towards the outstation, 1 = towards the master)
    pub async fn inject(&mut self, dir: usize, bytes: Vec<u8>) {
        self.ctl
            .lock()
            .unwrap()
            .inject
            .push(((dir % 2) as u8, bytes));
        self.wake.notify_one();
        self.settle().await;
    }

    /// every write of either endpoint on the current connection: (ms written, ms due for delivery, direction, bytes)
    pub fn writes(&self) -> Vec<(u64, u64, u8, Vec<u8>)> {
        self.ctl.lock().unwrap().writes.clone()
    }

    pub fn set_chunking(&mut self, dir: usize, pattern: Vec<u16>) {
        self.chunking[dir % 2] = pattern.clone();
        self.ctl.lock().unwrap().chunking[dir % 2] = pattern;
    }

    pub async fn settle(&mut self) {
        settle(&self.polls).await;
        self.check_tasks().await;
    }

    pub async fn advance(&mut self, ms: u64) {
        if ms > 0 {
            tokio::time::sleep(Duration::from_millis(ms)).await;
        }
        self.settle().await;
    }

    async fn check_tasks(&mut self) {
        for (which, slot) in [
            ("outstation", &mut self.out_task),
            ("master", &mut self.master_task),
        ] {
            if let Some(t) = slot {
                if t.is_finished() {
                    let t = slot.take().unwrap();
                    let fail = match t.await {
                        Ok(()) => Fail::new(
                            "task-ended",
                            format!("the {which} task returned although it was never shut down"),
                        ),
                        Err(e) => {
                            let text =
                                engine::take_panic().unwrap_or_else(|| format!("panic@?: {e}"));
                            if text.contains("verif-spin") {
                                Fail::new("spin", text.clone()).with_sig(format!(
                                    "spin: {which} task busy-loops without time advancing"
                                ))
                            } else {
                                engine::panic_fail(&text)
                            }
                        }
                    };
                    if self.task_failure.is_none() {
                        self.task_failure = Some(fail);
                    }
                }
            }
        }
    }

    /// all bytes forwarded so far on all connections: (ms, direction, bytes)
    pub fn wire_log(&self) -> Vec<(u64, u8, Vec<u8>)> {
        let mut all: Vec<(u64, u8, Vec<u8>)> = self.old_logs.iter().flatten().cloned().collect();
        all.extend(self.ctl.lock().unwrap().log.iter().cloned());
        all
    }
}
