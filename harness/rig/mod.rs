//! rigs: drive the library through the in-memory physical layer
pub mod exec;
