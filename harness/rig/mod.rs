//! rigs: drive the library through the in-memory physical layer, on a current-thread runtime with a paused clock
pub mod exec;
pub mod handler;
pub mod master;
pub mod outstation;
pub mod pair;

use std::future::Future;
use std::pin::Pin;
use std::sync::atomic::{AtomicU64, Ordering};
use std::sync::Arc;
use std::task::{Context, Poll};

/// number of polls of all wrapped library tasks of the current rig
#[derive(Clone, Default)]
pub struct Polls(pub Arc<AtomicU64>);

impl Polls {
    pub fn get(&self) -> u64 {
        self.0.load(Ordering::Relaxed)
    }
}

/// polls of one library task at the same virtual instant before it is declared a busy loop
pub const SPIN_LIMIT: u64 = 300_000;

/// wraps a library task: counts polls (quiescence detection) and detects yielding busy loops
pub struct Counted<F> {
    inner: Pin<Box<F>>,
    polls: Polls,
    last_now: tokio::time::Instant,
    same_instant: u64,
}

impl<F: Future> Counted<F> {
    pub fn new(inner: F, polls: Polls) -> Self {
        Counted {
            inner: Box::pin(inner),
            polls,
            last_now: tokio::time::Instant::now(),
            same_instant: 0,
        }
    }
}

impl<F: Future> Future for Counted<F> {
    type Output = F::Output;
    fn poll(mut self: Pin<&mut Self>, cx: &mut Context<'_>) -> Poll<F::Output> {
        self.polls.0.fetch_add(1, Ordering::Relaxed);
        let now = tokio::time::Instant::now();
        if now == self.last_now {
            self.same_instant += 1;
            if self.same_instant > SPIN_LIMIT {
                panic!(
                    "verif-spin: library task polled {} times without virtual time advancing",
                    self.same_instant
                );
            }
        } else {
            self.last_now = now;
            self.same_instant = 0;
        }
        self.inner.as_mut().poll(cx)
    }
}

/// let every library task run until none of them is runnable; virtual time does not move
pub async fn settle(polls: &Polls) {
    let mut quiet = 0;
    for _ in 0..2_000_000u32 {
        let before = polls.get();
        tokio::task::yield_now().await;
        if polls.get() == before {
            quiet += 1;
            if quiet >= 2 {
                return;
            }
        } else {
            quiet = 0;
        }
    }
    panic!("verif-spin: system never became quiescent");
}

pub fn runtime() -> tokio::runtime::Runtime {
    tokio::runtime::Builder::new_current_thread()
        .enable_time()
        .start_paused(true)
        .build()
        .expect("runtime")
}

/// install (once per process) a tracing subscriber that formats every event into a sink, so that the
/// decode/Display code of the library really runs at the generated decode levels
pub fn init_tracing() {
    static ONCE: std::sync::Once = std::sync::Once::new();
    ONCE.call_once(|| {
        let sub = tracing_subscriber::fmt()
            .with_max_level(tracing::Level::TRACE)
            .with_writer(std::io::sink)
            .with_ansi(false)
            .finish();
        let _ = tracing::subscriber::set_global_default(sub);
    });
}

pub fn decode_level(app: u8, transport: u8, link: u8, phys: u8) -> crate::decode::DecodeLevel {
    use crate::decode::*;
    DecodeLevel::new(
        match app % 4 {
            0 => AppDecodeLevel::Nothing,
            1 => AppDecodeLevel::Header,
            2 => AppDecodeLevel::ObjectHeaders,
            _ => AppDecodeLevel::ObjectValues,
        },
        match transport % 3 {
            0 => TransportDecodeLevel::Nothing,
            1 => TransportDecodeLevel::Header,
            _ => TransportDecodeLevel::Payload,
        },
        match link % 3 {
            0 => LinkDecodeLevel::Nothing,
            1 => LinkDecodeLevel::Header,
            _ => LinkDecodeLevel::Payload,
        },
        match phys % 3 {
            0 => PhysDecodeLevel::Nothing,
            1 => PhysDecodeLevel::Length,
            _ => PhysDecodeLevel::Data,
        },
    )
}
