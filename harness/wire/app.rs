//! Reference application-layer codec written from IEEE 1815 Annex A: object size table, header walker,
//! small encoders for the fragments the harness sends, and a value decoder for measurement objects.
//! Shares no code with dnp3.

#[derive(Copy, Clone, Debug, PartialEq, Eq)]
pub enum Layout {
    /// header only, never any object data ("any variation", class objects)
    NoObjects,
    /// fixed number of octets per object
    Fixed(usize),
    /// packed single-bit objects (LSB first), only defined for range qualifiers
    Bit,
    /// packed double-bit objects, only defined for range qualifiers
    DoubleBit,
    /// octet strings: the variation is the length
    Octets,
    /// device attribute: [type][len][value]
    Attr,
    /// group 70: free format
    FreeFormat,
}

/// object layout of every group/variation of IEEE 1815 Annex A that dnp3 knows; None = unknown object
pub fn layout(g: u8, v: u8) -> Option<Layout> {
    use Layout::*;
    let f = |n| Some(Fixed(n));
    match (g, v) {
        (0, 254) => Some(NoObjects),
        (0, _) => Some(Attr),
        (1, 0)
        | (2, 0)
        | (3, 0)
        | (4, 0)
        | (10, 0)
        | (11, 0)
        | (20, 0)
        | (21, 0)
        | (22, 0)
        | (23, 0)
        | (30, 0)
        | (31, 0)
        | (32, 0)
        | (33, 0)
        | (34, 0)
        | (40, 0)
        | (42, 0)
        | (102, 0) => Some(NoObjects),
        (1, 1) | (10, 1) | (80, 1) => Some(Bit),
        (3, 1) => Some(DoubleBit),
        (1, 2) | (3, 2) | (10, 2) => f(1),
        (2, 1) | (4, 1) | (11, 1) | (13, 1) => f(1),
        (2, 2) | (4, 2) | (11, 2) | (13, 2) => f(7),
        (2, 3) | (4, 3) => f(3),
        (12, 1) => f(11),
        (20, 1) | (21, 1) | (22, 1) | (23, 1) => f(5),
        (20, 2) | (21, 2) | (22, 2) | (23, 2) => f(3),
        (20, 5) | (21, 9) => f(4),
        (20, 6) | (21, 10) => f(2),
        (21, 5) | (22, 5) | (23, 5) => f(11),
        (21, 6) | (22, 6) | (23, 6) => f(9),
        (30, 1) => f(5),
        (30, 2) => f(3),
        (30, 3) => f(4),
        (30, 4) => f(2),
        (30, 5) => f(5),
        (30, 6) => f(9),
        (31, 1) => f(5),
        (31, 2) => f(3),
        (31, 3) => f(11),
        (31, 4) => f(9),
        (31, 5) => f(4),
        (31, 6) => f(2),
        (31, 7) => f(5),
        (31, 8) => f(9),
        (32, 1) | (33, 1) | (42, 1) | (43, 1) => f(5),
        (32, 2) | (33, 2) | (42, 2) | (43, 2) => f(3),
        (32, 3) | (33, 3) | (42, 3) | (43, 3) => f(11),
        (32, 4) | (33, 4) | (42, 4) | (43, 4) => f(9),
        (32, 5) | (33, 5) | (42, 5) | (43, 5) => f(5),
        (32, 6) | (33, 6) | (42, 6) | (43, 6) => f(9),
        (32, 7) | (33, 7) | (42, 7) | (43, 7) => f(11),
        (32, 8) | (33, 8) | (42, 8) | (43, 8) => f(15),
        (34, 1) => f(2),
        (34, 2) | (34, 3) => f(4),
        (40, 1) | (41, 1) => f(5),
        (40, 2) | (41, 2) => f(3),
        (40, 3) | (41, 3) => f(5),
        (40, 4) | (41, 4) => f(9),
        (50, 1) | (50, 3) | (51, 1) | (51, 2) => f(6),
        (50, 2) => f(10),
        (50, 4) => f(11),
        (52, 1) | (52, 2) => f(2),
        (60, 1) | (60, 2) | (60, 3) | (60, 4) => Some(NoObjects),
        (70, 2..=8) => Some(FreeFormat),
        (102, 1) => f(1),
        (110, _) | (111, _) => Some(Octets),
        _ => None,
    }
}

/// groups whose objects are events (reported with an index prefix; with a bare count they form a
/// "limited quantity" request that carries no objects)
pub fn is_event_group(g: u8) -> bool {
    matches!(g, 2 | 4 | 11 | 13 | 22 | 23 | 32 | 33 | 42 | 43 | 111)
}

#[derive(Clone, Debug, PartialEq, Eq)]
pub struct Obj {
    pub index: Option<u32>,
    /// raw object octets (bit-packed objects: one octet holding the 1- or 2-bit value)
    pub data: Vec<u8>,
}

#[derive(Clone, Debug, PartialEq, Eq)]
pub struct Header {
    pub g: u8,
    pub v: u8,
    pub q: u8,
    pub range: Option<(u32, u32)>,
    pub count: Option<u32>,
    pub objects: Vec<Obj>,
    /// octets of this header including its objects
    pub raw_len: usize,
}

#[derive(Clone, Debug, PartialEq, Eq)]
pub enum WalkErr {
    Truncated,
    UnknownObject(u8, u8),
    UnknownQualifier(u8),
    BadRange(u32, u32),
    ZeroLengthString,
    BadAttr,
    /// the standard does not define this object/qualifier/function combination: the reference abstains
    Undefined(u8, u8, u8),
}

pub const READ: u8 = 1;

struct Cur<'a> {
    d: &'a [u8],
    p: usize,
}

impl<'a> Cur<'a> {
    fn u8(&mut self) -> Result<u8, WalkErr> {
        let x = *self.d.get(self.p).ok_or(WalkErr::Truncated)?;
        self.p += 1;
        Ok(x)
    }
    fn u16(&mut self) -> Result<u16, WalkErr> {
        Ok(self.u8()? as u16 | ((self.u8()? as u16) << 8))
    }
    fn take(&mut self, n: usize) -> Result<&'a [u8], WalkErr> {
        if self.d.len() - self.p < n {
            return Err(WalkErr::Truncated);
        }
        let s = &self.d[self.p..self.p + n];
        self.p += n;
        Ok(s)
    }
}

/// walk all object headers of a fragment body; Ok = every octet consumed
pub fn walk(function: u8, objects: &[u8]) -> Result<Vec<Header>, WalkErr> {
    let mut c = Cur { d: objects, p: 0 };
    let mut out = vec![];
    while c.p < objects.len() {
        let start = c.p;
        let g = c.u8()?;
        let v = c.u8()?;
        let lay = layout(g, v).ok_or(WalkErr::UnknownObject(g, v))?;
        let q = c.u8()?;
        let mut h = Header {
            g,
            v,
            q,
            range: None,
            count: None,
            objects: vec![],
            raw_len: 0,
        };
        match q {
            0x06 => {}
            0x00 | 0x01 => {
                let (a, b) = if q == 0 {
                    (c.u8()? as u32, c.u8()? as u32)
                } else {
                    (c.u16()? as u32, c.u16()? as u32)
                };
                if b < a {
                    return Err(WalkErr::BadRange(a, b));
                }
                h.range = Some((a, b));
                let n = (b - a + 1) as usize;
                if function != READ {
                    match lay {
                        Layout::NoObjects => {}
                        Layout::Fixed(sz) => {
                            if is_event_group(g)
                                || g == 12
                                || g == 41
                                || g == 50
                                || g == 51
                                || g == 52
                            {
                                return Err(WalkErr::Undefined(g, v, q));
                            }
                            for i in 0..n {
                                h.objects.push(Obj {
                                    index: Some(a + i as u32),
                                    data: c.take(sz)?.to_vec(),
                                });
                            }
                        }
                        Layout::Bit => {
                            let bytes = c.take((n + 7) / 8)?;
                            for i in 0..n {
                                h.objects.push(Obj {
                                    index: Some(a + i as u32),
                                    data: vec![(bytes[i / 8] >> (i % 8)) & 1],
                                });
                            }
                        }
                        Layout::DoubleBit => {
                            let bytes = c.take((n + 3) / 4)?;
                            for i in 0..n {
                                h.objects.push(Obj {
                                    index: Some(a + i as u32),
                                    data: vec![(bytes[i / 4] >> (2 * (i % 4))) & 3],
                                });
                            }
                        }
                        Layout::Octets => {
                            if g != 110 {
                                return Err(WalkErr::Undefined(g, v, q));
                            }
                            if v == 0 {
                                return Err(WalkErr::ZeroLengthString);
                            }
                            for i in 0..n {
                                h.objects.push(Obj {
                                    index: Some(a + i as u32),
                                    data: c.take(v as usize)?.to_vec(),
                                });
                            }
                        }
                        Layout::Attr => {
                            if n != 1 {
                                return Err(WalkErr::Undefined(g, v, q));
                            }
                            let s = c.p;
                            let _ty = c.u8()?;
                            let len = c.u8()? as usize;
                            let len = if _ty == 255 { len + 256 } else { len };
                            c.take(len)?;
                            h.objects.push(Obj {
                                index: Some(a),
                                data: objects[s..c.p].to_vec(),
                            });
                        }
                        Layout::FreeFormat => return Err(WalkErr::Undefined(g, v, q)),
                    }
                } else if matches!(lay, Layout::FreeFormat)
                    || is_event_group(g)
                    || matches!(g, 12 | 41 | 50 | 51 | 52 | 60)
                {
                    // a READ by index range is only defined for static data, attributes and octet strings
                    return Err(WalkErr::Undefined(g, v, q));
                }
            }
            0x07 | 0x08 => {
                let n = if q == 0x07 {
                    c.u8()? as u32
                } else {
                    c.u16()? as u32
                };
                h.count = Some(n);
                if is_event_group(g) || g == 60 {
                    // limited-quantity request form: no objects
                } else if matches!(g, 50 | 51 | 52) {
                    if function == READ {
                        return Err(WalkErr::Undefined(g, v, q));
                    }
                    if let Layout::Fixed(sz) = lay {
                        for _ in 0..n {
                            h.objects.push(Obj {
                                index: None,
                                data: c.take(sz)?.to_vec(),
                            });
                        }
                    }
                } else {
                    return Err(WalkErr::Undefined(g, v, q));
                }
            }
            0x17 | 0x28 => {
                let n = if q == 0x17 {
                    c.u8()? as u32
                } else {
                    c.u16()? as u32
                };
                h.count = Some(n);
                if function == READ {
                    return Err(WalkErr::Undefined(g, v, q));
                }
                let sz = match lay {
                    Layout::Fixed(sz) => sz,
                    Layout::Octets => {
                        if v == 0 {
                            return Err(WalkErr::ZeroLengthString);
                        }
                        v as usize
                    }
                    _ => return Err(WalkErr::Undefined(g, v, q)),
                };
                for _ in 0..n {
                    let idx = if q == 0x17 {
                        c.u8()? as u32
                    } else {
                        c.u16()? as u32
                    };
                    h.objects.push(Obj {
                        index: Some(idx),
                        data: c.take(sz)?.to_vec(),
                    });
                }
            }
            0x5B => {
                let n = c.u8()? as u32;
                h.count = Some(n);
                if !matches!(lay, Layout::FreeFormat) {
                    return Err(WalkErr::Undefined(g, v, q));
                }
                for _ in 0..n {
                    let len = c.u16()? as usize;
                    h.objects.push(Obj {
                        index: None,
                        data: c.take(len)?.to_vec(),
                    });
                }
            }
            _ => return Err(WalkErr::UnknownQualifier(q)),
        }
        h.raw_len = c.p - start;
        out.push(h);
    }
    Ok(out)
}

// ---------------------------------------------------------------------------------------------
// fragments

#[derive(Clone, Debug, PartialEq, Eq)]
pub struct Fragment {
    pub fir: bool,
    pub fin: bool,
    pub con: bool,
    pub uns: bool,
    pub seq: u8,
    pub func: u8,
    /// (IIN1, IIN2) for responses
    pub iin: Option<(u8, u8)>,
    pub objects: Vec<u8>,
}

impl Fragment {
    pub fn ctrl(&self) -> u8 {
        (if self.fir { 0x80 } else { 0 })
            | (if self.fin { 0x40 } else { 0 })
            | (if self.con { 0x20 } else { 0 })
            | (if self.uns { 0x10 } else { 0 })
            | (self.seq & 0x0F)
    }
    pub fn request(seq: u8, func: u8, objects: Vec<u8>) -> Fragment {
        Fragment {
            fir: true,
            fin: true,
            con: false,
            uns: false,
            seq: seq & 0x0F,
            func,
            iin: None,
            objects,
        }
    }
    pub fn confirm(seq: u8, uns: bool) -> Fragment {
        Fragment {
            fir: true,
            fin: true,
            con: false,
            uns,
            seq: seq & 0x0F,
            func: 0,
            iin: None,
            objects: vec![],
        }
    }
    pub fn encode(&self) -> Vec<u8> {
        let mut out = vec![self.ctrl(), self.func];
        if let Some((a, b)) = self.iin {
            out.push(a);
            out.push(b);
        }
        out.extend_from_slice(&self.objects);
        out
    }
    /// parse the application header (function 129/130 carry IIN)
    pub fn parse(bytes: &[u8]) -> Option<Fragment> {
        if bytes.len() < 2 {
            return None;
        }
        let c = bytes[0];
        let func = bytes[1];
        let (iin, rest) = if func == 129 || func == 130 {
            if bytes.len() < 4 {
                return None;
            }
            (Some((bytes[2], bytes[3])), &bytes[4..])
        } else {
            (None, &bytes[2..])
        };
        Some(Fragment {
            fir: c & 0x80 != 0,
            fin: c & 0x40 != 0,
            con: c & 0x20 != 0,
            uns: c & 0x10 != 0,
            seq: c & 0x0F,
            func,
            iin,
            objects: rest.to_vec(),
        })
    }
    pub fn headers(&self) -> Result<Vec<Header>, WalkErr> {
        walk(self.func, &self.objects)
    }
}

pub mod iin1 {
    pub const BROADCAST: u8 = 0x01;
    pub const CLASS_1: u8 = 0x02;
    pub const CLASS_2: u8 = 0x04;
    pub const CLASS_3: u8 = 0x08;
    pub const NEED_TIME: u8 = 0x10;
    pub const LOCAL_CONTROL: u8 = 0x20;
    pub const DEVICE_TROUBLE: u8 = 0x40;
    pub const RESTART: u8 = 0x80;
}
pub mod iin2 {
    pub const NO_FUNC_CODE_SUPPORT: u8 = 0x01;
    pub const OBJECT_UNKNOWN: u8 = 0x02;
    pub const PARAMETER_ERROR: u8 = 0x04;
    pub const EVENT_BUFFER_OVERFLOW: u8 = 0x08;
    pub const ALREADY_EXECUTING: u8 = 0x10;
    pub const CONFIG_CORRUPT: u8 = 0x20;
}

pub mod func {
    pub const CONFIRM: u8 = 0;
    pub const READ: u8 = 1;
    pub const WRITE: u8 = 2;
    pub const SELECT: u8 = 3;
    pub const OPERATE: u8 = 4;
    pub const DIRECT_OPERATE: u8 = 5;
    pub const DIRECT_OPERATE_NR: u8 = 6;
    pub const IMMED_FREEZE: u8 = 7;
    pub const IMMED_FREEZE_NR: u8 = 8;
    pub const FREEZE_CLEAR: u8 = 9;
    pub const FREEZE_CLEAR_NR: u8 = 10;
    pub const FREEZE_AT_TIME: u8 = 11;
    pub const FREEZE_AT_TIME_NR: u8 = 12;
    pub const COLD_RESTART: u8 = 13;
    pub const WARM_RESTART: u8 = 14;
    pub const ENABLE_UNSOLICITED: u8 = 20;
    pub const DISABLE_UNSOLICITED: u8 = 21;
    pub const ASSIGN_CLASS: u8 = 22;
    pub const DELAY_MEASURE: u8 = 23;
    pub const RECORD_CURRENT_TIME: u8 = 24;
    pub const RESPONSE: u8 = 129;
    pub const UNSOLICITED_RESPONSE: u8 = 130;
}

// ---------------------------------------------------------------------------------------------
// header encoders

pub fn h_all(g: u8, v: u8) -> Vec<u8> {
    vec![g, v, 0x06]
}
pub fn h_range8(g: u8, v: u8, start: u8, stop: u8, data: &[u8]) -> Vec<u8> {
    let mut o = vec![g, v, 0x00, start, stop];
    o.extend_from_slice(data);
    o
}
pub fn h_range16(g: u8, v: u8, start: u16, stop: u16, data: &[u8]) -> Vec<u8> {
    let mut o = vec![g, v, 0x01];
    o.extend_from_slice(&start.to_le_bytes());
    o.extend_from_slice(&stop.to_le_bytes());
    o.extend_from_slice(data);
    o
}
pub fn h_count8(g: u8, v: u8, count: u8, data: &[u8]) -> Vec<u8> {
    let mut o = vec![g, v, 0x07, count];
    o.extend_from_slice(data);
    o
}
pub fn h_count16(g: u8, v: u8, count: u16, data: &[u8]) -> Vec<u8> {
    let mut o = vec![g, v, 0x08];
    o.extend_from_slice(&count.to_le_bytes());
    o.extend_from_slice(data);
    o
}
/// objects: (index, object octets)
pub fn h_prefixed8(g: u8, v: u8, objs: &[(u8, Vec<u8>)]) -> Vec<u8> {
    let mut o = vec![g, v, 0x17, objs.len() as u8];
    for (i, d) in objs {
        o.push(*i);
        o.extend_from_slice(d);
    }
    o
}
pub fn h_prefixed16(g: u8, v: u8, objs: &[(u16, Vec<u8>)]) -> Vec<u8> {
    let mut o = vec![g, v, 0x28];
    o.extend_from_slice(&(objs.len() as u16).to_le_bytes());
    for (i, d) in objs {
        o.extend_from_slice(&i.to_le_bytes());
        o.extend_from_slice(d);
    }
    o
}
/// g12v1 control relay output block
pub fn crob(code: u8, count: u8, on_ms: u32, off_ms: u32, status: u8) -> Vec<u8> {
    let mut o = vec![code, count];
    o.extend_from_slice(&on_ms.to_le_bytes());
    o.extend_from_slice(&off_ms.to_le_bytes());
    o.push(status);
    o
}
pub fn u48(t: u64) -> [u8; 6] {
    let b = t.to_le_bytes();
    [b[0], b[1], b[2], b[3], b[4], b[5]]
}
pub fn rd_u48(b: &[u8]) -> u64 {
    let mut x = [0u8; 8];
    x[..6].copy_from_slice(&b[..6]);
    u64::from_le_bytes(x)
}

// ---------------------------------------------------------------------------------------------
// measurement object decoder

#[derive(Clone, Copy, Debug, PartialEq)]
pub enum Val {
    /// binary: value
    Bool(bool),
    /// double-bit: 0..=3
    Dbl(u8),
    /// counters
    U32(u32),
    /// analogs (integers are exact in f64)
    F64(f64),
    /// analog carried as a 32-bit float on the wire (kept to compare exactly)
    F32(f32),
    None,
}

#[derive(Clone, Debug, PartialEq)]
pub struct Meas {
    pub flags: Option<u8>,
    pub val: Val,
    /// absolute 48-bit time or relative 16-bit time
    pub time: Option<u64>,
    pub relative_time: bool,
}

fn i16le(b: &[u8]) -> i16 {
    i16::from_le_bytes([b[0], b[1]])
}
fn i32le(b: &[u8]) -> i32 {
    i32::from_le_bytes([b[0], b[1], b[2], b[3]])
}
fn u16le(b: &[u8]) -> u16 {
    u16::from_le_bytes([b[0], b[1]])
}
fn u32le(b: &[u8]) -> u32 {
    u32::from_le_bytes([b[0], b[1], b[2], b[3]])
}
fn f32le(b: &[u8]) -> f32 {
    f32::from_le_bytes([b[0], b[1], b[2], b[3]])
}
fn f64le(b: &[u8]) -> f64 {
    f64::from_le_bytes([b[0], b[1], b[2], b[3], b[4], b[5], b[6], b[7]])
}

/// decode one measurement object (static or event) of the eight point types; None = not a measurement object
pub fn decode_meas(g: u8, v: u8, d: &[u8]) -> Option<Meas> {
    let m = |flags, val, time, rel| {
        Some(Meas {
            flags,
            val,
            time,
            relative_time: rel,
        })
    };
    match (g, v) {
        // binary input / output status: packed = value only
        (1, 1) | (10, 1) => m(None, Val::Bool(d[0] & 1 != 0), None, false),
        (1, 2) | (10, 2) | (2, 1) | (11, 1) => {
            m(Some(d[0]), Val::Bool(d[0] & 0x80 != 0), None, false)
        }
        (2, 2) | (11, 2) => m(
            Some(d[0]),
            Val::Bool(d[0] & 0x80 != 0),
            Some(rd_u48(&d[1..])),
            false,
        ),
        (2, 3) => m(
            Some(d[0]),
            Val::Bool(d[0] & 0x80 != 0),
            Some(u16le(&d[1..]) as u64),
            true,
        ),
        (3, 1) => m(None, Val::Dbl(d[0] & 3), None, false),
        (3, 2) | (4, 1) => m(Some(d[0]), Val::Dbl(d[0] >> 6), None, false),
        (4, 2) => m(
            Some(d[0]),
            Val::Dbl(d[0] >> 6),
            Some(rd_u48(&d[1..])),
            false,
        ),
        (4, 3) => m(
            Some(d[0]),
            Val::Dbl(d[0] >> 6),
            Some(u16le(&d[1..]) as u64),
            true,
        ),
        // counters
        (20, 1) | (21, 1) | (22, 1) | (23, 1) => {
            m(Some(d[0]), Val::U32(u32le(&d[1..])), None, false)
        }
        (20, 2) | (21, 2) | (22, 2) | (23, 2) => {
            m(Some(d[0]), Val::U32(u16le(&d[1..]) as u32), None, false)
        }
        (20, 5) | (21, 9) => m(None, Val::U32(u32le(d)), None, false),
        (20, 6) | (21, 10) => m(None, Val::U32(u16le(d) as u32), None, false),
        (21, 5) | (22, 5) | (23, 5) => m(
            Some(d[0]),
            Val::U32(u32le(&d[1..])),
            Some(rd_u48(&d[5..])),
            false,
        ),
        (21, 6) | (22, 6) | (23, 6) => m(
            Some(d[0]),
            Val::U32(u16le(&d[1..]) as u32),
            Some(rd_u48(&d[3..])),
            false,
        ),
        // analog input / frozen analog / analog output status
        (30, 1) | (31, 1) | (32, 1) | (33, 1) | (40, 1) | (42, 1) => {
            m(Some(d[0]), Val::F64(i32le(&d[1..]) as f64), None, false)
        }
        (30, 2) | (31, 2) | (32, 2) | (33, 2) | (40, 2) | (42, 2) => {
            m(Some(d[0]), Val::F64(i16le(&d[1..]) as f64), None, false)
        }
        (30, 3) | (31, 5) => m(None, Val::F64(i32le(d) as f64), None, false),
        (30, 4) | (31, 6) => m(None, Val::F64(i16le(d) as f64), None, false),
        (30, 5) | (31, 7) | (32, 5) | (33, 5) | (40, 3) | (42, 5) => {
            m(Some(d[0]), Val::F32(f32le(&d[1..])), None, false)
        }
        (30, 6) | (31, 8) | (32, 6) | (33, 6) | (40, 4) | (42, 6) => {
            m(Some(d[0]), Val::F64(f64le(&d[1..])), None, false)
        }
        (31, 3) | (32, 3) | (33, 3) | (42, 3) => m(
            Some(d[0]),
            Val::F64(i32le(&d[1..]) as f64),
            Some(rd_u48(&d[5..])),
            false,
        ),
        (31, 4) | (32, 4) | (33, 4) | (42, 4) => m(
            Some(d[0]),
            Val::F64(i16le(&d[1..]) as f64),
            Some(rd_u48(&d[3..])),
            false,
        ),
        (32, 7) | (33, 7) | (42, 7) => m(
            Some(d[0]),
            Val::F32(f32le(&d[1..])),
            Some(rd_u48(&d[5..])),
            false,
        ),
        (32, 8) | (33, 8) | (42, 8) => m(
            Some(d[0]),
            Val::F64(f64le(&d[1..])),
            Some(rd_u48(&d[9..])),
            false,
        ),
        _ => None,
    }
}
