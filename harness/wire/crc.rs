//! CRC-16/DNP, bit-serial (poly 0x3D65 reflected = 0xA6BC, init 0, output complemented, little-endian on the wire)
pub fn crc16(data: &[u8]) -> u16 {
    let mut crc: u16 = 0;
    for b in data {
        crc ^= *b as u16;
        for _ in 0..8 {
            if crc & 1 != 0 {
                crc = (crc >> 1) ^ 0xA6BC;
            } else {
                crc >>= 1;
            }
        }
    }
    !crc
}
