//! Independent reference codecs written from IEEE 1815; they share no code with the library.
pub mod app;
pub mod crc;
pub mod link;
pub mod transport;
