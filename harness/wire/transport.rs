//! Reference transport function: segmenter and the validity predicate for reassembly.

#[derive(Clone, Debug, PartialEq, Eq)]
pub struct Segment {
    pub src: u16,
    pub fir: bool,
    pub fin: bool,
    pub seq: u8,
    pub data: Vec<u8>,
    /// Some(address): the link frame that carries the segment is addressed to that broadcast address
    pub bcast: Option<u16>,
    /// datagram transports: which socket address (peer number) the carrying datagram comes from
    pub peer: u8,
}

impl Segment {
    pub fn header(&self) -> u8 {
        (if self.fin { 0x80 } else { 0 }) | (if self.fir { 0x40 } else { 0 }) | (self.seq & 0x3F)
    }
    pub fn from_payload(src: u16, payload: &[u8]) -> Option<Segment> {
        let (h, data) = payload.split_first()?;
        Some(Segment {
            src,
            fin: h & 0x80 != 0,
            fir: h & 0x40 != 0,
            seq: h & 0x3F,
            data: data.to_vec(),
            bcast: None,
            peer: 0,
        })
    }
    pub fn payload(&self) -> Vec<u8> {
        let mut p = vec![self.header()];
        p.extend_from_slice(&self.data);
        p
    }
}

/// split a fragment into segments of at most 249 data bytes; returns the next sequence number
pub fn segment(src: u16, fragment: &[u8], start_seq: u8) -> (Vec<Segment>, u8) {
    let mut seq = start_seq & 0x3F;
    let chunks: Vec<&[u8]> = if fragment.is_empty() {
        vec![]
    } else {
        fragment.chunks(249).collect()
    };
    let n = chunks.len();
    let mut out = vec![];
    for (i, c) in chunks.into_iter().enumerate() {
        out.push(Segment {
            src,
            fir: i == 0,
            fin: i + 1 == n,
            seq,
            data: c.to_vec(),
            bcast: None,
            peer: 0,
        });
        seq = (seq + 1) & 0x3F;
    }
    (out, seq)
}

/// The statement's validity predicate over a received segment stream: the fragments that must be delivered
/// are exactly the contiguous runs that start with FIR, continue with non-FIR segments of the same source with
/// consecutive sequence numbers (mod 64), end with the first FIN and fit the receive buffer.
pub fn expected_fragments(segs: &[Segment], rx_buffer: usize) -> Vec<(u16, Vec<u8>)> {
    expected_fragments_ex(segs, rx_buffer)
        .into_iter()
        .map(|(s, _, d)| (s, d))
        .collect()
}

/// The same with broadcasts and datagram peers: a segment that arrives by broadcast counts only if it is a whole
/// fragment (FIR and FIN); without FIR it is as if it had never been sent, with FIR (but without FIN) it ends the
/// fragment in progress like every FIR does and starts nothing; "same source" means the same link address AND the
/// same socket address. Returns (source, broadcast address, bytes).
pub fn expected_fragments_ex(
    segs: &[Segment],
    rx_buffer: usize,
) -> Vec<(u16, Option<u16>, Vec<u8>)> {
    expected_fragments_policy(segs, rx_buffer, false, false, false)
}

/// Where the statement leaves a choice, every choice is a policy:
/// * `drop_duplicates`: a segment that repeats the previous one exactly (same source, flags, sequence number, octets) is
///   discarded, as IEEE 1815 prescribes, and the fragment goes on - instead of the repeat ending the fragment;
/// * `assemble_broadcasts`: segments that arrive by broadcast are reassembled like any others (the broadcast address is
///   part of what "same source" means) - instead of a broadcast having to fit one segment.
pub fn expected_fragments_policy(
    segs: &[Segment],
    rx_buffer: usize,
    drop_duplicates: bool,
    assemble_broadcasts: bool,
    ignore_foreign: bool,
) -> Vec<(u16, Option<u16>, Vec<u8>)> {
    let mut kept: Vec<Segment> = vec![];
    for s in segs {
        if drop_duplicates {
            if let Some(p) = kept.last() {
                if !s.fir && p == s {
                    continue;
                }
            }
        }
        if !assemble_broadcasts && s.bcast.is_some() && !s.fir {
            continue;
        }
        kept.push(s.clone());
    }
    let segs = &kept[..];
    let mut out = vec![];
    for i in 0..segs.len() {
        if !segs[i].fir || (!assemble_broadcasts && segs[i].bcast.is_some() && !segs[i].fin) {
            continue;
        }
        let mut acc: Vec<u8> = vec![];
        let mut k = i;
        // the segment accepted last
        let mut p = i;
        loop {
            if k > i {
                let c = &segs[k];
                let foreign =
                    c.src != segs[i].src || c.peer != segs[i].peer || c.bcast != segs[i].bcast;
                if ignore_foreign && !c.fir && foreign {
                    // a continuation segment of somebody else: not part of this fragment, and it does not end it
                    k += 1;
                    if k >= segs.len() {
                        break;
                    }
                    continue;
                }
                if c.fir || foreign || c.seq != (segs[p].seq + 1) & 0x3F {
                    break;
                }
            }
            p = k;
            acc.extend_from_slice(&segs[k].data);
            if acc.len() > rx_buffer {
                break;
            }
            if segs[k].fin {
                out.push((segs[i].src, segs[i].bcast, acc));
                break;
            }
            k += 1;
            if k >= segs.len() {
                break;
            }
        }
    }
    out
}
