//! Reference transport function: segmenter and the validity predicate for reassembly.

#[derive(Clone, Debug, PartialEq, Eq)]
pub struct Segment {
    pub src: u16,
    pub fir: bool,
    pub fin: bool,
    pub seq: u8,
    pub data: Vec<u8>,
}

impl Segment {
    pub fn header(&self) -> u8 {
        (if self.fin { 0x80 } else { 0 }) | (if self.fir { 0x40 } else { 0 }) | (self.seq & 0x3F)
    }
    pub fn from_payload(src: u16, payload: &[u8]) -> Option<Segment> {
        let (h, data) = payload.split_first()?;
        Some(Segment {
            src,
            fin: h & 0x80 != 0,
            fir: h & 0x40 != 0,
            seq: h & 0x3F,
            data: data.to_vec(),
        })
    }
    pub fn payload(&self) -> Vec<u8> {
        let mut p = vec![self.header()];
        p.extend_from_slice(&self.data);
        p
    }
}

/// split a fragment into segments of at most 249 data bytes; returns the next sequence number
pub fn segment(src: u16, fragment: &[u8], start_seq: u8) -> (Vec<Segment>, u8) {
    let mut seq = start_seq & 0x3F;
    let chunks: Vec<&[u8]> = if fragment.is_empty() {
        vec![]
    } else {
        fragment.chunks(249).collect()
    };
    let n = chunks.len();
    let mut out = vec![];
    for (i, c) in chunks.into_iter().enumerate() {
        out.push(Segment {
            src,
            fir: i == 0,
            fin: i + 1 == n,
            seq,
            data: c.to_vec(),
        });
        seq = (seq + 1) & 0x3F;
    }
    (out, seq)
}

/// The statement's validity predicate over a received segment stream: the fragments that must be delivered
/// are exactly the contiguous runs that start with FIR, continue with non-FIR segments of the same source with
/// consecutive sequence numbers (mod 64), end with the first FIN and fit the receive buffer.
pub fn expected_fragments(segs: &[Segment], rx_buffer: usize) -> Vec<(u16, Vec<u8>)> {
    let mut out = vec![];
    for i in 0..segs.len() {
        if !segs[i].fir {
            continue;
        }
        let mut acc: Vec<u8> = vec![];
        let mut k = i;
        loop {
            if k > i {
                let (p, c) = (&segs[k - 1], &segs[k]);
                if c.fir || c.src != segs[i].src || c.seq != (p.seq + 1) & 0x3F {
                    break;
                }
            }
            acc.extend_from_slice(&segs[k].data);
            if acc.len() > rx_buffer {
                break;
            }
            if segs[k].fin {
                out.push((segs[i].src, acc));
                break;
            }
            k += 1;
            if k >= segs.len() {
                break;
            }
        }
    }
    out
}
