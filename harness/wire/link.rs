//! Reference link-layer frame encoder and scanner.
use super::crc::crc16;

#[derive(Clone, Debug, PartialEq, Eq)]
pub struct Frame {
    pub ctrl: u8,
    pub dst: u16,
    pub src: u16,
    pub payload: Vec<u8>,
}

pub fn encode(ctrl: u8, dst: u16, src: u16, payload: &[u8]) -> Vec<u8> {
    assert!(payload.len() <= 250);
    let mut out = Vec::with_capacity(292);
    out.extend_from_slice(&[0x05, 0x64, (payload.len() + 5) as u8, ctrl]);
    out.extend_from_slice(&dst.to_le_bytes());
    out.extend_from_slice(&src.to_le_bytes());
    let c = crc16(&out);
    out.extend_from_slice(&c.to_le_bytes());
    for block in payload.chunks(16) {
        out.extend_from_slice(block);
        out.extend_from_slice(&crc16(block).to_le_bytes());
    }
    out
}

impl Frame {
    pub fn encode(&self) -> Vec<u8> {
        encode(self.ctrl, self.dst, self.src, &self.payload)
    }
}

pub fn frame_len(payload_len: usize) -> usize {
    10 + payload_len + 2 * ((payload_len + 15) / 16)
}

pub enum TryFrame {
    /// complete valid frame, and its total length in bytes
    Ok(Frame, usize),
    /// the bytes at this offset cannot be the start of a valid frame (whatever follows)
    Bad,
    /// the bytes so far are a proper prefix of a possible frame
    Incomplete,
}

/// try to read one complete frame at the beginning of `data`
pub fn try_frame(data: &[u8]) -> TryFrame {
    if data.is_empty() {
        return TryFrame::Incomplete;
    }
    if data[0] != 0x05 {
        return TryFrame::Bad;
    }
    if data.len() < 2 {
        return TryFrame::Incomplete;
    }
    if data[1] != 0x64 {
        return TryFrame::Bad;
    }
    if data.len() < 10 {
        return TryFrame::Incomplete;
    }
    let len = data[2] as usize;
    if len < 5 {
        return TryFrame::Bad;
    }
    let c = u16::from_le_bytes([data[8], data[9]]);
    if c != crc16(&data[0..8]) {
        return TryFrame::Bad;
    }
    let plen = len - 5;
    let total = frame_len(plen);
    if data.len() < total {
        // the body is judged only once all of it is present
        return TryFrame::Incomplete;
    }
    let mut payload = Vec::with_capacity(plen);
    let mut pos = 10;
    let mut remaining = plen;
    while remaining > 0 {
        let n = remaining.min(16);
        let block = &data[pos..pos + n];
        let c = u16::from_le_bytes([data[pos + n], data[pos + n + 1]]);
        if c != crc16(block) {
            return TryFrame::Bad;
        }
        payload.extend_from_slice(block);
        pos += n + 2;
        remaining -= n;
    }
    debug_assert_eq!(pos, total);
    TryFrame::Ok(
        Frame {
            ctrl: data[3],
            dst: u16::from_le_bytes([data[4], data[5]]),
            src: u16::from_le_bytes([data[6], data[7]]),
            payload,
        },
        total,
    )
}

/// result of scanning a whole byte string
#[derive(Debug, Clone, PartialEq, Eq)]
pub struct Scan {
    /// frames found, with the offset at which each starts
    pub frames: Vec<(usize, Frame)>,
    /// Close mode only: offset of the first byte that is not part of a frame (None = clean to the end / trailing partial)
    pub error_at: Option<usize>,
}

/// Discard mode: greedy left-to-right; at each offset try a complete frame, else advance one byte.
/// A trailing incomplete candidate (only possible at the end of the data) means "wait for more": stop.
pub fn scan_discard(data: &[u8]) -> Scan {
    let mut frames = Vec::new();
    let mut pos = 0;
    while pos < data.len() {
        match try_frame(&data[pos..]) {
            TryFrame::Ok(f, n) => {
                frames.push((pos, f));
                pos += n;
            }
            TryFrame::Bad => pos += 1,
            TryFrame::Incomplete => break,
        }
    }
    Scan {
        frames,
        error_at: None,
    }
}

/// Discard mode over data that is complete in itself (a datagram): nothing more will arrive, so the incomplete
/// beginning of a frame is noise like any other and the search goes on one byte behind its start.
pub fn scan_discard_complete(data: &[u8]) -> Scan {
    let mut frames = Vec::new();
    let mut pos = 0;
    while pos < data.len() {
        match try_frame(&data[pos..]) {
            TryFrame::Ok(f, n) => {
                frames.push((pos, f));
                pos += n;
            }
            TryFrame::Bad | TryFrame::Incomplete => pos += 1,
        }
    }
    Scan {
        frames,
        error_at: None,
    }
}

/// `data` is the incomplete beginning of a frame (try_frame says Incomplete): can it still become a valid frame, or is it
/// already certain that it cannot (length octet below 5, or a block that is completely present fails its CRC)?
pub fn doomed_prefix(data: &[u8]) -> bool {
    if data.len() >= 3 && data[2] < 5 {
        return true;
    }
    if data.len() < 10 || data[0] != 0x05 || data[1] != 0x64 {
        return false;
    }
    let plen = data[2] as usize - 5;
    let mut pos = 10;
    let mut remaining = plen;
    while remaining > 0 {
        let n = remaining.min(16);
        if data.len() < pos + n + 2 {
            return false;
        }
        let c = u16::from_le_bytes([data[pos + n], data[pos + n + 1]]);
        if c != crc16(&data[pos..pos + n]) {
            return true;
        }
        pos += n + 2;
        remaining -= n;
    }
    false
}

/// Close mode: frames back to back; the first offset that cannot start a frame is an error
pub fn scan_close(data: &[u8]) -> Scan {
    let mut frames = Vec::new();
    let mut pos = 0;
    while pos < data.len() {
        match try_frame(&data[pos..]) {
            TryFrame::Ok(f, n) => {
                frames.push((pos, f));
                pos += n;
            }
            TryFrame::Bad => {
                return Scan {
                    frames,
                    error_at: Some(pos),
                }
            }
            TryFrame::Incomplete => break,
        }
    }
    Scan {
        frames,
        error_at: None,
    }
}
