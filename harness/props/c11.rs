//! C11 — a READ is answered with a complete, consistent snapshot as an orderly series
use crate::outstation::database::UpdateOptions;
use crate::verif::engine::*;
use crate::verif::props::ost::*;
use crate::verif::rig::outstation::*;
use crate::verif::rig::runtime;
use crate::verif::wire::app::{self as ra, func, Fragment, Header};
use proptest::prelude::*;
use serde::{Deserialize, Serialize};
use std::collections::BTreeMap;

#[derive(Clone, Debug, Serialize, Deserialize)]
pub enum RHeader {
    Class0,
    /// event class 1..=3
    Class(u8),
    /// all objects of a type: variation None = "any" (v0), Some(k) = k-th configurable static variation
    All(u8, Option<u8>),
    /// range of a type, 8- or 16-bit qualifier
    Range(u8, Option<u8>, u16, u16, bool),
}

#[derive(Clone, Debug, Serialize, Deserialize, PartialEq)]
pub enum Conf {
    Right,
    /// wrong sequence number first (nothing may be sent), then right
    WrongThenRight(u8),
    /// right number but the UNS bit set (nothing may be sent), then right
    UnsolBitThenRight,
    /// wait almost the whole confirm timeout, then right
    SlowRight,
    /// let the confirm time out; a late right confirm must produce nothing
    Missing,
    /// another request arrives instead; a late right confirm must produce nothing
    NewRequest,
    Disconnect,
    /// a new connection pre-empts the session (no disconnect first): the series ends with the connection
    Preempt,
    /// like Missing, but something that must be ignored arrives after 2/3 of the time-out (see `distraction`): the
    /// time-out still counts from the transmission of the fragment
    MissingDistracted(u8),
    /// like SlowRight with such a fragment half way: the right confirmation just before the time-out still counts
    SlowRightDistracted(u8),
}

/// what keeps arriving while the confirmation is missing (it must not postpone the time-out): 0 a CONFIRM with another
/// sequence number, 1 a CONFIRM with the UNS bit, 2 a link status request
pub fn distraction(rig: &mut OutRig, kind: u8, seq: u8) {
    match kind % 3 {
        0 => rig.send(&Fragment::confirm((seq + 5) & 0x0F, false)),
        1 => rig.send(&Fragment::confirm(seq, true)),
        _ => {
            let b = crate::verif::wire::link::encode(0xC9, OUTSTATION_ADDR, MASTER_ADDR, &[]);
            rig.send_raw(&b);
        }
    }
}

#[derive(Clone, Debug, Serialize, Deserialize)]
pub struct Case {
    pub points: Vec<PointSpec>,
    pub headers: Vec<RHeader>,
    pub sol_tx: u16,
    pub seq: u8,
    /// updates applied after fragment k was received (k = position in this list), each = point selector
    pub updates: Vec<Vec<u16>>,
    pub confs: Vec<Conf>,
    pub flags_seed: u8,
}

pub const TIMEOUT: u64 = 100;

fn svar_of(ty: u8, k: Option<u8>) -> Option<u8> {
    k.map(|k| {
        let v = STATIC_VARS[ty as usize];
        v[k as usize % v.len()]
    })
}

fn encode_request(case: &Case) -> Vec<u8> {
    let mut o = vec![];
    for h in &case.headers {
        match h {
            RHeader::Class0 => o.extend(ra::h_all(60, 1)),
            RHeader::Class(c) => o.extend(ra::h_all(60, 1 + (*c).clamp(1, 3))),
            RHeader::All(ty, v) => {
                let ty = *ty % 8;
                let var = if ty == 7 {
                    0
                } else {
                    svar_of(ty, *v).unwrap_or(0)
                };
                o.extend(ra::h_all(STATIC_GROUP[ty as usize], var));
            }
            RHeader::Range(ty, v, a, b, wide) => {
                let ty = *ty % 8;
                let var = if ty == 7 {
                    0
                } else {
                    svar_of(ty, *v).unwrap_or(0)
                };
                let (a, b) = (*a.min(b), *a.max(b));
                if *wide || b > 255 {
                    o.extend(ra::h_range16(STATIC_GROUP[ty as usize], var, a, b, &[]));
                } else {
                    o.extend(ra::h_range8(
                        STATIC_GROUP[ty as usize],
                        var,
                        a as u8,
                        b as u8,
                        &[],
                    ));
                }
            }
        }
    }
    o
}

/// (type, index, requested variation) blocks the request asks for, in request order; class 0 = one unordered group
enum Block {
    Ordered(Vec<(u8, u16, Option<u8>)>),
    AnyTypeOrder(Vec<Vec<(u8, u16, Option<u8>)>>),
}

fn expected_blocks(case: &Case, db: &BTreeMap<(u8, u16), (PointSpec, Rec)>) -> Vec<Block> {
    let of_type = |ty: u8, lo: u16, hi: u16, v: Option<u8>| -> Vec<(u8, u16, Option<u8>)> {
        db.keys()
            .filter(|(t, i)| *t == ty && *i >= lo && *i <= hi)
            .map(|(t, i)| (*t, *i, v))
            .collect()
    };
    let mut out = vec![];
    for h in &case.headers {
        match h {
            RHeader::Class0 => {
                out.push(Block::AnyTypeOrder(
                    (0..8u8)
                        .map(|ty| of_type(ty, 0, 65535, None))
                        .filter(|b| !b.is_empty())
                        .collect(),
                ));
            }
            RHeader::Class(_) => {}
            RHeader::All(ty, v) => out.push(Block::Ordered(of_type(
                *ty % 8,
                0,
                65535,
                if *ty % 8 == 7 {
                    None
                } else {
                    svar_of(*ty % 8, *v)
                },
            ))),
            RHeader::Range(ty, v, a, b, _) => out.push(Block::Ordered(of_type(
                *ty % 8,
                *a.min(b),
                *a.max(b),
                if *ty % 8 == 7 {
                    None
                } else {
                    svar_of(*ty % 8, *v)
                },
            ))),
        }
    }
    out
}

fn static_type(g: u8) -> Option<u8> {
    STATIC_GROUP.iter().position(|x| *x == g).map(|x| x as u8)
}

/// does the wire object carry the snapshot value of the point, in an admissible variation?
fn check_object(
    spec: &PointSpec,
    rec: &Rec,
    requested: Option<u8>,
    g: u8,
    v: u8,
    data: &[u8],
) -> Result<(), String> {
    let ty = spec.ty;
    if ty == 7 {
        return if data == &rec.bytes[..] {
            Ok(())
        } else {
            Err(format!(
                "octet string {:02x?} != snapshot {:02x?}",
                data, rec.bytes
            ))
        };
    }
    let base = requested.unwrap_or(spec.svar);
    let plain_online = match ty {
        0 | 2 => rec.flags & 0x7F == 0x01,
        1 => rec.flags & 0x3F == 0x01,
        _ => true,
    };
    let allowed = if matches!(ty, 0 | 1 | 2) && base == 1 && !plain_online {
        2
    } else {
        base
    };
    if v != allowed {
        return Err(format!("reported as g{g}v{v}, expected variation {allowed} (requested {:?}, configured {}, flags {:#04x})", requested, spec.svar, rec.flags));
    }
    let m = ra::decode_meas(g, v, data).ok_or_else(|| format!("g{g}v{v} not decodable"))?;
    if let Some(f) = m.flags {
        if f != rec.flags {
            return Err(format!("flags {:#04x} != snapshot {:#04x}", f, rec.flags));
        }
    }
    let ok = match m.val {
        ra::Val::Bool(b) => (rec.value != 0.0) == b,
        ra::Val::Dbl(d) => rec.value as u8 == d,
        ra::Val::U32(x) => rec.value as u32 == x,
        ra::Val::F64(x) => rec.value == x,
        ra::Val::F32(x) => (rec.value as f32) == x,
        ra::Val::None => false,
    };
    if !ok {
        return Err(format!("value {:?} != snapshot {}", m.val, rec.value));
    }
    if let Some(t) = m.time {
        if Some(t) != rec.time.map(|x| x.0) {
            return Err(format!("time {} != snapshot {:?}", t, rec.time));
        }
    }
    Ok(())
}

pub struct Snapshot;

impl Prop for Snapshot {
    type Case = Case;
    const ID: &'static str = "C11";
    const NAME: &'static str = "snapshot";
    fn rule() -> &'static str {
        "databases of 1..90 points (all 8 types, sparse indices up to 65535, every static variation, arbitrary flags), READs of 1-4 headers (class 0, classes 1-3, gNNv0 / specific variation, all-objects or 8/16-bit ranges, overlapping and empty), solicited tx buffers 249..2048, updates to reported and not-yet-reported points between any two fragments, per-fragment confirm behaviour (right / wrong seq then right / UNS bit then right / slow / missing / new request / disconnect); oracle: mirror snapshot taken when the READ is sent; concatenated over the series each request header yields exactly its existing points, ascending, value == snapshot, variation requested/configured/promoted; events before static data; FIR first only, FIN last only, consecutive sequence numbers from the request's, CON on every non-final or event-bearing fragment; nothing is transmitted on wrong confirms or before the right one, the next fragment follows the right confirm at once; after timeout/new request/disconnect a late confirm produces nothing and the next READ starts a fresh series; non-trivial = >= 2 fragments with an update to a not-yet-reported point in between"
    }
    fn cases(tier: Tier) -> u32 {
        match tier {
            Tier::Quick => 120_000,
            Tier::Thorough => 4_800_000,
        }
    }
    fn floors() -> Vec<(&'static str, u32)> {
        vec![
            ("multi_fragment", 80),
            ("update_to_unreported_point", 30),
            ("series_aborted", 30),
            ("distracted_wait", 20),
            ("preempted", 10),
        ]
    }
    fn strategy(_tier: Tier) -> BoxedStrategy<Case> {
        let idx = prop_oneof![4 => 0u16..40, 1 => 0u16..300, 1 => prop_oneof![Just(255u16), Just(256), Just(65535), Just(65534)]];
        let point = (0u8..8, idx.clone(), 0u8..=3, any::<u8>(), any::<u8>()).prop_map(
            |(ty, index, class, s, e)| {
                let sv = STATIC_VARS[ty as usize];
                let ev = EVENT_VARS[ty as usize];
                PointSpec {
                    ty,
                    index,
                    class,
                    svar: sv[s as usize % sv.len()],
                    evar: ev[e as usize % ev.len()],
                }
            },
        );
        // runs of consecutive points of one type make multi-fragment responses likely
        let run = prop_oneof![
            8 => (0u8..8, 0u16..60, prop_oneof![3 => 1u16..60, 1 => 60u16..200], any::<u8>()).prop_map(|(ty, start, n, s)| {
                let sv = STATIC_VARS[ty as usize];
                (0..n).map(|i| PointSpec { ty, index: start + i, class: 0, svar: sv[s as usize % sv.len()], evar: EVENT_VARS[ty as usize][0] }).collect::<Vec<_>>()
            }),
            // long runs of bit-packed points: a fragment boundary falls inside the packed header
            1 => (0u8..3, 0u16..20, 1000u16..2600).prop_map(|(ty, start, n)| {
                (0..n).map(|i| PointSpec { ty, index: start + i, class: 0, svar: 1, evar: EVENT_VARS[ty as usize][0] }).collect::<Vec<_>>()
            }),
        ];
        let header = prop_oneof![
            3 => Just(RHeader::Class0),
            1 => (1u8..=3).prop_map(RHeader::Class),
            2 => (0u8..8, proptest::option::of(any::<u8>())).prop_map(|(t, v)| RHeader::All(t, v)),
            2 => (0u8..8, proptest::option::of(any::<u8>()), idx.clone(), idx, any::<bool>()).prop_map(|(t, v, a, b, w)| RHeader::Range(t, v, a, b, w)),
        ];
        let conf = prop_oneof![
            8 => Just(Conf::Right),
            1 => any::<u8>().prop_map(Conf::WrongThenRight),
            1 => Just(Conf::UnsolBitThenRight),
            1 => Just(Conf::SlowRight),
            1 => Just(Conf::Missing),
            1 => Just(Conf::NewRequest),
            1 => Just(Conf::Disconnect),
            1 => Just(Conf::Preempt),
            1 => (0u8..3).prop_map(Conf::MissingDistracted),
            1 => (0u8..3).prop_map(Conf::SlowRightDistracted),
        ];
        (
            proptest::collection::vec(point, 0..12),
            proptest::collection::vec(run, 0..3),
            proptest::collection::vec(header, 1..=4),
            prop_oneof![3 => Just(249u16), 2 => 249u16..500, 1 => Just(2048u16)],
            0u8..16,
            proptest::collection::vec(proptest::collection::vec(any::<u16>(), 0..4), 8),
            proptest::collection::vec(conf, 12),
            any::<u8>(),
        )
            .prop_map(
                |(mut points, runs, headers, sol_tx, seq, updates, confs, flags_seed)| {
                    for r in runs {
                        points.extend(r);
                    }
                    points.sort_by_key(|p| (p.ty, p.index));
                    points.dedup_by_key(|p| (p.ty, p.index));
                    if points.is_empty() {
                        points.push(PointSpec {
                            ty: 0,
                            index: 0,
                            class: 1,
                            svar: 1,
                            evar: 1,
                        });
                    }
                    Case {
                        points,
                        headers,
                        sol_tx,
                        seq,
                        updates,
                        confs,
                        flags_seed,
                    }
                },
            )
            .boxed()
    }
    fn run(case: &Case) -> CaseOut {
        let rt = runtime();
        rt.block_on(run_case(case))
    }
}

fn rec_for(p: &PointSpec, serial: u32, flags_seed: u8) -> Rec {
    let mut r = unique_rec(p.ty, p.index, serial, serial, 0);
    // arbitrary quality flags (state bits stay consistent with the value), so that packed variations get promoted
    let q = ((p.index as u8).wrapping_mul(31) ^ flags_seed ^ (serial as u8).wrapping_mul(7)) & 0x3E;
    let q = if (p.index as u8 ^ flags_seed) % 3 == 0 {
        q
    } else {
        0
    };
    match p.ty {
        0 | 2 => r.flags = (r.flags & 0x81) | (q & 0x7E),
        1 => r.flags = (r.flags & 0xC1) | (q & 0x3E),
        7 => {
            // one case in eight carries long octet strings: 238 octets is the longest that fits a 249-octet fragment
            // (4 header + 3 object header + 4 range + 238), 255 the longest there is
            if flags_seed % 8 == 0 && p.index % 3 == 0 {
                let len = [100usize, 200, 238, 239, 255, 17]
                    [(p.index as usize / 3 + serial as usize) % 6];
                while r.bytes.len() < len {
                    r.bytes.push((r.bytes.len() as u8) ^ (serial as u8));
                }
            }
        }
        _ => r.flags = 0x01 | (q & 0x7E),
    }
    r
}

/// an octet string of `len` octets needs 3 (object header) + 4 (16-bit range, or count + index for an event) + len
/// octets after the 4-octet response header: can it ever be transmitted with this buffer?
fn oversized(len: usize, sol_tx: u16) -> bool {
    len + 7 > sol_tx as usize - 4
}

async fn run_case(case: &Case) -> CaseOut {
    let mut out = CaseOut::default();
    let mut cfg = OutConfig::default();
    cfg.sol_tx = case.sol_tx;
    cfg.confirm_timeout_ms = TIMEOUT as u32;
    cfg.event_buffer = [200; 8];
    cfg.class_zero_octet_strings = true;
    cfg.max_read_headers = Some(64);
    let mut rig = OutRig::start(cfg, AppBehaviour::default()).await;
    // mirror database
    let mut db: BTreeMap<(u8, u16), (PointSpec, Rec)> = BTreeMap::new();
    let mut serial = 0u32;
    let wants_events = case.headers.iter().any(|h| matches!(h, RHeader::Class(_)));
    rig.db(|d| {
        for p in &case.points {
            add_point(d, p);
        }
    });
    for p in &case.points {
        serial += 1;
        let r = rec_for(p, serial, case.flags_seed);
        let opt = if wants_events {
            UpdateOptions::detect_event()
        } else {
            UpdateOptions::no_event()
        };
        rig.db(|d| update_point(d, &r, opt));
        db.insert((p.ty, p.index), (p.clone(), r));
    }
    rig.settle().await;
    let _ = rig.take_tx();

    // --- the READ: the snapshot is the mirror as of now ---
    let snapshot = db.clone();
    let req = Fragment::request(case.seq, func::READ, encode_request(case));
    rig.send(&req);
    rig.settle().await;

    let mut series: Vec<Fragment> = vec![];
    let mut aborted = false;
    let mut reported: Vec<(u8, u16)> = vec![];
    let mut k = 0usize;
    loop {
        let tx = rig.take_tx();
        let frags: Vec<Fragment> = tx
            .iter()
            .filter_map(|t| match t {
                Tx::Fragment { bytes, .. } => Fragment::parse(bytes),
                _ => None,
            })
            .collect();
        if tx.iter().any(|t| matches!(t, Tx::Garbage { .. })) {
            out.fail(Fail::new("malformed-transmission", format!("{:?}", tx)));
            return out;
        }
        if frags.len() != 1 {
            out.fail(Fail::new(
                "series-gating",
                format!("expected exactly one fragment after {} of the series, the outstation transmitted {}", if k == 0 { "the READ".to_string() } else { format!("the confirmation of fragment #{}", k - 1) }, frags.len()),
            ));
            return out;
        }
        let f = frags.into_iter().next().unwrap();
        // shape
        let exp_seq = ((case.seq as usize + k) & 0x0F) as u8;
        if f.func != func::RESPONSE || f.uns || f.seq != exp_seq || f.fir != (k == 0) {
            out.fail(Fail::new("series-shape", format!("fragment #{k}: func={} uns={} fir={} seq={} (expected solicited, fir={}, seq={})", f.func, f.uns, f.fir, f.seq, k == 0, exp_seq)));
            return out;
        }
        let headers = match f.headers() {
            Ok(h) => h,
            Err(e) => {
                out.fail(Fail::new(
                    "unparsable-response",
                    format!("fragment #{k}: {:?}", e),
                ));
                return out;
            }
        };
        let has_events = headers
            .iter()
            .any(|h| ra::is_event_group(h.g) && !h.objects.is_empty());
        if (!f.fin || has_events) && !f.con {
            out.fail(Fail::new(
                "series-shape",
                format!(
                    "fragment #{k} is {} but does not request confirmation",
                    if !f.fin { "not final" } else { "event-bearing" }
                ),
            ));
            return out;
        }
        for h in &headers {
            if let Some(ty) = static_type(h.g) {
                for o in &h.objects {
                    reported.push((ty, o.index.unwrap_or(0) as u16));
                }
            }
        }
        if !f.fin && headers.iter().all(|h| h.objects.is_empty()) {
            // a fragment that is not the last one and reports nothing: the series makes no progress
            let asked: Vec<(u8, u16)> = expected_blocks(case, &snapshot)
                .into_iter()
                .flat_map(|b| match b {
                    Block::Ordered(v) => v,
                    Block::AnyTypeOrder(v) => v.into_iter().flatten().collect(),
                })
                .map(|(t, i, _)| (t, i))
                .collect();
            let too_long = snapshot
                .values()
                .filter(|(p, r)| {
                    r.ty == 7
                        && oversized(r.bytes.len(), case.sol_tx)
                        && (asked.contains(&(7, p.index)) || (wants_events && p.class != 0))
                })
                .map(|(p, r)| format!("octet string {} of {} octets", p.index, r.bytes.len()))
                .next();
            out.fail(
                Fail::new(
                    "empty-non-final-fragment",
                    format!(
                        "fragment #{k} of the series is not final and carries no object (transmit buffer {}{})",
                        case.sol_tx,
                        too_long.as_ref().map(|t| format!("; the database holds {t}, which cannot fit any fragment")).unwrap_or_default()
                    ),
                )
                .with_sig(format!(
                    "C11 empty-non-final-fragment {}",
                    if too_long.is_some() { "object-larger-than-fragment" } else { "all-objects-fit" }
                )),
            );
            return out;
        }
        series.push(f.clone());
        if f.fin && !f.con {
            break;
        }
        // updates between fragments: the snapshot must not move
        if let Some(us) = case.updates.get(k) {
            for u in us {
                let p = &case.points[(*u as usize * case.points.len()) >> 16];
                serial += 1;
                let r = rec_for(p, serial, case.flags_seed.wrapping_add(serial as u8));
                rig.db(|d| update_point(d, &r, UpdateOptions::no_event()));
                if !reported.contains(&(p.ty, p.index)) {
                    out.label("update_to_unreported_point");
                    if series.len() >= 1 && !f.fin {
                        out.nontrivial = true;
                    }
                }
                db.insert((p.ty, p.index), (p.clone(), r));
            }
            rig.settle().await;
            if !rig.take_tx().is_empty() {
                out.fail(Fail::new(
                    "series-gating",
                    "a database update during the confirm wait caused a transmission",
                ));
                return out;
            }
        }
        let conf = case.confs.get(k).cloned().unwrap_or(Conf::Right);
        let quiet = |rig: &mut OutRig, what: &str| -> Option<Fail> {
            let tx = rig.take_tx();
            if tx.iter().any(|t| matches!(t, Tx::Fragment { .. })) {
                Some(Fail::new(
                    "series-gating",
                    format!("{what}: the outstation transmitted {:?}", tx),
                ))
            } else {
                None
            }
        };
        match conf {
            Conf::Right => {}
            Conf::WrongThenRight(d) => {
                rig.advance(TIMEOUT / 3).await;
                rig.send(&Fragment::confirm((f.seq + 1 + d % 15) & 0x0F, false));
                rig.settle().await;
                if let Some(x) = quiet(&mut rig, "after a confirm with the wrong sequence number") {
                    out.fail(x);
                    return out;
                }
            }
            Conf::UnsolBitThenRight => {
                rig.send(&Fragment::confirm(f.seq, true));
                rig.settle().await;
                if let Some(x) = quiet(&mut rig, "after a confirm with the UNS bit") {
                    out.fail(x);
                    return out;
                }
            }
            Conf::SlowRight => {
                rig.advance(TIMEOUT - 1).await;
                if let Some(x) = quiet(&mut rig, "while waiting (less than the confirm timeout)") {
                    out.fail(x);
                    return out;
                }
            }
            Conf::SlowRightDistracted(kind) => {
                rig.advance(TIMEOUT / 2).await;
                distraction(&mut rig, kind, f.seq);
                rig.advance(TIMEOUT / 2 - 1).await;
                // (a link status request is answered at the link layer; no application fragment may be sent)
                if let Some(x) = quiet(&mut rig, "while waiting (less than the confirm timeout, one ignored fragment in between)") {
                    out.fail(x);
                    return out;
                }
                out.label("distracted_wait");
            }
            Conf::Missing
            | Conf::NewRequest
            | Conf::Disconnect
            | Conf::Preempt
            | Conf::MissingDistracted(_) => {
                aborted = true;
                out.label("series_aborted");
                match conf {
                    Conf::Missing => rig.advance(TIMEOUT + 1).await,
                    Conf::MissingDistracted(kind) => {
                        rig.advance(TIMEOUT * 2 / 3).await;
                        distraction(&mut rig, kind, f.seq);
                        rig.advance(TIMEOUT * 2 / 3).await;
                        out.label("distracted_wait");
                    }
                    Conf::Preempt => {
                        rig.connect().await;
                        out.label("preempted");
                    }
                    Conf::NewRequest => {
                        rig.send(&Fragment::request(
                            (case.seq + 9) & 0x0F,
                            func::DELAY_MEASURE,
                            vec![],
                        ));
                        rig.settle().await;
                        let tx = rig.take_fragments();
                        if tx.len() != 1
                            || tx[0].seq != (case.seq + 9) & 0x0F
                            || !tx[0].fir
                            || !tx[0].fin
                        {
                            out.fail(Fail::new(
                                "new-request-during-series",
                                format!(
                                    "the request that interrupts the series was answered with {:?}",
                                    tx
                                ),
                            ));
                            return out;
                        }
                    }
                    _ => {
                        rig.disconnect().await;
                        rig.connect().await;
                    }
                }
                if let Some(x) = quiet(&mut rig, "after the series ended") {
                    out.fail(x);
                    return out;
                }
                // a late right confirm produces nothing
                rig.send(&Fragment::confirm(f.seq, false));
                rig.settle().await;
                if let Some(x) = quiet(&mut rig, "late confirmation after the series had ended") {
                    out.fail(x);
                    return out;
                }
                break;
            }
        }
        // the right confirm: the next fragment (if any) follows at once
        rig.send(&Fragment::confirm(f.seq, false));
        rig.settle().await;
        if f.fin {
            if let Some(x) = quiet(&mut rig, "after the confirmation of the final fragment") {
                out.fail(x);
                return out;
            }
            break;
        }
        k += 1;
        if k > 400 {
            out.fail(Fail::new("series-never-ends", "more than 400 fragments"));
            return out;
        }
    }
    if series.len() >= 2 {
        out.label("multi_fragment");
    }

    // --- content (only a series that ran to its end is complete) ---
    let mut all: Vec<(usize, Header)> = vec![];
    for (i, f) in series.iter().enumerate() {
        for h in f.headers().unwrap_or_default() {
            all.push((i, h));
        }
    }
    // events before static data
    let first_static = all.iter().position(|(_, h)| static_type(h.g).is_some());
    let last_event = all
        .iter()
        .rposition(|(_, h)| ra::is_event_group(h.g) && !h.objects.is_empty());
    if let (Some(s), Some(e)) = (first_static, last_event) {
        if e > s {
            out.fail(Fail::new(
                "events-after-static",
                "an event object follows static data in the response series",
            ));
        }
    }
    // packed objects split across fragments
    for w in all.windows(2) {
        if w[0].0 != w[1].0
            && w[0].1.g == w[1].1.g
            && w[0].1.v == 1
            && w[1].1.v == 1
            && matches!(w[0].1.g, 1 | 3 | 10)
        {
            out.label("packed_split");
        }
    }
    let wire: Vec<(u8, u16, u8, u8, Vec<u8>)> = all
        .iter()
        .filter_map(|(_, h)| static_type(h.g).map(|ty| (ty, h)))
        .flat_map(|(ty, h)| {
            h.objects
                .iter()
                .map(move |o| (ty, o.index.unwrap_or(0) as u16, h.g, h.v, o.data.clone()))
        })
        .collect();
    let blocks = expected_blocks(case, &snapshot);
    let mut p = 0usize;
    let check_seq =
        |exp: &[(u8, u16, Option<u8>)], got: &[(u8, u16, u8, u8, Vec<u8>)], out: &mut CaseOut| {
            for (e, g) in exp.iter().zip(got.iter()) {
                if (e.0, e.1) != (g.0, g.1) {
                    out.fail(Fail::new(
                        "snapshot-points",
                        format!(
                            "expected {} index {} next, the series reports {} index {}",
                            TYPE_NAMES[e.0 as usize], e.1, TYPE_NAMES[g.0 as usize], g.1
                        ),
                    ));
                    return;
                }
                let (spec, rec) = &snapshot[&(e.0, e.1)];
                if let Err(why) = check_object(spec, rec, e.2, g.2, g.3, &g.4) {
                    out.fail(
                        Fail::new(
                            "snapshot-value",
                            format!("{} index {}: {why}", TYPE_NAMES[e.0 as usize], e.1),
                        )
                        .with_sig(format!(
                            "C11 snapshot-value {}",
                            if why.contains("variation") {
                                "variation"
                            } else {
                                "content"
                            }
                        )),
                    );
                    return;
                }
            }
        };
    for b in &blocks {
        if out.failed() {
            break;
        }
        match b {
            Block::Ordered(exp) => {
                let avail = wire.len() - p;
                let n = exp.len().min(avail);
                check_seq(&exp[..n], &wire[p..p + n], &mut out);
                p += n;
                if n < exp.len() && !aborted && !out.failed() {
                    out.fail(Fail::new(
                        "snapshot-points",
                        format!(
                            "the series ended but {} index {} (and {} more) were never reported",
                            TYPE_NAMES[exp[n].0 as usize],
                            exp[n].1,
                            exp.len() - n - 1
                        ),
                    ));
                }
            }
            Block::AnyTypeOrder(groups) => {
                let mut remaining: Vec<&Vec<(u8, u16, Option<u8>)>> = groups.iter().collect();
                while !remaining.is_empty() && p < wire.len() && !out.failed() {
                    let ty = wire[p].0;
                    match remaining.iter().position(|g| g[0].0 == ty) {
                        None => {
                            out.fail(Fail::new(
                                "snapshot-points",
                                format!(
                                    "class 0: unexpected (or repeated) block of {} at index {}",
                                    TYPE_NAMES[ty as usize], wire[p].1
                                ),
                            ));
                        }
                        Some(i) => {
                            let exp = remaining.remove(i);
                            let n = exp.len().min(wire.len() - p);
                            check_seq(&exp[..n], &wire[p..p + n], &mut out);
                            p += n;
                            if n < exp.len() && !aborted && !out.failed() {
                                out.fail(Fail::new(
                                    "snapshot-points",
                                    format!(
                                        "class 0: {} block incomplete",
                                        TYPE_NAMES[ty as usize]
                                    ),
                                ));
                            }
                        }
                    }
                }
                if !remaining.is_empty() && !aborted && !out.failed() {
                    out.fail(Fail::new(
                        "snapshot-points",
                        format!(
                            "class 0: no data reported for {}",
                            TYPE_NAMES[remaining[0][0].0 as usize]
                        ),
                    ));
                }
            }
        }
    }
    if !out.failed() && p < wire.len() {
        out.fail(Fail::new("snapshot-points", format!("the series reports {} index {} which no request header asks for (or a second time)", TYPE_NAMES[wire[p].0 as usize], wire[p].1)));
    }

    // --- a following READ starts a fresh series ---
    // (the probe point is one that fits a fragment: see the known finding about objects that do not)
    let probe_point = db
        .values()
        .find(|(_, r)| !(r.ty == 7 && oversized(r.bytes.len(), case.sol_tx)))
        .cloned();
    if let (false, Some((spec, rec))) = (out.failed(), probe_point) {
        // a READ of exactly one existing point: the answer is one FIR+FIN fragment holding that point's CURRENT value
        // and nothing else - in particular nothing left over from the series that has just ended
        let s2 = (case.seq + 3) & 0x0F;
        let hdr = RHeader::Range(spec.ty, None, spec.index, spec.index, spec.index > 255);
        let probe = Case {
            points: vec![],
            headers: vec![hdr],
            sol_tx: case.sol_tx,
            seq: s2,
            updates: vec![],
            confs: vec![],
            flags_seed: 0,
        };
        rig.send(&Fragment::request(s2, func::READ, encode_request(&probe)));
        rig.settle().await;
        let f = rig.take_fragments();
        if f.len() != 1 || !f[0].fir || !f[0].fin || f[0].seq != s2 {
            out.fail(Fail::new(
                "fresh-series",
                format!(
                    "the READ after the series was answered with {} fragments, first {:?}",
                    f.len(),
                    f.first().map(|x| (x.fir, x.fin, x.seq))
                ),
            ));
        } else {
            let objs: Vec<(u8, u32, u8, u8, Vec<u8>)> = f[0]
                .headers()
                .unwrap_or_default()
                .into_iter()
                .filter_map(|h| static_type(h.g).map(|ty| (ty, h)))
                .flat_map(|(ty, h)| {
                    h.objects
                        .clone()
                        .into_iter()
                        .map(move |o| (ty, o.index.unwrap_or(0), h.g, h.v, o.data))
                })
                .collect();
            if objs.len() != 1 || objs[0].0 != spec.ty || objs[0].1 != spec.index as u32 {
                out.fail(
                    Fail::new(
                        "fresh-series",
                        format!("a READ of {} index {} after the series was answered with {} static objects: {:?}", TYPE_NAMES[spec.ty as usize], spec.index, objs.len(), objs.iter().take(6).map(|o| (o.0, o.1)).collect::<Vec<_>>()),
                    )
                    .with_sig("C11 fresh-series leftover".to_string()),
                );
            } else if let Err(why) =
                check_object(&spec, &rec, None, objs[0].2, objs[0].3, &objs[0].4)
            {
                out.fail(Fail::new(
                    "fresh-series",
                    format!("a READ after the series does not report the current value: {why}"),
                ));
            }
        }
    }
    if let Some(f) = rig.task_failure.take() {
        out.fail(f);
    }
    out
}

pub fn run<C: Codec>(tier: Tier) -> i32 {
    let mut ctx = Ctx::<C>::new("C11", tier);
    ctx.assumptions.push("point add/remove during a series, and requests with more headers than max_read_request_headers, are outside the claimed domain; the order of the point types inside a class-0 expansion is not asserted".into());
    ctx.run::<Snapshot>();
    ctx.finish()
}

pub fn replay<C: Codec>(text: &str, known: &[Known]) -> Option<i32> {
    replay_file::<C, Snapshot>(text, known)
}
