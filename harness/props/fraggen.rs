//! grammar-based generator of application fragments (from the reference size table) with mutations;
//! shared by C01 (no crash) and C09 (accept => exact)
use crate::verif::props::c06::pseudo_bytes;
use crate::verif::wire::app::{layout, Layout};
use proptest::prelude::*;
use serde::{Deserialize, Serialize};

pub const QUALS: [u8; 8] = [0x00, 0x01, 0x06, 0x07, 0x08, 0x17, 0x28, 0x5B];

#[derive(Clone, Debug, Serialize, Deserialize)]
pub struct HdrSpec {
    pub g: u8,
    pub v: u8,
    /// qualifier code (any octet; mostly one of QUALS)
    pub q: u8,
    /// start / count
    pub a: u16,
    /// stop
    pub b: u16,
    pub seed: u32,
}

#[derive(Clone, Debug, Serialize, Deserialize)]
pub enum Mutation {
    Truncate(u16),
    Extend(Vec<u8>),
    Flip(u16, u8),
    Set(u16, u8),
}

#[derive(Clone, Debug, Serialize, Deserialize)]
pub struct FragSpec {
    pub ctrl: u8,
    pub func: u8,
    pub iin: (u8, u8),
    pub headers: Vec<HdrSpec>,
    pub muts: Vec<Mutation>,
}

pub const MAX_FRAGMENT: usize = 2300;

fn attr_value(seed: u32) -> Vec<u8> {
    let b = pseudo_bytes(seed as u64, 12);
    match seed % 9 {
        0 => vec![1, 3, b'a', b'b', b'c'],
        1 => vec![
            2,
            [1u8, 2, 4][(seed as usize / 9) % 3],
            b[0],
            b[1],
            b[2],
            b[3],
        ]
        .into_iter()
        .take(2 + [1usize, 2, 4][(seed as usize / 9) % 3])
        .collect(),
        2 => vec![3, 2, b[0], b[1]],
        3 => vec![4, 4, b[0], b[1], b[2], b[3]],
        4 => vec![4, 8, b[0], b[1], b[2], b[3], b[4], b[5], b[6], b[7]],
        5 => vec![5, 3, b[0], b[1], b[2]],
        6 => vec![7, 6, b[0], b[1], b[2], b[3], b[4], b[5]],
        7 => vec![254, 4, 1, 0, 2, 1],
        _ => vec![b[0], b[1] % 8, b[2], b[3], b[4], b[5], b[6], b[7], b[8]]
            .into_iter()
            .take(2 + (b[1] % 8) as usize)
            .collect(),
    }
}

/// header octets + the object octets the reference table implies (capped)
pub fn build_header(h: &HdrSpec, function: u8, budget: usize) -> Vec<u8> {
    let mut o = vec![h.g, h.v, h.q];
    let lay = layout(h.g, h.v);
    let data = |n: usize, per: usize| -> Vec<u8> {
        pseudo_bytes(h.seed as u64 | 1 << 40, (n * per).min(budget))
    };
    match h.q {
        0x06 => {}
        0x00 | 0x01 => {
            let (a, b) = if h.q == 0 {
                (h.a & 0xFF, h.b & 0xFF)
            } else {
                (h.a, h.b)
            };
            if h.q == 0 {
                o.push(a as u8);
                o.push(b as u8);
            } else {
                o.extend_from_slice(&a.to_le_bytes());
                o.extend_from_slice(&b.to_le_bytes());
            }
            let n = if b >= a { (b - a) as usize + 1 } else { 0 };
            if function != 1 {
                match lay {
                    Some(Layout::Fixed(sz)) => o.extend(data(n, sz)),
                    Some(Layout::Bit) => o.extend(data((n + 7) / 8, 1)),
                    Some(Layout::DoubleBit) => o.extend(data((n + 3) / 4, 1)),
                    Some(Layout::Octets) => o.extend(data(n, h.v as usize)),
                    Some(Layout::Attr) => o.extend(attr_value(h.seed)),
                    _ => {}
                }
            }
        }
        0x07 | 0x08 => {
            let n = if h.q == 0x07 {
                (h.a & 0xFF) as usize
            } else {
                h.a as usize
            };
            if h.q == 0x07 {
                o.push(h.a as u8);
            } else {
                o.extend_from_slice(&h.a.to_le_bytes());
            }
            if matches!(h.g, 50 | 51 | 52) {
                if let Some(Layout::Fixed(sz)) = lay {
                    o.extend(data(n, sz));
                }
            }
        }
        0x17 | 0x28 => {
            let n = if h.q == 0x17 {
                (h.a & 0xFF) as usize
            } else {
                h.a as usize
            };
            let prefix = if h.q == 0x17 { 1 } else { 2 };
            if h.q == 0x17 {
                o.push(h.a as u8);
            } else {
                o.extend_from_slice(&h.a.to_le_bytes());
            }
            match lay {
                Some(Layout::Fixed(sz)) => o.extend(data(n, sz + prefix)),
                Some(Layout::Octets) => o.extend(data(n, h.v as usize + prefix)),
                Some(Layout::Attr) => {
                    o.extend(pseudo_bytes(h.seed as u64, prefix));
                    o.extend(attr_value(h.seed));
                }
                _ => {}
            }
        }
        0x5B => {
            // free format (group 70): a body of 16-bit fields drawn from boundary values (offsets, sizes, block numbers
            // of the file objects) followed by a few octets of text; the declared length is mostly the real one
            o.push(if h.seed % 11 == 0 {
                (h.a & 0xFF) as u8
            } else {
                1
            });
            let fields = [
                0u16, 1, 2, 8, 12, 16, 20, 26, 0x00FF, 0x0100, 0x7FFF, 0x8000, 0xFFF0, 0xFFF3,
                0xFFF4, 0xFFF8, 0xFFFE, 0xFFFF,
            ];
            let nf = 1 + (h.b as usize % 12);
            let mut body = vec![];
            let mut x = h.seed as usize;
            for _ in 0..nf {
                x = x
                    .wrapping_mul(6364136223846793005usize)
                    .wrapping_add(1442695040888963407usize);
                let v = if (x >> 20) % 4 == 0 {
                    (x >> 32) as u16
                } else {
                    fields[(x >> 24) % fields.len()]
                };
                body.extend_from_slice(&v.to_le_bytes());
            }
            body.extend(data((h.seed as usize >> 5) % 9, 1));
            let declared = if h.seed % 13 == 0 {
                h.a
            } else {
                body.len() as u16
            };
            o.extend_from_slice(&declared.to_le_bytes());
            o.extend(body);
        }
        _ => {
            o.extend(data((h.a % 8) as usize, 1));
        }
    }
    o
}

pub fn build(spec: &FragSpec) -> Vec<u8> {
    let mut out = vec![spec.ctrl, spec.func];
    if spec.func == 129 || spec.func == 130 {
        out.push(spec.iin.0);
        out.push(spec.iin.1);
    }
    for h in &spec.headers {
        let budget = MAX_FRAGMENT.saturating_sub(out.len());
        out.extend(build_header(h, spec.func, budget));
        if out.len() >= MAX_FRAGMENT {
            out.truncate(MAX_FRAGMENT);
            break;
        }
    }
    for m in &spec.muts {
        match m {
            Mutation::Truncate(k) => {
                let n = ((*k as usize) * (out.len() + 1)) >> 16;
                out.truncate(n);
            }
            Mutation::Extend(b) => out.extend_from_slice(b),
            Mutation::Flip(k, bit) => {
                if !out.is_empty() {
                    let i = ((*k as usize) * out.len()) >> 16;
                    out[i] ^= 1 << (bit % 8);
                }
            }
            Mutation::Set(k, v) => {
                if !out.is_empty() {
                    let i = ((*k as usize) * out.len()) >> 16;
                    out[i] = *v;
                }
            }
        }
    }
    out.truncate(MAX_FRAGMENT);
    out
}

/// every (group, variation) of the reference table, octet strings / attributes sampled
pub fn known_gv() -> Vec<(u8, u8)> {
    let mut v = vec![];
    for g in 1..=102u8 {
        for var in 0..=20u8 {
            if layout(g, var).is_some() {
                v.push((g, var));
            }
        }
    }
    for var in [0u8, 1, 2, 7, 255] {
        v.push((110, var));
        v.push((111, var));
    }
    for var in [0u8, 1, 196, 211, 240, 252, 254, 255] {
        v.push((0, var));
    }
    // free-format file objects and device attributes have parsers of their own: sample them more often
    for _ in 0..3 {
        for var in 2..=8u8 {
            v.push((70, var));
        }
        v.push((0, 254));
        v.push((0, 255));
    }
    v
}

pub fn header_strategy() -> impl Strategy<Value = HdrSpec> {
    let gv = known_gv();
    let n = gv.len();
    let gv_s = prop_oneof![
        12 => (0..n).prop_map(move |i| gv[i]),
        1 => (any::<u8>(), any::<u8>()),
    ];
    let q = prop_oneof![
        12 => (0usize..8).prop_map(|i| QUALS[i]),
        1 => any::<u8>(),
    ];
    let num = prop_oneof![
        3 => prop_oneof![Just(0u16), Just(1), Just(2), Just(255), Just(256), Just(65535), Just(65534), Just(7), Just(8), Just(9)],
        3 => 0u16..20,
        1 => any::<u16>(),
    ];
    (gv_s, q, num.clone(), num, any::<u32>()).prop_map(|((g, v), q, a, b, seed)| {
        // group 70 lives on the free-format qualifier, device attributes on single-index ranges
        let q = if g == 70 && seed % 4 != 0 {
            0x5B
        } else if g == 0 && seed % 3 != 0 {
            (seed % 2) as u8
        } else {
            q
        };
        // ranges mostly well ordered and short, sometimes at the very end of the index space
        let (a, b) = if g == 0 && seed % 5 != 0 {
            (a % 3, a % 3)
        } else {
            (a, b)
        };
        let (a, b) = if g == 0 && seed % 5 != 0 {
            (a, b)
        } else {
            match seed % 8 {
                0 | 1 | 2 | 3 => (a.min(b), a.min(b).saturating_add(seed as u16 % 6)),
                4 => (65535 - (seed as u16 % 4), 65535),
                5 => (255 - (seed as u16 % 4), 255),
                _ => (a, b),
            }
        };
        HdrSpec {
            g,
            v,
            q,
            a,
            b,
            seed,
        }
    })
}

pub fn frag_strategy() -> impl Strategy<Value = FragSpec> {
    let function = prop_oneof![
        4 => prop_oneof![Just(1u8), Just(2), Just(3), Just(4), Just(5), Just(6), Just(129), Just(130), Just(0), Just(7), Just(9), Just(11), Just(20), Just(21), Just(22), Just(25), Just(26)],
        1 => any::<u8>(),
    ];
    let mutation = prop_oneof![
        2 => any::<u16>().prop_map(Mutation::Truncate),
        1 => proptest::collection::vec(any::<u8>(), 1..8).prop_map(Mutation::Extend),
        1 => (any::<u16>(), any::<u8>()).prop_map(|(k, b)| Mutation::Flip(k, b)),
        1 => (any::<u16>(), prop_oneof![Just(0u8), Just(1), Just(255), any::<u8>()]).prop_map(|(k, v)| Mutation::Set(k, v)),
    ];
    (
        prop_oneof![3 => Just(0xC0u8), 1 => any::<u8>()],
        function,
        any::<(u8, u8)>(),
        proptest::collection::vec(header_strategy(), 0..5),
        prop_oneof![3 => Just(vec![]), 2 => proptest::collection::vec(mutation, 1..3)],
    )
        .prop_map(|(ctrl, func, iin, headers, muts)| FragSpec {
            ctrl,
            func,
            iin,
            headers,
            muts,
        })
}

/// headers whose qualifier suits their object layout (so that most of them are accepted), with boundary counts/ranges
pub fn valid_header_strategy() -> impl Strategy<Value = HdrSpec> {
    let gv = known_gv();
    let n = gv.len();
    let num = prop_oneof![
        3 => prop_oneof![Just(0u16), Just(1), Just(2), Just(255), Just(256), Just(65535), Just(65534), Just(7), Just(8), Just(9)],
        3 => 0u16..20,
        1 => any::<u16>(),
    ];
    (
        (0..n).prop_map(move |i| gv[i]),
        any::<bool>(),
        num.clone(),
        num,
        any::<u32>(),
    )
        .prop_map(|((g, v), wide, a, b, seed)| {
            use crate::verif::wire::app::is_event_group;
            let lay = layout(g, v);
            let q = match lay {
                Some(Layout::FreeFormat) => 0x5B,
                Some(Layout::Attr) => 0x00,
                Some(Layout::NoObjects) => [0x06u8, 0x06, 0x07, 0x00][(seed % 4) as usize],
                _ if matches!(g, 50 | 51 | 52) => {
                    if wide {
                        0x08
                    } else {
                        0x07
                    }
                }
                _ if is_event_group(g) || matches!(g, 12 | 41 | 34 | 13 | 43) => {
                    if wide {
                        0x28
                    } else {
                        0x17
                    }
                }
                _ => {
                    if wide {
                        0x01
                    } else {
                        0x00
                    }
                }
            };
            // ranges: short, or ending at the top of the index space; counts: small or boundary
            let (a, b) = match (q, seed % 6) {
                (0x00, 0) => (255 - (seed as u16 >> 8) % 5, 255),
                (0x01, 0) => (65535 - (seed as u16 >> 8) % 5, 65535),
                (0x00 | 0x01, _) => {
                    let lo = if q == 0 { a & 0xFF } else { a };
                    let hi = lo.saturating_add((seed >> 8) as u16 % 40);
                    (lo, if q == 0 { hi.min(255) } else { hi })
                }
                (_, 0) => ([0u16, 1, 255, 256][(seed as usize >> 8) % 4], b),
                _ => (a % 12, b),
            };
            let (a, b) = if matches!(lay, Some(Layout::Attr)) {
                (a % 3, a % 3)
            } else {
                (a, b)
            };
            HdrSpec {
                g,
                v,
                q,
                a,
                b,
                seed,
            }
        })
}

/// mostly-valid fragments: response or request function codes that admit object data, 1-4 suitable headers, light mutation
pub fn valid_frag_strategy() -> impl Strategy<Value = FragSpec> {
    let function = prop_oneof![
        5 => Just(129u8), 2 => Just(130u8), 2 => Just(2u8), 1 => Just(3u8), 1 => Just(4u8), 1 => Just(5u8), 1 => Just(1u8), 1 => Just(11u8), 1 => Just(25u8), 1 => Just(31u8),
    ];
    let mutation = prop_oneof![
        2 => any::<u16>().prop_map(Mutation::Truncate),
        1 => proptest::collection::vec(any::<u8>(), 1..4).prop_map(Mutation::Extend),
        1 => (any::<u16>(), any::<u8>()).prop_map(|(k, b)| Mutation::Flip(k, b)),
        1 => (any::<u16>(), prop_oneof![Just(0u8), Just(1), Just(255), any::<u8>()]).prop_map(|(k, v)| Mutation::Set(k, v)),
    ];
    (
        function,
        any::<(u8, u8)>(),
        proptest::collection::vec(valid_header_strategy(), 1..5),
        prop_oneof![4 => Just(vec![]), 1 => proptest::collection::vec(mutation, 1..2)],
    )
        .prop_map(|(func, iin, headers, muts)| FragSpec {
            ctrl: if func == 130 { 0xF0 } else { 0xC0 },
            func,
            iin,
            headers,
            muts,
        })
}
