//! C19 — master scheduling: requests first and in order, polls on period, one at a time
use crate::master::*;
use crate::verif::engine::*;
use crate::verif::rig::master::*;
use crate::verif::rig::{runtime, Counted};
use crate::verif::wire::app::{self as ra, func, Fragment};
use crate::verif::wire::link as rl;
use proptest::prelude::*;
use serde::{Deserialize, Serialize};
use std::collections::BTreeMap;
use std::sync::{Arc, Mutex};
use std::time::Duration;

pub const TIMEOUT: u64 = 200;

#[derive(Clone, Debug, Serialize, Deserialize)]
pub struct AssocSpec {
    /// poll periods in ms (each poll scans a distinct class set so that it is recognisable on the wire)
    pub polls: Vec<u16>,
    pub keep_alive: Option<u16>,
}

#[derive(Clone, Debug, Serialize, Deserialize)]
pub enum Op {
    /// submit a user READ on association a (index scaled)
    Submit(u16),
    /// demand poll p of association a
    Demand(u16, u16),
    /// let virtual time pass
    Wait(u16),
    /// submit a user WRITE (dead-band of point id) on association a: a request that is not a READ
    SubmitWrite(u16),
    /// outstation a sends a null unsolicited response now, whatever the master is doing (it counts as link activity
    /// of THAT outstation, and of no other)
    Chatter(u16),
}

#[derive(Clone, Debug, Serialize, Deserialize, PartialEq)]
pub enum Reply {
    Prompt,
    Late(u16),
    Never,
}

#[derive(Clone, Debug, Serialize, Deserialize)]
pub struct Case {
    pub assocs: Vec<AssocSpec>,
    pub ops: Vec<Op>,
    /// reply policy for the k-th request transmitted (cycled)
    pub replies: Vec<Reply>,
    /// after the associations have been added, one more is asked for with the address of association #k (modulo their
    /// number): it is refused, and must leave no trace in the rotation
    #[serde(default)]
    pub duplicate_add: Option<u8>,
}

fn addr(i: usize) -> u16 {
    1024 + i as u16
}

/// class set of poll p: one of seven non-empty subsets of {1,2,3}
fn poll_classes(p: usize) -> EventClasses {
    let m = (p % 7) + 1;
    EventClasses::new(m & 1 != 0, m & 2 != 0, m & 4 != 0)
}

fn poll_objects(p: usize) -> Vec<u8> {
    let m = (p % 7) + 1;
    let mut o = vec![];
    for c in 0..3 {
        if m & (1 << c) != 0 {
            o.extend(ra::h_all(60, 2 + c as u8));
        }
    }
    o
}

#[derive(Clone, Debug, PartialEq)]
enum What {
    User(u32),
    Poll(usize),
    Other,
}

struct PollState {
    period: u64,
    due: u64,
    running: bool,
    /// it has run at least once: "no earlier than one period after its previous run completed" has a previous run to
    /// count from (when a poll runs for the first time - at once, or one period after it was added - is not stated)
    ran: bool,
}

pub struct Sched;

impl Prop for Sched {
    type Case = Case;
    const ID: &'static str = "C19";
    const NAME: &'static str = "schedule";
    fn rule() -> &'static str {
        "1-4 associations on one channel, 0-3 periodic polls each (periods 20..500 ms), keep-alive none or 100..1500 ms, user READs submitted and polls demanded at generated virtual times, a scripted outstation that answers each request promptly, late (< timeout) or never; oracle over the exactly time-stamped requests: at most one request outstanding at any instant; per association user requests leave in submission order and no poll starts while a user request is queued; a poll starts no earlier than one period after its previous run completed (success or time-out) unless demanded, and whenever the channel is idle a due poll or queued request is on the wire without further time passing; a keep-alive link status request is sent only after the configured silence; while nothing is due the task sleeps (polls per idle virtual second bounded); non-trivial = >= 2 associations or >= 2 polls with work at overlapping times"
    }
    fn cases(tier: Tier) -> u32 {
        match tier {
            Tier::Quick => 150_000,
            Tier::Thorough => 6_000_000,
        }
    }
    fn floors() -> Vec<(&'static str, u32)> {
        vec![
            ("user_request_waited", 50),
            ("poll_ran_twice", 200),
            ("keep_alive_sent", 5),
        ]
    }
    fn strategy(tier: Tier) -> BoxedStrategy<Case> {
        let assoc = (
            proptest::collection::vec(
                prop_oneof![Just(20u16), Just(50), Just(100), 20u16..500],
                0..=3,
            ),
            proptest::option::weighted(0.3, 100u16..1500),
        )
            .prop_map(|(polls, keep_alive)| AssocSpec { polls, keep_alive });
        let op = prop_oneof![
            3 => any::<u16>().prop_map(Op::Submit),
            1 => (any::<u16>(), any::<u16>()).prop_map(|(a, p)| Op::Demand(a, p)),
            4 => prop_oneof![Just(1u16), Just(19), Just(20), Just(21), 0u16..400].prop_map(Op::Wait),
            2 => any::<u16>().prop_map(Op::SubmitWrite),
            2 => any::<u16>().prop_map(Op::Chatter),
        ];
        let reply = prop_oneof![6 => Just(Reply::Prompt), 2 => (1u16..199).prop_map(Reply::Late), 1 => Just(Reply::Never)];
        let n = if tier == Tier::Quick { 20 } else { 50 };
        (
            proptest::collection::vec(assoc, 1..=4),
            proptest::collection::vec(op, 1..n),
            proptest::collection::vec(reply, 1..8),
            prop_oneof![2 => Just(None), 1 => any::<u8>().prop_map(Some)],
        )
            .prop_map(|(assocs, ops, replies, duplicate_add)| Case {
                assocs,
                ops,
                replies,
                duplicate_add,
            })
            .boxed()
    }
    fn run(case: &Case) -> CaseOut {
        let rt = runtime();
        rt.block_on(run_case(case))
    }
}

struct Outstanding {
    assoc: usize,
    what: What,
    seq: u8,
    t_tx: u64,
    reply_at: Option<u64>,
    link_status: bool,
}

async fn run_case(case: &Case) -> CaseOut {
    let mut out = CaseOut::default();
    let mut rig = MasterRig::start(true, [0; 4], 2048).await;
    let n = case.assocs.len();
    if n >= 2 {
        out.nontrivial = true;
    }
    let mut polls: Vec<Vec<PollState>> = vec![];
    let poll_handles: Arc<Mutex<BTreeMap<(usize, usize), PollHandle>>> = Default::default();
    for (i, a) in case.assocs.iter().enumerate() {
        let mut cfg = assoc_config(TIMEOUT);
        cfg.keep_alive_timeout = a.keep_alive.map(|k| Duration::from_millis(k as u64));
        rig.add_association(addr(i), cfg, Some(0)).await;
        let mut ps = vec![];
        for (p, period) in a.polls.iter().enumerate() {
            let mut h = rig.assocs[&addr(i)].handle.clone();
            let slot = poll_handles.clone();
            let period_d = Duration::from_millis(*period as u64);
            let pl = rig.polls.clone();
            tokio::spawn(Counted::new(
                async move {
                    if let Ok(ph) = h
                        .add_poll(
                            ReadRequest::class_scan(Classes::new(false, poll_classes(p))),
                            period_d,
                        )
                        .await
                    {
                        slot.lock().unwrap().insert((i, p), ph);
                    }
                },
                pl,
            ));
            rig.settle().await;
            ps.push(PollState {
                period: *period as u64,
                due: rig.now_ms() + *period as u64,
                running: false,
                ran: false,
            });
        }
        if ps.len() >= 2 {
            out.nontrivial = true;
        }
        polls.push(ps);
    }
    if let (Some(k), true) = (case.duplicate_add, n >= 1) {
        let i = k as usize % n;
        out.label("duplicate_association_refused");
        if !rig
            .add_duplicate_association(addr(i), assoc_config(TIMEOUT))
            .await
        {
            out.fail(Fail::new(
                "duplicate-address-accepted",
                format!(
                    "a second association with the address {} was accepted",
                    addr(i)
                ),
            ));
            return out;
        }
    }
    rig.connect().await;
    // last frame received by the master from each outstation (link activity), for the keep-alive rule
    let mut last_activity: Vec<u64> = vec![rig.now_ms(); n];
    let mut queue: Vec<Vec<(u32, u64)>> = vec![vec![]; n]; // user requests submitted, not yet transmitted: (id, t_submit)
                                                           // when a user request of each association was last transmitted
    let mut last_user_tx: Vec<Option<(u64, u64)>> = vec![None; n];
    let mut user_tx_count: u64 = 0;
    // more requests waiting than the master's message channel holds: the master may not know all of them yet
    let mut saturated = false;
    let mut next_user: u32 = 0;
    let mut chatter_seq: u8 = 0;
    let mut outstanding: Option<Outstanding> = None;
    let mut tx_count: usize = 0;
    let mut poll_runs: usize = 0;
    let mut channel_free_since: u64 = rig.now_ms();

    // user requests by id: (outcome slot, whether the association's queue was full when it was submitted)
    let pendings: Arc<Mutex<BTreeMap<u32, (crate::verif::rig::master::Pending, bool)>>> =
        Default::default();
    // requests refused with TooManyRequests are not waiting for anything
    macro_rules! purge_refused {
        () => {{
            let pend = pendings.lock().unwrap();
            for q in queue.iter_mut() {
                q.retain(|(id, _)| match pend.get(id) {
                    Some((p, full)) => {
                        let refused = p.outcomes().iter().any(|(_, o)| o.contains("TooManyRequests"));
                        if refused && !*full {
                            out.fail(Fail::new("refused-without-cause", format!("user request {id} failed with TooManyRequests although fewer than 16 requests of its association were waiting when it was submitted")));
                        }
                        if refused {
                            out.label("refused_queue_full");
                        }
                        !refused
                    }
                    None => true,
                });
            }
        }};
    }
    // one scheduling tick: observe transmissions, answer what is due, check the invariants at quiescence
    macro_rules! tick {
        () => {{
            rig.settle().await;
            purge_refused!();
            let now = rig.now_ms();
            for t in rig.take_tx() {
                // a request that was never answered is over at its time-out instant
                let t_of = match &t {
                    MTx::Fragment { t, .. } | MTx::Link { t, .. } | MTx::Garbage { t, .. } => *t,
                };
                if let Some(o) = &outstanding {
                    if o.reply_at.is_none() && t_of >= o.t_tx + TIMEOUT {
                        let o = outstanding.take().unwrap();
                        let done_at = o.t_tx + TIMEOUT;
                        if let What::Poll(p) = o.what {
                            let ps = &mut polls[o.assoc][p];
                            ps.running = false;
                            ps.due = done_at + ps.period;
                        }
                        channel_free_since = done_at;
                    }
                }
                match t {
                    MTx::Garbage { why, .. } => out.fail(Fail::new("malformed-transmission", why)),
                    MTx::Link { t, ctrl, dst, .. } => {
                        if ctrl & 0x4F == 0x49 {
                            // keep-alive link status request
                            let a = (dst - 1024) as usize;
                            out.label("keep_alive_sent");
                            if let Some(o) = &outstanding {
                                out.fail(Fail::new("two-requests-outstanding", format!("link status request to {dst} at t={t} while {:?} (sent {}) is outstanding", o.what, o.t_tx)));
                            }
                            match case.assocs.get(a).and_then(|x| x.keep_alive) {
                                None => out.fail(Fail::new("keep-alive-unconfigured", format!("link status request to {dst} although no keep-alive is configured"))),
                                Some(k) => {
                                    if t < last_activity[a] + k as u64 {
                                        out.fail(Fail::new("keep-alive-too-early", format!("link status request to {dst} at t={t}, last link activity from it at t={}, keep-alive {k} ms", last_activity[a])));
                                    }
                                }
                            }
                            let pol = case.replies[tx_count % case.replies.len()].clone();
                            tx_count += 1;
                            outstanding = Some(Outstanding { assoc: a, what: What::Other, seq: 0, t_tx: t, reply_at: match pol {
                                Reply::Prompt => Some(t),
                                Reply::Late(d) => Some(t + d as u64),
                                Reply::Never => None,
                            }, link_status: true });
                        }
                    }
                    MTx::Fragment { t, dst, bytes } => {
                        let f = match Fragment::parse(&bytes) {
                            Some(f) => f,
                            None => continue,
                        };
                        if std::env::var("VERIF_TRACE").is_ok() {
                            eprintln!("t={t} tx to {dst}: func {} seq {} objects {:02x?}", f.func, f.seq, f.objects);
                        }
                        if f.func == func::CONFIRM {
                            continue;
                        }
                        let a = (dst - 1024) as usize;
                        if let Some(o) = &outstanding {
                            out.fail(Fail::new("two-requests-outstanding", format!("request to {dst} (func {}) at t={t} while {:?} to {} (sent at {}) is still outstanding", f.func, o.what, addr(o.assoc), o.t_tx)).with_sig("C19 two-outstanding".to_string()));
                        }
                        // what is it?
                        let what = if f.func == func::READ && f.objects.len() == 7 && f.objects[0] == 30 && f.objects[2] == 0x01 {
                            What::User(f.objects[3] as u32 | ((f.objects[4] as u32) << 8))
                        } else if f.func == func::WRITE && f.objects.len() >= 7 && f.objects[0] == 34 {
                            out.label("non_read_user_request");
                            What::User(f.objects[5] as u32 | ((f.objects[6] as u32) << 8))
                        } else if f.func == func::READ {
                            match (0..polls[a].len()).find(|p| poll_objects(*p) == f.objects) {
                                Some(p) => What::Poll(p),
                                None => What::Other,
                            }
                        } else {
                            What::Other
                        };
                        match &what {
                            What::User(id) => {
                                // associations take turns: between two user requests of this association, every other
                                // association whose request has been waiting since before the first of them is served
                                if let (Some((t1, n1)), false) = (last_user_tx[a], saturated) {
                                    for (b, q) in queue.iter().enumerate() {
                                        if b != a {
                                            if let Some((idb, tsb)) = q.first() {
                                                let served_since = last_user_tx[b].map(|(_, nb)| nb > n1).unwrap_or(false);
                                                if *tsb < t1 && !served_since {
                                                    out.fail(Fail::new("associations-do-not-take-turns", format!("user request {id} of {dst} transmitted at t={t}; that association was last served at t={t1}, but request {idb} of {} has been waiting since t={tsb}", addr(b))).with_sig("C19 turns".to_string()));
                                                }
                                            }
                                        }
                                    }
                                    if queue.iter().enumerate().filter(|(b, q)| *b != a && !q.is_empty()).count() >= 2 {
                                        out.label("three_associations_backlogged");
                                    }
                                }
                                user_tx_count += 1;
                                last_user_tx[a] = Some((t, user_tx_count));
                                // submission order per association
                                match queue[a].first() {
                                    Some((first, ts)) if first == id => {
                                        if t > *ts {
                                            out.label("user_request_waited");
                                        }
                                        queue[a].remove(0);
                                    }
                                    other => out.fail(Fail::new("user-request-order", format!("user request {id} to {dst} transmitted at t={t}, but the oldest queued request of that association is {:?}", other)).with_sig("C19 user-order".to_string())),
                                }
                            }
                            What::Poll(p) => {
                                poll_runs += 1;
                                let ps = &mut polls[a][*p];
                                if t < ps.due && !ps.ran {
                                    out.label("first_run_of_a_poll_before_its_first_period");
                                } else if t < ps.due {
                                    out.fail(Fail::new("poll-too-early", format!("poll {p} of {dst} (period {}) started at t={t}, not due before t={}", ps.period, ps.due)).with_sig("C19 poll-early".to_string()));
                                }
                                // requests first: nothing submitted (and processed) before this instant may still be waiting
                                if let Some((id, ts)) = queue.iter().flatten().find(|(_, ts)| *ts < t) {
                                    out.fail(Fail::new("poll-before-user-request", format!("poll {p} of {dst} started at t={t} although user request {id} has been queued since t={ts}")).with_sig("C19 poll-before-user".to_string()));
                                }
                                // not starved while idle: it starts when it is due or when the channel became free, whichever is later
                                let earliest = ps.due.max(channel_free_since);
                                if t > earliest && queue.iter().flatten().next().is_none() && !polls.iter().flatten().any(|q| q.due <= earliest && !std::ptr::eq(q, &polls[a][*p])) {
                                    out.fail(Fail::new("poll-late-while-idle", format!("poll {p} of {dst} was due at t={} and the channel idle since t={channel_free_since}, but it started only at t={t}", polls[a][*p].due)).with_sig("C19 poll-late".to_string()));
                                }
                                polls[a][*p].running = true;
                                polls[a][*p].ran = true;
                            }
                            What::Other => {}
                        }
                        let pol = case.replies[tx_count % case.replies.len()].clone();
                        tx_count += 1;
                        outstanding = Some(Outstanding { assoc: a, what, seq: f.seq, t_tx: t, reply_at: match pol {
                            Reply::Prompt => Some(t),
                            Reply::Late(d) => Some(t + d as u64),
                            Reply::Never => None,
                        }, link_status: false });
                    }
                }
            }
            // answer / time out the outstanding request
            let mut completed = false;
            let mut replied = false;
            if let Some(o) = &outstanding {
                if o.reply_at.map(|r| now >= r).unwrap_or(false) {
                    replied = true;
                    if o.link_status {
                        rig.send_raw(&rl::encode(0x0B, M_ADDR, addr(o.assoc), &[]));
                    } else {
                        let r = Fragment { fir: true, fin: true, con: false, uns: false, seq: o.seq, func: func::RESPONSE, iin: Some((0, 0)), objects: vec![] };
                        rig.respond(addr(o.assoc), &r);
                    }
                    last_activity[o.assoc] = now;
                    completed = true;
                } else if now >= o.t_tx + TIMEOUT && o.reply_at.is_none() {
                    completed = true;
                }
            }
            if completed {
                let o = outstanding.take().unwrap();
                let done_at = if replied { now } else { o.t_tx + TIMEOUT };
                if let What::Poll(p) = o.what {
                    let ps = &mut polls[o.assoc][p];
                    ps.running = false;
                    ps.due = done_at + ps.period;
                    if poll_runs >= 2 {
                        out.label("poll_ran_twice");
                    }
                }
                channel_free_since = done_at;
                rig.settle().await;
            }
            completed
        }};
    }

    for op in &case.ops {
        if out.failed() || rig.task_failure.is_some() {
            break;
        }
        match op {
            Op::Submit(a) => {
                let a = (*a as usize * n) >> 16;
                let id = next_user;
                next_user += 1;
                let mut h = rig.assocs[&addr(a)].handle.clone();
                let req = ReadRequest::SingleHeader(ReadHeader::two_byte_range(
                    crate::app::variations::Variation::Group30Var0,
                    id as u16,
                    id as u16,
                ));
                let p = rig.submit("read", async move { h.read(req).await });
                rig.settle().await;
                // documented back-pressure: with max_queued_user_requests (16) requests of the association waiting,
                // a further one fails with TooManyRequests instead of being queued
                pendings
                    .lock()
                    .unwrap()
                    .insert(id, (p, queue[a].len() >= 16));
                queue[a].push((id, rig.now_ms()));
                if queue.iter().map(|q| q.len()).sum::<usize>() >= 15 {
                    saturated = true;
                }
            }
            Op::SubmitWrite(a) => {
                let a = (*a as usize * n) >> 16;
                let id = next_user;
                next_user += 1;
                let mut h = rig.assocs[&addr(a)].handle.clone();
                let p = rig.submit("write", async move {
                    h.write_dead_bands(vec![DeadBandHeader::group34_var1_u16(vec![(id as u16, 5)])])
                        .await
                });
                rig.settle().await;
                pendings
                    .lock()
                    .unwrap()
                    .insert(id, (p, queue[a].len() >= 16));
                queue[a].push((id, rig.now_ms()));
                if queue.iter().map(|q| q.len()).sum::<usize>() >= 15 {
                    saturated = true;
                }
            }
            Op::Chatter(a) => {
                let a = (*a as usize * n) >> 16;
                chatter_seq = (chatter_seq + 1) & 0x0F;
                let f = Fragment {
                    fir: true,
                    fin: true,
                    con: true,
                    uns: true,
                    seq: chatter_seq,
                    func: func::UNSOLICITED_RESPONSE,
                    iin: Some((0, 0)),
                    objects: vec![],
                };
                rig.respond(addr(a), &f);
                last_activity[a] = rig.now_ms();
                if let Some(o) = &outstanding {
                    if o.assoc != a {
                        out.label("chatter_from_another_outstation_while_waiting");
                        out.nontrivial = true;
                    }
                }
                rig.settle().await;
            }
            Op::Demand(a, p) => {
                let a = (*a as usize * n) >> 16;
                if !polls[a].is_empty() {
                    let p = (*p as usize * polls[a].len()) >> 16;
                    // a demand while that very poll is running is not judged
                    if !polls[a][p].running {
                        let ph = poll_handles.lock().unwrap().get(&(a, p)).cloned();
                        if let Some(mut ph) = ph {
                            let pl = rig.polls.clone();
                            tokio::spawn(Counted::new(async move { ph.demand().await }, pl));
                            rig.settle().await;
                            polls[a][p].due = polls[a][p].due.min(rig.now_ms());
                            out.label("demand");
                        }
                    }
                }
            }
            Op::Wait(ms) => {
                let end = rig.now_ms() + *ms as u64;
                let polls_before = rig.polls.get();
                let tx_before = tx_count;
                let t_start = rig.now_ms();
                loop {
                    while tick!() {}
                    let now = rig.now_ms();
                    if now >= end || out.failed() {
                        break;
                    }
                    // next instant at which the harness has something to do
                    let mut next = end;
                    if let Some(o) = &outstanding {
                        next = next
                            .min(o.reply_at.unwrap_or(o.t_tx + TIMEOUT))
                            .max(now + 1);
                    }
                    next = next.min(now + 10);
                    rig.advance(next - now).await;
                }
                // sleeping, not spinning: while nothing was transmitted the task is polled only a handful of times per timer event
                let elapsed = rig.now_ms() - t_start;
                let n_polls = rig.polls.get() - polls_before;
                if tx_count == tx_before && elapsed >= 50 && n_polls > 40 + elapsed * 4 {
                    out.fail(Fail::new("busy-while-idle", format!("during {elapsed} ms of virtual time without any transmission the master task was polled {n_polls} times")).with_sig("C19 busy-idle".to_string()));
                }
            }
        }
        while tick!() {}
        purge_refused!();
        // at quiescence: nothing may be left waiting while the channel is idle
        if outstanding.is_none() && !out.failed() && rig.connected() {
            let now = rig.now_ms();
            if let Some((id, ts)) = queue.iter().flatten().next() {
                out.fail(Fail::new("user-request-not-started", format!("at t={now} the channel is idle but user request {id} (queued at t={ts}) has not been transmitted")).with_sig("C19 user-stalled".to_string()));
            }
            for (a, ps) in polls.iter().enumerate() {
                for (p, s) in ps.iter().enumerate() {
                    if s.due < now && !s.running {
                        out.fail(Fail::new("poll-starved-while-idle", format!("at t={now} the channel is idle but poll {p} of {} has been due since t={}", addr(a), s.due)).with_sig("C19 poll-starved".to_string()));
                    }
                }
            }
        }
    }
    if let Some(f) = rig.task_failure.take() {
        out.fail(f);
    }
    out
}

pub fn run<C: Codec>(tier: Tier) -> i32 {
    let mut ctx = Ctx::<C>::new("C19", tier);
    ctx.assumptions.push("a demand issued while that very poll is running is not judged; turn-taking: between two user requests of one association every other association whose request has waited since before the first must have been served (suspended once 15 requests wait at the same time); requests refused with TooManyRequests (documented back-pressure at 16 waiting requests) leave the model's queue".into());
    ctx.run::<Sched>();
    ctx.finish()
}

pub fn replay<C: Codec>(text: &str, known: &[Known]) -> Option<i32> {
    replay_file::<C, Sched>(text, known)
}
