//! C18 — time synchronisation sets the outstation's clock to the master's
//!
//! PairRig with scripted one-way delays per message. The master's clock and the "true master time at the instant
//! write_absolute_time is called" are read from the same virtual clock.
use crate::app::{RetryStrategy, Timeout};
use crate::master::*;
use crate::outstation::database::*;
use crate::outstation::{ApplicationIin, RequestError};
use crate::verif::engine::*;
use crate::verif::rig::outstation::{AppBehaviour, Cb, OutConfig, MASTER_ADDR, OUTSTATION_ADDR};
use crate::verif::rig::pair::{PairConfig, PairRig};
use crate::verif::rig::runtime;
use crate::verif::wire::app::{self as ra, func, Fragment};
use crate::verif::wire::link as rl;
use proptest::prelude::*;
use serde::{Deserialize, Serialize};
use std::time::Duration;

const T48: u64 = 0x0000_FFFF_FFFF_FFFF;

#[derive(Clone, Debug, Serialize, Deserialize)]
pub struct Case {
    /// 0 LAN, 1 non-LAN, 2 direct write
    pub procedure: u8,
    /// master clock at virtual time 0; None = the master has no clock
    pub clock: Option<u64>,
    /// first-leg forward delay, return delay, second-leg forward delay, second return delay (ms)
    pub f1: u32,
    pub b1: u32,
    pub f2: u32,
    pub b2: u32,
    /// processing delay the outstation reports (ms)
    pub reported: u16,
    /// the report is honest: the reply really takes that long
    pub honest: bool,
    /// the application clears NEED_TIME when the time is written
    pub clears_need_time: bool,
    /// result of write_absolute_time: % 3: 0 ok, 1 parameter error, 2 not supported; (/ 3) % 2 == 1: the application
    /// does not indicate NEED_TIME at all (a synchronisation on the user's initiative)
    pub write_result: u8,
    /// the synchronisation is requested while a READ of the same association is still waiting for its response, so
    /// that it waits in the queue: the clock values it uses must be those of its own transmission
    #[serde(default)]
    pub busy: bool,
    /// unrelated traffic: unsolicited reporting enabled and updates made at these offsets (ms after the start)
    pub unsolicited: bool,
    pub updates_at: Vec<u32>,
    /// wrong-sequence replies injected at these offsets (ms after the start)
    pub bogus_at: Vec<u32>,
    /// virtual time at which the procedure starts
    pub start_at: u32,
    /// earlier attempts that are abandoned or fail before the judged procedure runs: (procedure, fault, gap in ms
    /// before the next attempt); fault 0 = the application rejects the write, 1 = the connection is cut once the
    /// first request of the procedure has reached the outstation, 2 = NEED_TIME stays set
    #[serde(default)]
    pub prelude: Vec<(u8, u8, u32)>,
}

fn frame_fragment(bytes: &[u8]) -> Option<(u8, Fragment)> {
    match rl::try_frame(bytes) {
        rl::TryFrame::Ok(f, n) if n == bytes.len() && f.payload.len() > 1 => {
            Fragment::parse(&f.payload[1..]).map(|fr| (f.payload[0], fr))
        }
        _ => None,
    }
}

pub fn run_case(case: &Case) -> CaseOut {
    let mut out = CaseOut::default();
    let rt = runtime();
    rt.block_on(async {
        let mut oc = OutConfig::default();
        oc.unsolicited = case.unsolicited;
        oc.confirm_timeout_ms = 400_000;
        oc.max_unsol_retries = Some(0);
        oc.unsol_retry_delay_ms = 50_000;
        oc.event_buffer = [20; 8];
        let mut ac = AssociationConfig::quiet();
        ac.response_timeout = Timeout::from_millis(300_000).unwrap();
        ac.auto_tasks_retry_strategy = RetryStrategy::new(Duration::from_secs(500), Duration::from_secs(500));
        let cfg = PairConfig { out: oc, master_discard: false, master_tx: 2048, master_rx: 2048, master_decode: [0; 4], assoc: ac };
        let beh = AppBehaviour {
            iin: ApplicationIin { need_time: (case.write_result / 3) % 2 == 0, ..Default::default() },
            processing_delay_ms: case.reported,
            write_time: match case.write_result % 3 {
                0 => Ok(()),
                1 => Err(RequestError::ParameterError),
                _ => Err(RequestError::NotSupported),
            },
            clear_need_time_on_write: case.clears_need_time,
            ..Default::default()
        };
        let mut rig = PairRig::start(cfg, beh, case.clock).await;
        rig.out_handle.transaction(|db| {
            db.add(0, Some(EventClass::Class1), AnalogInputConfig::default());
        });
        // let the start-up unsolicited exchange (if any) finish with no delay
        rig.advance(10).await;
        if case.unsolicited {
            // the master never enables unsolicited reporting by itself in a quiet configuration: do it explicitly
            let mut h = rig.assoc.clone();
            let _ = rig.shared.take_log();
            tokio::spawn(crate::verif::rig::Counted::new(
                async move {
                    let _ = h.send_and_expect_empty_response(crate::app::FunctionCode::EnableUnsolicited, Headers::default().add_all_objects(crate::app::Variation::Group60Var2)).await;
                },
                rig.polls.clone(),
            ));
            rig.advance(10).await;
        }
        rig.advance(case.start_at as u64).await;
        // ---- earlier attempts that do not complete (their own outcome is judged by the same rules in other cases)
        for (proc, fault, gap) in &case.prelude {
            let procedure = match proc % 3 {
                0 => TimeSyncProcedure::Lan,
                1 => TimeSyncProcedure::NonLan,
                _ => TimeSyncProcedure::DirectWriteAbsTime,
            };
            {
                let mut b = rig.shared.beh.lock().unwrap();
                b.iin.need_time = true;
                b.write_time = if fault % 3 == 0 { Err(RequestError::ParameterError) } else { Ok(()) };
                b.clear_need_time_on_write = fault % 3 != 2;
            }
            rig.set_delay(0, 5);
            rig.set_delay(1, 5);
            let done: std::sync::Arc<std::sync::Mutex<bool>> = Default::default();
            {
                let mut h = rig.assoc.clone();
                let d = done.clone();
                tokio::spawn(crate::verif::rig::Counted::new(
                    async move {
                        let _ = h.synchronize_time(procedure).await;
                        *d.lock().unwrap() = true;
                    },
                    rig.polls.clone(),
                ));
            }
            rig.settle().await;
            if fault % 3 == 1 {
                // the first request reaches the outstation, then the connection dies
                rig.advance(6).await;
                rig.cut().await;
                rig.advance(20).await;
                rig.connect().await;
                out.label("prelude_cut");
            }
            for _ in 0..400 {
                if *done.lock().unwrap() {
                    break;
                }
                rig.advance(1000).await;
            }
            rig.advance(*gap as u64).await;
            out.label("prelude");
        }
        {
            let mut b = rig.shared.beh.lock().unwrap();
            b.iin.need_time = (case.write_result / 3) % 2 == 0;
            b.write_time = match case.write_result % 3 {
                0 => Ok(()),
                1 => Err(RequestError::ParameterError),
                _ => Err(RequestError::NotSupported),
            };
            b.clear_need_time_on_write = case.clears_need_time;
        }
        let _ = rig.shared.take_log();
        let t0 = rig.now_ms();
        // only the judged procedure's own messages: everything written before t0 is ignored below

        // delays: message k in each direction (only the procedure's own messages are counted by the plan when there
        // is no other traffic; with other traffic the oracle uses the delays actually observed)
        let extra = if case.honest { case.reported as u64 } else { 0 };
        rig.plan_delays(0, &[case.f1 as u64, case.f2 as u64]);
        rig.plan_delays(1, &[case.b1 as u64 + extra, case.b2 as u64]);
        rig.set_delay(0, case.f2 as u64);
        rig.set_delay(1, case.b2 as u64);
        let procedure = match case.procedure % 3 {
            0 => TimeSyncProcedure::Lan,
            1 => TimeSyncProcedure::NonLan,
            _ => TimeSyncProcedure::DirectWriteAbsTime,
        };
        if case.busy {
            out.label("requested_while_busy");
            let mut h = rig.assoc.clone();
            tokio::spawn(crate::verif::rig::Counted::new(
                async move {
                    let _ = h.read(ReadRequest::class_scan(Classes::class0())).await;
                },
                rig.polls.clone(),
            ));
            rig.settle().await;
        }
        let result: std::sync::Arc<std::sync::Mutex<Option<(u64, String)>>> = Default::default();
        {
            let mut h = rig.assoc.clone();
            let slot = result.clone();
            let start = rig.start;
            tokio::spawn(crate::verif::rig::Counted::new(
                async move {
                    let r = h.synchronize_time(procedure).await;
                    let t = tokio::time::Instant::now().duration_since(start).as_millis() as u64;
                    *slot.lock().unwrap() = Some((t, format!("{:?}", r)));
                },
                rig.polls.clone(),
            ));
        }
        rig.settle().await;
        // step through virtual time, applying the unrelated traffic at its offsets
        let mut events: Vec<(u64, u8)> = case.updates_at.iter().map(|t| (t0 + *t as u64, 0u8)).chain(case.bogus_at.iter().map(|t| (t0 + *t as u64, 1u8))).collect();
        events.sort();
        let mut serial = 0u32;
        let horizon = t0 + case.f1 as u64 + case.b1 as u64 + extra + case.f2 as u64 + case.b2 as u64 + 700_000;
        let mut ei = 0;
        while result.lock().unwrap().is_none() && rig.now_ms() < horizon {
            let next_event = events.get(ei).map(|e| e.0);
            let now = rig.now_ms();
            let step = match next_event {
                Some(t) if t > now => (t - now).min(1000),
                Some(_) => 0,
                None => 1000,
            };
            if step > 0 {
                rig.advance(step).await;
            }
            while let Some((t, kind)) = events.get(ei).cloned() {
                if t > rig.now_ms() {
                    break;
                }
                ei += 1;
                if kind == 0 {
                    serial += 1;
                    let v = serial as f64;
                    rig.out_handle.transaction(|db| db.update(0, &crate::app::measurement::AnalogInput::new(v, crate::app::measurement::Flags::ONLINE, crate::app::measurement::Time::Synchronized(crate::app::Timestamp::new(5))), UpdateOptions::detect_event()));
                    out.label("unrelated_update");
                    rig.settle().await;
                } else {
                    // a reply with a sequence number that no outstanding request has
                    let last_seq = rig.writes().iter().rev().filter(|w| w.2 == 0).filter_map(|w| frame_fragment(&w.3)).filter(|(_, f)| f.func != func::CONFIRM).map(|(_, f)| f.seq).next().unwrap_or(0);
                    let f = Fragment { fir: true, fin: true, con: false, uns: false, seq: (last_seq + 1 + (serial as u8 % 14)) & 0x0F, func: func::RESPONSE, iin: Some((0, 0)), objects: vec![] };
                    let mut payload = vec![0xC0 | (serial as u8 & 0x3F)];
                    payload.extend(f.encode());
                    let frame = rl::encode(0x44, MASTER_ADDR, OUTSTATION_ADDR, &payload);
                    rig.inject(1, frame).await;
                    out.label("bogus_reply");
                }
            }
            if let Some(f) = rig.task_failure.clone() {
                out.fail(f);
                return;
            }
        }
        let Some((t_done, result)) = result.lock().unwrap().clone() else {
            out.fail(Fail::new("T-no-outcome", format!("the time synchronisation request produced no outcome within {} ms of virtual time", horizon - t0)));
            return;
        };
        let ok = result.starts_with("Ok");
        // what happened on the wire and at the outstation application
        let writes: Vec<_> = rig.writes().into_iter().filter(|w| w.0 >= t0).collect();
        let cbs = rig.shared.take_log();
        if std::env::var("VERIF_TRACE").is_ok() {
            for w in &writes {
                println!("write sent={} due={} dir={} {:02x?}", w.0, w.1, w.2, &w.3[..w.3.len().min(32)]);
            }
            for c in &cbs {
                println!("callback {:?}", c);
            }
            for l in rig.wire_log() {
                println!("delivered t={} dir={:#x} {:02x?}", l.0, l.1, &l.2[..l.2.len().min(32)]);
            }
            println!("result at {t_done}: {result}");
        }
        let written: Vec<(u64, u64)> = cbs.iter().filter_map(|(t, cb)| if let Cb::WriteAbsoluteTime(v) = cb { Some((*t, *v)) } else { None }).collect();
        let find_req = |f: u8, g: Option<(u8, u8)>| {
            writes.iter().find(|w| {
                w.2 == 0
                    && frame_fragment(&w.3).map(|(_, fr)| fr.func == f && g.map(|(gg, vv)| fr.objects.len() > 1 && fr.objects[0] == gg && fr.objects[1] == vv).unwrap_or(true)).unwrap_or(false)
            })
        };
        let clock0 = case.clock;
        // the master's clock as a plain number (it has no 48-bit representation beyond T48, but it still is the truth)
        let truth = |t: u64| clock0.map(|c| c + t);
        out.label(match case.procedure % 3 {
            0 => "lan",
            1 => "non_lan",
            _ => "direct",
        });
        out.label(if ok { "reported_success" } else { "reported_failure" });

        // ---- conditions under which the synchronisation must be reported as failed
        let mut must_fail: Option<String> = None;
        if case.clock.is_none() {
            must_fail = Some("the master has no clock".into());
        }
        if case.write_result % 3 != 0 && !written.is_empty() {
            must_fail = Some("the outstation application rejected the time".into());
        }
        if !case.clears_need_time && (case.write_result / 3) % 2 == 0 && !written.is_empty() {
            must_fail = Some("the outstation still indicates NEED_TIME after the write".into());
        }
        if case.procedure % 3 == 1 {
            if let (Some(req), Some(c)) = (find_req(func::DELAY_MEASURE, None), case.clock) {
                // the reply to the delay measurement
                let reply = writes.iter().find(|w| w.2 == 1 && w.0 >= req.1 && frame_fragment(&w.3).map(|(_, fr)| fr.func == func::RESPONSE && fr.objects.len() > 1 && fr.objects[0] == 52).unwrap_or(false));
                if let Some(reply) = reply {
                    let round_trip = reply.1 - req.0;
                    if case.reported as u64 > round_trip {
                        must_fail = Some(format!("the reported processing delay {} ms exceeds the round trip {} ms", case.reported, round_trip));
                    }
                    let prop = round_trip.saturating_sub(case.reported as u64) / 2;
                    if c.saturating_add(reply.1).saturating_add(prop) > T48 {
                        must_fail = Some("the time to be written does not fit 48 bits".into());
                    }
                }
            }
        }
        if let Some(c) = case.clock {
            // LAN: the outstation adds the elapsed time to the recorded master time
            if case.procedure % 3 == 0 {
                if let (Some(rec), Some(wr)) = (find_req(func::RECORD_CURRENT_TIME, None), find_req(func::WRITE, Some((50, 3)))) {
                    let elapsed = wr.1.saturating_sub(rec.1);
                    if c.saturating_add(rec.0).saturating_add(elapsed) > T48 {
                        must_fail = Some("the time to be set does not fit 48 bits".into());
                    }
                }
            }
        }
        if let Some(why) = &must_fail {
            out.label("failure_condition");
            if ok {
                out.fail(Fail::new("T-false-success", format!("{why}, yet the master reported success ({result}); write_absolute_time calls: {:?}", written)).with_sig(format!("T-false-success {}", why.split(' ').take(4).collect::<Vec<_>>().join(" "))));
                return;
            }
        }
        // ---- a reported success: the time handed to the application equals the master's clock at that instant
        if ok {
            if written.len() != 1 {
                out.fail(Fail::new("T-success-without-write", format!("the master reported success but write_absolute_time was called {} times", written.len())));
                return;
            }
            let (t_cb, value) = written[0];
            let Some(true_time) = truth(t_cb) else {
                out.fail(Fail::new("T-false-success", format!("success reported although the master's clock had no 48-bit value at the instant of the write (clock at 0 = {:?}, t={t_cb})", clock0)).with_sig("T-false-success no representable time"));
                return;
            };
            let err = (value as i128 - true_time as i128).unsigned_abs() as u64;
            let (bound, what) = match case.procedure % 3 {
                0 => {
                    let Some(rec) = find_req(func::RECORD_CURRENT_TIME, None) else {
                        out.fail(Fail::new("T-protocol", "LAN procedure succeeded without a RECORD_CURRENT_TIME request on the wire".to_string()));
                        return;
                    };
                    (rec.1 - rec.0 + 1, format!("one-way delay of the RECORD_CURRENT_TIME request = {} ms", rec.1 - rec.0))
                }
                1 => {
                    let (Some(req), Some(wr)) = (find_req(func::DELAY_MEASURE, None), find_req(func::WRITE, Some((50, 1)))) else {
                        out.fail(Fail::new("T-protocol", "non-LAN procedure succeeded without DELAY_MEASURE and WRITE g50v1 on the wire".to_string()));
                        return;
                    };
                    let reply = writes.iter().find(|w| w.2 == 1 && w.0 >= req.1 && frame_fragment(&w.3).map(|(_, fr)| fr.func == func::RESPONSE && fr.objects.len() > 1 && fr.objects[0] == 52).unwrap_or(false));
                    let Some(reply) = reply else {
                        out.fail(Fail::new("T-protocol", "no reply to DELAY_MEASURE on the wire".to_string()));
                        return;
                    };
                    // one-way delays of the three legs; the reply leg without the honestly reported processing time
                    let f1 = req.1 - req.0;
                    let b1 = (reply.1 - reply.0).saturating_sub(if case.honest { case.reported as u64 } else { 0 });
                    let f2 = wr.1 - wr.0;
                    if !case.honest {
                        // a dishonest report is only required to be caught when it exceeds the round trip
                        out.label("dishonest_report");
                        (u64::MAX, String::new())
                    } else {
                        let asym = [f1.abs_diff(b1), f1.abs_diff(f2), b1.abs_diff(f2)].into_iter().max().unwrap();
                        (asym + 1, format!("asymmetry of the one-way delays f1={f1} b1={b1} f2={f2} = {asym} ms"))
                    }
                }
                _ => {
                    let Some(wr) = find_req(func::WRITE, Some((50, 1))) else {
                        out.fail(Fail::new("T-protocol", "direct write succeeded without WRITE g50v1 on the wire".to_string()));
                        return;
                    };
                    (wr.1 - wr.0 + 1, format!("one-way delay of the WRITE = {} ms", wr.1 - wr.0))
                }
            };
            if err > bound {
                out.fail(
                    Fail::new("T-accuracy", format!("the application was handed {value} at t={t_cb} ms when the master's clock read {}: error {err} ms exceeds the {what} (+1 ms rounding); outcome at t={t_done}", true_time))
                        .with_sig(format!("T-accuracy {}", ["lan", "non_lan", "direct"][(case.procedure % 3) as usize])),
                );
                return;
            }
            if err <= 1 {
                out.label("exact");
            }
        }
        let unequal = case.f1 != case.b1 || case.f1 != case.f2;
        out.nontrivial = (case.f1 > 0 && unequal) || must_fail.is_some() || (ok && case.f1 > 1);
    });
    out
}

fn delay() -> BoxedStrategy<u32> {
    prop_oneof![3 => Just(0u32), 2 => Just(1), 2 => Just(10), 2 => Just(250), 1 => Just(32767), 1 => Just(32768), 1 => Just(65535), 1 => Just(65536), 1 => Just(70_000), 3 => 0u32..2000, 1 => 0u32..70_000].boxed()
}

fn case_strategy() -> BoxedStrategy<Case> {
    let clock = prop_oneof![
        1 => Just(None),
        3 => Just(Some(0u64)),
        3 => Just(Some(1_700_000_000_000u64)),
        2 => (0u64..200_000).prop_map(|d| Some(T48 - d)),
        1 => Just(Some(T48)),
        2 => any::<u64>().prop_map(|x| Some(x & T48)),
    ];
    // often all legs equal (the error must then vanish)
    let delays = prop_oneof![
        3 => delay().prop_map(|d| (d, d, d, d)),
        2 => (delay(), delay(), delay(), delay()),
        1 => (delay(), delay()).prop_map(|(a, b)| (a, a, b, b)),
    ];
    let reported = prop_oneof![3 => Just(0u16), 1 => Just(1), 1 => Just(500), 1 => Just(65535), 2 => any::<u16>(), 1 => 0u16..2000];
    (
        0u8..3,
        clock,
        delays,
        reported,
        prop_oneof![4 => Just(true), 1 => Just(false)],
        prop_oneof![5 => Just(true), 1 => Just(false)],
        prop_oneof![6 => Just(0u8), 1 => Just(1u8), 1 => Just(2u8), 1 => Just(3u8), 1 => Just(4u8), 1 => Just(5u8)],
        prop_oneof![3 => Just(false), 1 => Just(true)],
        proptest::collection::vec(0u32..150_000, 0..4),
        proptest::collection::vec(0u32..150_000, 0..3),
        prop_oneof![Just(0u32), Just(1), 0u32..100_000],
        (
            prop_oneof![3 => Just(vec![]), 2 => proptest::collection::vec((0u8..3, 0u8..3, prop_oneof![Just(0u32), Just(5000u32), 0u32..60_000]), 1..3)],
            prop_oneof![3 => Just(false), 1 => Just(true)],
        ),
    )
        .prop_map(|(procedure, clock, (f1, b1, f2, b2), reported, honest, clears_need_time, write_result, unsolicited, updates_at, bogus_at, start_at, (prelude, busy))| Case { procedure, clock, f1, b1, f2, b2, reported, honest, clears_need_time, write_result, unsolicited, updates_at: if unsolicited { updates_at } else { vec![] }, bogus_at, start_at, prelude, busy })
        .boxed()
}

pub struct Accuracy;
impl Prop for Accuracy {
    type Case = Case;
    const ID: &'static str = "C18";
    const NAME: &'static str = "accuracy";
    const TRACK_STALL: bool = true;
    fn rule() -> &'static str {
        "a real master and a real outstation joined by a proxy with scripted one-way delays per message (0..70000 ms, often all equal); master clock offsets incl. values within reach of 2^48-1 and no clock; the three procedures; reported processing delays 0..65535, honest (the reply really takes that long) or not; an application that keeps NEED_TIME set or rejects the write; unsolicited reports and wrong-sequence replies interleaved at generated instants. If the master reports success, exactly one write_absolute_time happened and its value differs from the master's clock at that virtual instant by at most the one-way delay (LAN, direct write) or the largest difference between the one-way delays (non-LAN), +1 ms; if the reported processing delay exceeds the round trip, NEED_TIME persists, the application rejects the write, the time does not fit 48 bits or the master has no clock, success must not be reported; non-trivial = unequal non-zero delays, a failure condition, or a success with delays > 1 ms"
    }
    fn strategy(_tier: Tier) -> BoxedStrategy<Case> {
        case_strategy()
    }
    fn cases(tier: Tier) -> u32 {
        match tier {
            Tier::Quick => 40_000,
            Tier::Thorough => 3_000_000,
        }
    }
    fn run(case: &Case) -> CaseOut {
        run_case(case)
    }
    fn floors() -> Vec<(&'static str, u32)> {
        vec![
            ("reported_success", 250),
            ("failure_condition", 150),
            ("lan", 200),
            ("non_lan", 200),
            ("exact", 50),
            ("prelude", 200),
            ("prelude_cut", 50),
        ]
    }
}

pub fn run<C: Codec>(tier: Tier) -> i32 {
    let mut ctx = Ctx::<C>::new("C18", tier);
    ctx.assumptions.push("both endpoints and the proxy share one virtual clock (paused tokio runtime): 'the master's clock at that instant' is exact; replies with unexpected objects cannot be produced by the real outstation: sub-check `unexpected` scripts them against the real master".into());
    ctx.assumptions.push("a dishonest processing-delay report is only required to be caught when it exceeds the round trip; whether a fault-free synchronisation must succeed is not part of the statement (observed as a label)".into());
    ctx.run::<Accuracy>();
    ctx.run::<super::c18u::Unexpected>();
    ctx.finish()
}

pub fn replay<C: Codec>(text: &str, known: &[Known]) -> Option<i32> {
    replay_file::<C, Accuracy>(text, known)
        .or_else(|| replay_file::<C, super::c18u::Unexpected>(text, known))
}
