//! C02 over real sockets and real threads: public API only (`spawn_master_tcp_client` <-> byte proxy on 127.0.0.1 <->
//! `Server::add_outstation`), multi-thread runtime, real time with short timeouts. Only safety clauses can produce a
//! violation here (authentic values, events at least once *once convergence has been observed*); not converging
//! within the wall-clock budget is reported as a label, never as a violation (the deterministic PairRig owns liveness).
use crate::app::{ConnectStrategy, NullListener, RetryStrategy, Timeout};
use crate::link::{EndpointAddress, LinkErrorMode};
use crate::master::*;
use crate::outstation::database::*;
use crate::outstation::*;
use crate::tcp::{spawn_master_tcp_client, AddressFilter, EndpointList, Server};
use crate::verif::engine::*;
use crate::verif::props::c10::{self, carry_check, Rec, Value};
use crate::verif::props::ost::{add_point, PointSpec, EVENT_VARS, STATIC_VARS, TYPE_NAMES};
use crate::verif::rig::handler::{HEv, Item, RecHandler};
use crate::verif::rig::master::InfoLog;
use proptest::prelude::*;
use serde::{Deserialize, Serialize};
use std::collections::{BTreeMap, BTreeSet};
use std::sync::atomic::{AtomicBool, AtomicUsize, Ordering};
use std::sync::{Arc, Mutex};
use std::time::Duration;
use tokio::io::{AsyncReadExt, AsyncWriteExt};

#[derive(Clone, Debug, Serialize, Deserialize)]
pub enum Op {
    Update(u16, u8),
    /// a burst of updates from another OS thread while the sessions run
    Burst(u16, u8),
    WaitMs(u8),
    Cut,
    Chunk(u16),
}

#[derive(Clone, Debug, Serialize, Deserialize)]
pub struct Case {
    pub points: Vec<PointSpec>,
    pub unsolicited: bool,
    pub buffer: u16,
    pub sol_tx: u16,
    pub discard: bool,
    pub ops: Vec<Op>,
}

struct Ctl {
    cut: AtomicBool,
    chunk: AtomicUsize,
    conns: AtomicUsize,
}

async fn pump(
    mut from: tokio::net::tcp::OwnedReadHalf,
    mut to: tokio::net::tcp::OwnedWriteHalf,
    ctl: Arc<Ctl>,
    gen: usize,
) {
    let mut buf = vec![0u8; 4096];
    loop {
        if ctl.cut.load(Ordering::Relaxed) || ctl.conns.load(Ordering::Relaxed) != gen {
            return;
        }
        let n = match tokio::time::timeout(Duration::from_millis(5), from.read(&mut buf)).await {
            Err(_) => continue,
            Ok(Ok(0)) | Ok(Err(_)) => return,
            Ok(Ok(n)) => n,
        };
        let chunk = ctl.chunk.load(Ordering::Relaxed);
        if chunk == 0 {
            if to.write_all(&buf[..n]).await.is_err() {
                return;
            }
        } else {
            for c in buf[..n].chunks(chunk) {
                if to.write_all(c).await.is_err() {
                    return;
                }
                let _ = to.flush().await;
                tokio::task::yield_now().await;
            }
        }
    }
}

async fn proxy(listener: tokio::net::TcpListener, server: std::net::SocketAddr, ctl: Arc<Ctl>) {
    loop {
        let Ok((client, _)) = listener.accept().await else {
            return;
        };
        let _ = client.set_nodelay(true);
        let Ok(up) = tokio::net::TcpStream::connect(server).await else {
            continue;
        };
        let _ = up.set_nodelay(true);
        let gen = ctl.conns.fetch_add(1, Ordering::Relaxed) + 1;
        ctl.cut.store(false, Ordering::Relaxed);
        let (cr, cw) = client.into_split();
        let (ur, uw) = up.into_split();
        tokio::spawn(pump(cr, uw, ctl.clone(), gen));
        tokio::spawn(pump(ur, cw, ctl.clone(), gen));
    }
}

struct App;
impl OutstationApplication for App {}
struct Info;
impl OutstationInformation for Info {}

fn unique(ty: u8, index: u16, serial: u32, global: u32, fsel: u8) -> Rec {
    let s = serial;
    let value = match ty {
        0 | 2 => Value::Bool(s % 2 == 1),
        1 => Value::Dbl((s % 4) as u8),
        3 | 4 => Value::Cnt((index as u32 % 50) * 1000 + (s % 1000)),
        5 | 6 => Value::Ana(((index as i32 % 30) * 1000 + (s % 1000) as i32 - 500) as f64),
        _ => Value::Oct(vec![ty, index as u8, s as u8, (s >> 8) as u8, global as u8]),
    };
    let flags = if ty == 7 {
        0
    } else {
        [0x01u8, 0x01, 0x03, 0x11, 0x21, 0x05, 0x09, 0x00][(fsel % 8) as usize]
            | (((s as u8) & 1) << 1)
    };
    let time = if ty == 7 {
        None
    } else {
        Some((1_000_000 + (global as u64 * 7919) % 131_071, true))
    };
    Rec { value, flags, time }
}

#[derive(Default)]
struct World {
    hist: BTreeMap<(u8, u16), Vec<Rec>>,
    cur: BTreeMap<(u8, u16), Rec>,
    serial: BTreeMap<(u8, u16), u32>,
    global: u32,
    events: BTreeMap<u64, (u8, u16, Rec)>,
    discarded: BTreeSet<u64>,
}

fn do_update(handle: &OutstationHandle, w: &Mutex<World>, key: (u8, u16), fsel: u8) {
    // the record is entered into the history BEFORE the database sees it: a delivery can never outrun the ledger
    let rec = {
        let mut w = w.lock().unwrap();
        let s = w.serial.entry(key).or_default();
        *s += 1;
        let serial = *s;
        w.global += 1;
        let g = w.global;
        let rec = unique(key.0, key.1, serial, g, fsel);
        w.hist.entry(key).or_default().push(rec.clone());
        rec
    };
    let info =
        handle.transaction(|db| c10::apply(db, key.0, key.1, &rec, UpdateOptions::detect_event()));
    let mut w = w.lock().unwrap();
    w.cur.insert(key, rec.clone());
    match info {
        UpdateInfo::Created(id) => {
            w.events.insert(id, (key.0, key.1, rec));
        }
        UpdateInfo::Overflow { created, discarded } => {
            w.events.insert(created, (key.0, key.1, rec));
            w.discarded.insert(discarded);
        }
        _ => {}
    }
}

fn authentic(w: &World, delivered: &[(u8, (u8, u8), bool, Item)], out: &mut CaseOut) {
    for (ty, (g, v), is_event, item) in delivered {
        let name = TYPE_NAMES.get(*ty as usize).copied().unwrap_or("?");
        let Some(h) = w.hist.get(&(*ty, item.index)) else {
            out.fail(Fail::new(
                "S1-fabricated",
                format!(
                    "the handler received {name}[{}] (g{g}v{v}) but no such point exists",
                    item.index
                ),
            ));
            return;
        };
        if !h
            .iter()
            .rev()
            .any(|rec| carry_check(*ty, *g, *v, rec, item).is_ok())
        {
            out.fail(Fail::new("S1-authentic", format!("the handler received {name}[{}] via g{g}v{v} ({}) = {:?}, which the point never held ({} records)", item.index, if *is_event { "event" } else { "static" }, item, h.len())));
            return;
        }
    }
}

pub fn run_case(case: &Case) -> CaseOut {
    let mut out = CaseOut::default();
    let rt = tokio::runtime::Builder::new_multi_thread()
        .worker_threads(2)
        .enable_all()
        .build()
        .expect("runtime");
    rt.block_on(async {
        // ---- outstation behind a real TCP server
        let mode = if case.discard { LinkErrorMode::Discard } else { LinkErrorMode::Close };
        let mut server = Server::new_tcp_server(mode, "127.0.0.1:0".parse().unwrap());
        let mut oc = OutstationConfig::new(EndpointAddress::try_new(1024).unwrap(), EndpointAddress::try_new(1).unwrap(), EventBufferConfig::all_types(case.buffer));
        oc.solicited_buffer_size = crate::app::BufferSize::new(case.sol_tx.clamp(249, 2048) as usize).unwrap();
        oc.confirm_timeout = Timeout::from_millis(250).unwrap();
        oc.features.unsolicited = if case.unsolicited { Feature::Enabled } else { Feature::Disabled };
        oc.unsolicited_retry_delay = Duration::from_millis(100);
        oc.class_zero.octet_string = true;
        let Ok(out_handle) = server.add_outstation(oc, Box::new(App), Box::new(Info), DefaultControlHandler::create(), NullListener::create(), AddressFilter::Any) else {
            out.label("setup_failed");
            return;
        };
        let Ok(server_handle) = server.bind().await else {
            out.label("setup_failed");
            return;
        };
        let Some(server_addr) = server_handle.local_addr() else {
            out.label("setup_failed");
            return;
        };
        // ---- proxy
        let Ok(listener) = tokio::net::TcpListener::bind("127.0.0.1:0").await else {
            out.label("setup_failed");
            return;
        };
        let proxy_addr = listener.local_addr().unwrap();
        let ctl = Arc::new(Ctl { cut: AtomicBool::new(false), chunk: AtomicUsize::new(0), conns: AtomicUsize::new(0) });
        tokio::spawn(proxy(listener, server_addr, ctl.clone()));
        // ---- master through the public API
        let mut mc = MasterChannelConfig::new(EndpointAddress::try_new(1).unwrap());
        mc.rx_buffer_size = crate::app::BufferSize::new(2048).unwrap();
        let mut channel = spawn_master_tcp_client(mode, mc, EndpointList::single(proxy_addr.to_string()), ConnectStrategy::new(Duration::from_millis(10), Duration::from_millis(40), Duration::from_millis(10)), NullListener::create());
        let mut ac = AssociationConfig::new(EventClasses::all(), if case.unsolicited { EventClasses::all() } else { EventClasses::none() }, Classes::all(), EventClasses::all());
        ac.response_timeout = Timeout::from_millis(300).unwrap();
        ac.auto_tasks_retry_strategy = RetryStrategy::new(Duration::from_millis(20), Duration::from_millis(100));
        let read = RecHandler::default();
        let info = InfoLog { log: Default::default(), start: None };
        struct NoClock;
        impl AssociationHandler for NoClock {}
        let Ok(mut assoc) = channel.add_association(EndpointAddress::try_new(1024).unwrap(), ac, Box::new(read.clone()), Box::new(NoClock), Box::new(info.clone())).await else {
            out.label("setup_failed");
            return;
        };
        let _ = assoc.add_poll(ReadRequest::class_scan(Classes::all()), Duration::from_millis(120)).await;
        // ---- points
        let world = Arc::new(Mutex::new(World::default()));
        let mut order: Vec<(u8, u16)> = vec![];
        out_handle.transaction(|db| {
            let mut w = world.lock().unwrap();
            for p in &case.points {
                let mut p = p.clone();
                if p.class == 0 {
                    p.class = 1;
                }
                if order.contains(&(p.ty, p.index)) {
                    continue;
                }
                if add_point(db, &p) {
                    let key = (p.ty, p.index);
                    order.push(key);
                    if let Some(r) = c10::current(db, p.ty, p.index) {
                        w.hist.entry(key).or_default().push(r.clone());
                        w.cur.insert(key, r);
                    }
                }
            }
        });
        if order.is_empty() {
            return;
        }
        let _ = channel.enable().await;
        let mut delivered: Vec<(u8, (u8, u8), bool, Item)> = vec![];
        let mut absorb = |delivered: &mut Vec<(u8, (u8, u8), bool, Item)>| {
            for e in read.take() {
                if let HEv::Meas(ty, gv, is_event, _, items) = e {
                    for it in items {
                        delivered.push((ty, gv, is_event, it));
                    }
                }
            }
        };
        // ---- script (real time)
        for op in &case.ops {
            match op {
                Op::Update(sel, f) => {
                    let key = order[(*sel as usize * order.len()) >> 16];
                    do_update(&out_handle, &world, key, *f);
                }
                Op::Burst(sel, n) => {
                    // updates from a plain OS thread, concurrently with both sessions
                    let (h, w, ord, sel, n) = (out_handle.clone(), world.clone(), order.clone(), *sel, 2 + (*n % 12));
                    let t = std::thread::spawn(move || {
                        for k in 0..n {
                            let key = ord[((sel as usize + k as usize * 7919) % 65536 * ord.len()) >> 16];
                            do_update(&h, &w, key, k);
                        }
                    });
                    tokio::time::sleep(Duration::from_millis(1)).await;
                    let _ = tokio::task::spawn_blocking(move || t.join()).await;
                    out.label("burst_from_thread");
                }
                Op::WaitMs(ms) => tokio::time::sleep(Duration::from_millis(*ms as u64 % 60)).await,
                Op::Cut => {
                    ctl.cut.store(true, Ordering::Relaxed);
                    out.label("cut");
                    tokio::time::sleep(Duration::from_millis(8)).await;
                }
                Op::Chunk(n) => ctl.chunk.store(*n as usize % 300, Ordering::Relaxed),
            }
            absorb(&mut delivered);
        }
        // S1 on everything delivered during the script: the ledger is complete for it (records enter before the database)
        {
            let w = world.lock().unwrap();
            authentic(&w, &delivered, &mut out);
        }
        if out.failed() {
            return;
        }
        // ---- convergence, within a wall-clock budget (inconclusive when exceeded)
        ctl.chunk.store(0, Ordering::Relaxed);
        let t_end = std::time::Instant::now();
        let _ = info.take();
        let mut started = false;
        let mut converged = false;
        let mut from = delivered.len();
        while t_end.elapsed() < Duration::from_millis(4000) {
            tokio::time::sleep(Duration::from_millis(15)).await;
            let before = delivered.len();
            absorb(&mut delivered);
            for (_, e) in info.take() {
                match e {
                    crate::verif::rig::master::InfoEv::TaskStart(kind, 1, _) if kind == "PeriodicPoll" || kind == "StartupIntegrity" => {
                        started = true;
                        from = before;
                    }
                    crate::verif::rig::master::InfoEv::TaskSuccess(kind, 1, _) if (kind == "PeriodicPoll" || kind == "StartupIntegrity") && started => converged = true,
                    crate::verif::rig::master::InfoEv::TaskFail(..) => started = false,
                    _ => {}
                }
            }
            if converged {
                break;
            }
        }
        tokio::time::sleep(Duration::from_millis(5)).await;
        absorb(&mut delivered);
        let w = world.lock().unwrap();
        authentic(&w, &delivered, &mut out);
        if out.failed() {
            return;
        }
        if !converged {
            out.label("not_converged_within_wall_clock_budget");
            return;
        }
        out.label("converged");
        // S2 / S3 only once convergence was observed: an integrity poll that started after the last update completed
        for key in &order {
            let rec = &w.cur[key];
            match delivered[from.min(delivered.len())..].iter().rev().find(|d| d.0 == key.0 && d.3.index == key.1 && !d.2) {
                None => {
                    out.fail(Fail::new("S2-missing", format!("{}[{}]: the integrity poll that completed after the last update delivered no static value", TYPE_NAMES[key.0 as usize], key.1)));
                    return;
                }
                Some((ty, (g, v), _, item)) => {
                    if let Err(e) = carry_check(*ty, *g, *v, rec, item) {
                        out.fail(Fail::new("S2-stale", format!("{}[{}]: last static value {:?} via g{g}v{v}, database holds {:?}: {e}", TYPE_NAMES[key.0 as usize], key.1, item, rec)));
                        return;
                    }
                }
            }
        }
        for (id, (ty, index, rec)) in &w.events {
            if w.discarded.contains(id) {
                continue;
            }
            if !delivered.iter().any(|(dty, (g, v), is_event, item)| *is_event && dty == ty && item.index == *index && carry_check(*ty, *g, *v, rec, item).is_ok()) {
                out.fail(Fail::new("S3-event-lost", format!("event id {id} ({}[{}] = {:?}) was never reported discarded and never reached the handler as an event", TYPE_NAMES[*ty as usize], index, rec)));
                return;
            }
        }
        out.nontrivial = out.labels.iter().any(|l| l == "cut" || l == "burst_from_thread");
        drop(w);
        drop(server_handle);
    });
    rt.shutdown_timeout(Duration::from_millis(200));
    out
}

pub struct Tcp;
impl Prop for Tcp {
    type Case = Case;
    const ID: &'static str = "C02";
    const NAME: &'static str = "tcp";
    const TRACK_STALL: bool = true;
    fn rule() -> &'static str {
        "public API only, real sockets and threads: spawn_master_tcp_client <-> byte proxy on 127.0.0.1 <-> Server::add_outstation on a multi-thread runtime with real (short) timeouts; histories of updates from the test task and in bursts from a separate OS thread, connection cuts at the proxy, re-chunking; S1 (every value delivered is one the point held; the ledger records a value before the database sees it) is judged always; S2/S3 only once an integrity poll that started after the last update has been seen to complete; not converging within 4 s of wall-clock time is a label, not a violation; non-trivial = a cut or a burst from another thread"
    }
    fn strategy(tier: Tier) -> BoxedStrategy<Case> {
        let n = if tier == Tier::Quick { 14 } else { 30 };
        let point = (0u8..8, 0u16..6, 1u8..=3, any::<u8>(), any::<u8>()).prop_map(
            |(ty, index, class, s, e)| {
                let sv = STATIC_VARS[ty as usize];
                let ev = EVENT_VARS[ty as usize];
                PointSpec {
                    ty,
                    index,
                    class,
                    svar: sv[s as usize % sv.len()],
                    evar: ev[e as usize % ev.len()],
                }
            },
        );
        let op = prop_oneof![
            6 => (any::<u16>(), any::<u8>()).prop_map(|(s, f)| Op::Update(s, f)),
            2 => (any::<u16>(), any::<u8>()).prop_map(|(s, n)| Op::Burst(s, n)),
            4 => any::<u8>().prop_map(Op::WaitMs),
            2 => Just(Op::Cut),
            1 => prop_oneof![Just(0u16), Just(1), Just(7), 1u16..300].prop_map(Op::Chunk),
        ];
        (
            proptest::collection::vec(point, 1..10),
            any::<bool>(),
            prop_oneof![Just(1u16), Just(3u16), Just(100u16)],
            prop_oneof![Just(249u16), Just(2048u16)],
            any::<bool>(),
            proptest::collection::vec(op, 1..n),
        )
            .prop_map(|(points, unsolicited, buffer, sol_tx, discard, ops)| Case {
                points,
                unsolicited,
                buffer,
                sol_tx,
                discard,
                ops,
            })
            .boxed()
    }
    fn cases(tier: Tier) -> u32 {
        match tier {
            Tier::Quick => 64,
            Tier::Thorough => 3_000,
        }
    }
    fn run(case: &Case) -> CaseOut {
        run_case(case)
    }
}
