//! C14 — unsolicited reporting obeys the start-up, enable, retry and deferral rules
use crate::verif::engine::*;
use crate::verif::props::evs::*;
use crate::verif::rig::runtime;
use proptest::prelude::*;

pub struct Unsol;

impl Prop for Unsol {
    type Case = Case;
    const ID: &'static str = "C14";
    const NAME: &'static str = "unsolicited";
    fn rule() -> &'static str {
        "the C03 history generator (updates by class, ENABLE/DISABLE_UNSOLICITED with class masks, right/wrong/solicited-bit unsolicited confirms, READs and other requests during the wait, time advances of 1 ms / timeout-1 / timeout+1 / retry delay+1 / random, reconnects; retries None/0/1/3) with unsolicited reporting enabled; oracle over the time-stamped unsolicited fragments: U1 only empty responses with fresh sequence numbers until one is confirmed (never re-sent unchanged), U2/U6 event objects only of classes whose ENABLE has been acknowledged and not disabled since, U3 no new response while the previous one is neither confirmed nor timed out, U4 retries byte-identical, not before the timeout, at most the configured number, U5 a new data series starts >= retry delay after a failed one, U7 a READ received during the wait is not answered during it and is answered when the series ends unless superseded, U8 with start-up done, an enabled class holding events, nothing outstanding and no delay pending an unsolicited response is on the wire at quiescence; non-trivial = a data-bearing series with >= 1 timeout or retry, or a deferred READ"
    }
    fn cases(tier: Tier) -> u32 {
        match tier {
            Tier::Quick => 120_000,
            Tier::Thorough => 4_800_000,
        }
    }
    fn floors() -> Vec<(&'static str, u32)> {
        vec![
            ("unsol_with_events", 80),
            ("data_series_retried", 10),
            ("deferred_read", 5),
            ("unsol_wait_past_its_timeout", 15),
        ]
    }
    fn strategy(tier: Tier) -> BoxedStrategy<Case> {
        // plus: DISABLE_UNSOLICITED sent by broadcast (no reply; it must stop the reporting all the same)
        (
            case_strategy(false, if tier == Tier::Quick { 24 } else { 48 }),
            proptest::collection::vec((any::<u16>(), 0u8..3), 0..2),
        )
            .prop_map(|(mut c, bd)| {
                c.unsolicited = true;
                for (pos, mode) in bd {
                    let i = (pos as usize * (c.ops.len() + 1)) >> 16;
                    c.ops.insert(i, Op::Broadcast(mode, 3));
                }
                c
            })
            .boxed()
    }
    fn run(case: &Case) -> CaseOut {
        let rt = runtime();
        let f = rt.block_on(run_history(case, false));
        let mut out = CaseOut::default();
        out.labels = f.labels;
        out.nontrivial = f.nontrivial_c14;
        out.fail = f.common.or(f.c14);
        out
    }
}

// ---------------------------------------------------------------------------------------------
// long time constants: the retry delay is a plain Duration, hours are legal

#[derive(Clone, Debug, serde::Serialize, serde::Deserialize)]
pub struct DelayCase {
    /// configured unsolicited retry delay in ms
    pub delay_ms: u64,
    pub retries: u8,
    /// confirm timeout in ms (1 ms ..= 1 h is what the configuration accepts)
    pub confirm_ms: u32,
}

pub struct LongDelays;

impl Prop for LongDelays {
    type Case = DelayCase;
    const ID: &'static str = "C14";
    const NAME: &'static str = "long_delays";
    fn rule() -> &'static str {
        "unsolicited retry delays from 1 ms to 48 h (around one hour in particular) and confirm timeouts up to one hour, 0-2 retries: an unsolicited response with an event is left unconfirmed until the series fails; the instant of every transmission is exact (virtual clock); oracle: the retries come one confirm timeout apart, and the next series - same event, next sequence number - starts no sooner than the configured retry delay after the failure, and not later than that plus one slice of the observation (2% of the delay); every case is non-trivial"
    }
    fn cases(tier: Tier) -> u32 {
        match tier {
            Tier::Quick => 2_000,
            Tier::Thorough => 100_000,
        }
    }
    fn strategy(_tier: Tier) -> BoxedStrategy<DelayCase> {
        let hour = 3_600_000u64;
        (
            prop_oneof![
                Just(1u64),
                Just(150),
                Just(5_000),
                Just(hour - 1),
                Just(hour),
                Just(hour + 1),
                Just(2 * hour),
                Just(48 * hour),
                1u64..10_000,
                hour..3 * hour
            ],
            0u8..3,
            prop_oneof![Just(100u32), Just(5_000), Just(3_600_000), 1u32..3_600_000],
        )
            .prop_map(|(delay_ms, retries, confirm_ms)| DelayCase {
                delay_ms,
                retries,
                confirm_ms,
            })
            .boxed()
    }
    fn run(case: &DelayCase) -> CaseOut {
        let rt = runtime();
        rt.block_on(run_delay(case))
    }
}

async fn run_delay(case: &DelayCase) -> CaseOut {
    use crate::outstation::database::UpdateOptions;
    use crate::verif::props::ost::*;
    use crate::verif::rig::outstation::*;
    use crate::verif::wire::app::func;
    let mut out = CaseOut::default();
    out.nontrivial = true;
    let mut cfg = OutConfig::default();
    cfg.unsolicited = true;
    cfg.confirm_timeout_ms = case.confirm_ms;
    cfg.max_unsol_retries = Some(case.retries);
    cfg.unsol_retry_delay_ms = case.delay_ms.min(u32::MAX as u64) as u32;
    cfg.unsol_retry_delay_long_ms = Some(case.delay_ms);
    cfg.keep_alive_ms = None;
    let mut rig = OutRig::start(cfg, AppBehaviour::default()).await;
    rig.db(|db| {
        add_point(
            db,
            &PointSpec {
                ty: 0,
                index: 0,
                class: 1,
                svar: 2,
                evar: 1,
            },
        );
    });
    rig.settle().await;
    confirm_null_unsol(&mut rig).await;
    rig.send(&enable_unsol(1, true, &[1, 2, 3]));
    rig.settle().await;
    let _ = rig.take_tx();
    rig.db(|db| {
        update_point(
            db,
            &unique_rec(0, 0, 1, 1, 0),
            UpdateOptions::detect_event(),
        )
    });
    rig.settle().await;
    // every unsolicited transmission from now on: (t, seq, bytes)
    let mut seen: Vec<(u64, u8, Vec<u8>)> = vec![];
    let mut absorb = |rig: &mut OutRig, seen: &mut Vec<(u64, u8, Vec<u8>)>| {
        for t in rig.take_tx() {
            if let Tx::Fragment { t, bytes, .. } = t {
                if bytes.len() >= 2 && bytes[1] == func::UNSOLICITED_RESPONSE {
                    seen.push((t, bytes[0] & 0x0F, bytes));
                }
            }
        }
    };
    absorb(&mut rig, &mut seen);
    if seen.len() != 1 {
        out.label("no_unsolicited_response");
        return out;
    }
    let t0 = seen[0].0;
    let ct = case.confirm_ms as u64;
    // let the series run out: (retries + 1) confirm timeouts
    for _ in 0..=case.retries {
        rig.advance(ct).await;
        absorb(&mut rig, &mut seen);
    }
    let first_seq = seen[0].1;
    let series: Vec<&(u64, u8, Vec<u8>)> = seen.iter().filter(|x| x.1 == first_seq).collect();
    for (k, x) in series.iter().enumerate() {
        if x.0 != t0 + k as u64 * ct || x.2 != series[0].2 {
            out.fail(Fail::new("U4-retry-timing", format!("transmission #{k} of the series at t={} (series began at t={t0}, confirm timeout {ct} ms), identical = {}", x.0, x.2 == series[0].2)));
            return out;
        }
    }
    if series.len() > 1 + case.retries as usize {
        out.fail(Fail::new(
            "U4-too-many-retries",
            format!(
                "{} transmissions with max_unsolicited_retries = {}",
                series.len(),
                case.retries
            ),
        ));
        return out;
    }
    let tf = t0 + series.len() as u64 * ct;
    // watch for the next series in slices of 2% of the delay (at least 1 ms)
    let slice = (case.delay_ms / 50).max(1);
    let mut next: Option<u64> = seen.iter().find(|x| x.1 != first_seq).map(|x| x.0);
    let mut waited = 0u64;
    while next.is_none() && waited < case.delay_ms + 2 * slice {
        rig.advance(slice).await;
        waited += slice;
        absorb(&mut rig, &mut seen);
        next = seen.iter().find(|x| x.1 != first_seq).map(|x| x.0);
    }
    match next {
        None => out.fail(Fail::new("U8-no-new-series", format!("the series failed at t={tf}; {} ms later (retry delay {} ms) no new unsolicited series has started although the event is still buffered and its class enabled", waited, case.delay_ms))),
        Some(t) => {
            if t < tf + case.delay_ms {
                out.fail(
                    Fail::new("U5-retry-delay", format!("the series failed at t={tf}; the next one started at t={t}, i.e. after {} ms, the configured retry delay is {} ms", t - tf, case.delay_ms))
                        .with_sig("C14 U5-retry-delay long".to_string()),
                );
            }
        }
    }
    if let Some(f) = rig.task_failure.take() {
        out.fail(f);
    }
    out
}

pub fn run<C: Codec>(tier: Tier) -> i32 {
    let mut ctx = Ctx::<C>::new("C14", tier);
    ctx.assumptions.push("a series with fewer retries than the limit is not a violation ('up to'); events exactly at a deadline instant are not judged; ENABLE/DISABLE take effect when their reply is observed".into());
    ctx.run::<Unsol>();
    ctx.run::<LongDelays>();
    ctx.finish()
}

pub fn replay<C: Codec>(text: &str, known: &[Known]) -> Option<i32> {
    replay_file::<C, Unsol>(text, known).or_else(|| replay_file::<C, LongDelays>(text, known))
}
