//! C14 — unsolicited reporting obeys the start-up, enable, retry and deferral rules
use crate::verif::engine::*;
use crate::verif::props::evs::*;
use crate::verif::rig::runtime;
use proptest::prelude::*;

pub struct Unsol;

impl Prop for Unsol {
    type Case = Case;
    const ID: &'static str = "C14";
    const NAME: &'static str = "unsolicited";
    fn rule() -> &'static str {
        "the C03 history generator (updates by class, ENABLE/DISABLE_UNSOLICITED with class masks, right/wrong/solicited-bit unsolicited confirms, READs and other requests during the wait, time advances of 1 ms / timeout-1 / timeout+1 / retry delay+1 / random, reconnects; retries None/0/1/3) with unsolicited reporting enabled; oracle over the time-stamped unsolicited fragments: U1 only empty responses with fresh sequence numbers until one is confirmed (never re-sent unchanged), U2/U6 event objects only of classes whose ENABLE has been acknowledged and not disabled since, U3 no new response while the previous one is neither confirmed nor timed out, U4 retries byte-identical, not before the timeout, at most the configured number, U5 a new data series starts >= retry delay after a failed one, U7 a READ received during the wait is not answered during it and is answered when the series ends unless superseded, U8 with start-up done, an enabled class holding events, nothing outstanding and no delay pending an unsolicited response is on the wire at quiescence; non-trivial = a data-bearing series with >= 1 timeout or retry, or a deferred READ"
    }
    fn cases(tier: Tier) -> u32 {
        match tier {
            Tier::Quick => 120_000,
            Tier::Thorough => 4_800_000,
        }
    }
    fn floors() -> Vec<(&'static str, u32)> {
        vec![
            ("unsol_with_events", 80),
            ("data_series_retried", 10),
            ("deferred_read", 5),
            ("unsol_series_timed_out", 15),
        ]
    }
    fn strategy(tier: Tier) -> BoxedStrategy<Case> {
        // plus: DISABLE_UNSOLICITED sent by broadcast (no reply; it must stop the reporting all the same)
        (
            case_strategy(false, if tier == Tier::Quick { 24 } else { 48 }),
            proptest::collection::vec((any::<u16>(), 0u8..3), 0..2),
        )
            .prop_map(|(mut c, bd)| {
                c.unsolicited = true;
                for (pos, mode) in bd {
                    let i = (pos as usize * (c.ops.len() + 1)) >> 16;
                    c.ops.insert(i, Op::Broadcast(mode, 3));
                }
                c
            })
            .boxed()
    }
    fn run(case: &Case) -> CaseOut {
        let rt = runtime();
        let f = rt.block_on(run_history(case, false));
        let mut out = CaseOut::default();
        out.labels = f.labels;
        out.nontrivial = f.nontrivial_c14;
        out.fail = f.common.or(f.c14);
        out
    }
}

pub fn run<C: Codec>(tier: Tier) -> i32 {
    let mut ctx = Ctx::<C>::new("C14", tier);
    ctx.assumptions.push("a series with fewer retries than the limit is not a violation ('up to'); events exactly at a deadline instant are not judged; ENABLE/DISABLE take effect when their reply is observed".into());
    ctx.run::<Unsol>();
    ctx.finish()
}

pub fn replay<C: Codec>(text: &str, known: &[Known]) -> Option<i32> {
    replay_file::<C, Unsol>(text, known)
}
