//! C16 — commands succeed only if truly accepted; every request gets exactly one outcome
use crate::app::control::*;
use crate::app::variations::{
    Group12Var1, Group41Var1, Group41Var2, Group41Var3, Group41Var4, Variation,
};
use crate::app::{FunctionCode, MaybeAsync};
use crate::master::*;
use crate::verif::engine::*;
use crate::verif::rig::master::*;
use crate::verif::rig::runtime;
use crate::verif::wire::app::{self as ra, func, Fragment};
use crate::verif::wire::link as rl;
use proptest::prelude::*;
use serde::{Deserialize, Serialize};
use std::sync::{Arc, Mutex};

pub const OUT: u16 = 1024;
pub const TIMEOUT: u64 = 1000;

// ---------------------------------------------------------------------------------------------
// commands

#[derive(Clone, Debug, Serialize, Deserialize)]
pub struct CmdHdr {
    /// 0 = g12v1, 1..=4 = g41v1..4
    pub kind: u8,
    pub two_byte: bool,
    pub objs: Vec<(u16, u8)>,
}

#[derive(Clone, Debug, Serialize, Deserialize, PartialEq)]
pub enum Deviation {
    /// status octet of object k set to a non-zero code
    Status(u16, u8),
    /// one octet of the value of object k changed
    ValueByte(u16, u8),
    Index(u16),
    Dropped,
    Added,
    HeadersSwapped,
    QualifierChanged,
    Iin2(u8),
    WrongSeq(u8),
    Late,
    Lost,
    /// echo split into two fragments (FIN cleared)
    NotFin,
}

#[derive(Clone, Debug, Serialize, Deserialize)]
pub struct CmdCase {
    pub sbo: bool,
    pub headers: Vec<CmdHdr>,
    /// (step 1 or 2, deviation); None = faithful echoes
    pub dev: Option<(u8, Deviation)>,
    /// the headers are not closed with finish_header(): the builder starts a new header by itself whenever the control
    /// type or the index width changes (adjacent headers of one kind merge)
    #[serde(default)]
    pub implicit: bool,
}

/// the objects the user asked for, in order, as (group, variation, two-octet index?, index, object octets): reference
/// encoding per IEEE 1815 (CROB: code, count, on, off, status; analog outputs: value little-endian, status)
fn requested_objects(hs: &[CmdHdr]) -> Vec<(u8, u8, bool, u32, Vec<u8>)> {
    let mut out = vec![];
    for h in hs {
        for (idx, p) in &h.objs {
            let index = if h.two_byte {
                *idx as u32
            } else {
                (*idx as u8) as u32
            };
            let (g, v, data): (u8, u8, Vec<u8>) = match h.kind {
                0 => (
                    12,
                    1,
                    ra::crob(if p % 2 == 0 { 3 } else { 4 }, 1, 100 + *p as u32, 10, 0),
                ),
                1 => {
                    let mut d = (*p as i32 * 1000 - 5).to_le_bytes().to_vec();
                    d.push(0);
                    (41, 1, d)
                }
                2 => {
                    let mut d = (*p as i16 * 100 - 5).to_le_bytes().to_vec();
                    d.push(0);
                    (41, 2, d)
                }
                3 => {
                    let mut d = (*p as f32 * 0.5).to_le_bytes().to_vec();
                    d.push(0);
                    (41, 3, d)
                }
                _ => {
                    let mut d = (*p as f64 * 0.25).to_le_bytes().to_vec();
                    d.push(0);
                    (41, 4, d)
                }
            };
            out.push((g, v, h.two_byte, index, data));
        }
    }
    out
}

fn build_commands(hs: &[CmdHdr], implicit: bool) -> CommandHeaders {
    let mut b = CommandBuilder::new();
    for h in hs {
        for (idx, p) in &h.objs {
            let i8 = *idx as u8;
            match (h.kind, h.two_byte) {
                (0, false) => b.add_u8(
                    Group12Var1::new(
                        ControlCode::from_op_type(if p % 2 == 0 {
                            OpType::LatchOn
                        } else {
                            OpType::LatchOff
                        }),
                        1,
                        100 + *p as u32,
                        10,
                    ),
                    i8,
                ),
                (0, true) => b.add_u16(
                    Group12Var1::new(
                        ControlCode::from_op_type(if p % 2 == 0 {
                            OpType::LatchOn
                        } else {
                            OpType::LatchOff
                        }),
                        1,
                        100 + *p as u32,
                        10,
                    ),
                    *idx,
                ),
                (1, false) => b.add_u8(Group41Var1::new(*p as i32 * 1000 - 5), i8),
                (1, true) => b.add_u16(Group41Var1::new(*p as i32 * 1000 - 5), *idx),
                (2, false) => b.add_u8(Group41Var2::new(*p as i16 * 100 - 5), i8),
                (2, true) => b.add_u16(Group41Var2::new(*p as i16 * 100 - 5), *idx),
                (3, false) => b.add_u8(Group41Var3::new(*p as f32 * 0.5), i8),
                (3, true) => b.add_u16(Group41Var3::new(*p as f32 * 0.5), *idx),
                (_, false) => b.add_u8(Group41Var4::new(*p as f64 * 0.25), i8),
                (_, true) => b.add_u16(Group41Var4::new(*p as f64 * 0.25), *idx),
            }
        }
        if !implicit {
            b.finish_header();
        }
    }
    b.build()
}

/// re-encode the request's objects with one deviation
fn deviate(objects: &[u8], d: &Deviation) -> Vec<u8> {
    let mut hs: Vec<(u8, u8, u8, Vec<(u32, Vec<u8>)>)> = ra::walk(func::DIRECT_OPERATE, objects)
        .unwrap_or_default()
        .into_iter()
        .map(|h| {
            (
                h.g,
                h.v,
                h.q,
                h.objects
                    .into_iter()
                    .map(|o| (o.index.unwrap_or(0), o.data))
                    .collect(),
            )
        })
        .collect();
    let total: usize = hs.iter().map(|h| h.3.len()).sum();
    let locate = |k: u16, hs: &Vec<(u8, u8, u8, Vec<(u32, Vec<u8>)>)>| -> (usize, usize) {
        let mut n = (k as usize * total.max(1)) >> 16;
        for (hi, h) in hs.iter().enumerate() {
            if n < h.3.len() {
                return (hi, n);
            }
            n -= h.3.len();
        }
        (0, 0)
    };
    match d {
        Deviation::Status(k, code) => {
            let (h, o) = locate(*k, &hs);
            let data = &mut hs[h].3[o].1;
            let n = data.len();
            data[n - 1] = (*code % 126) + 1;
        }
        Deviation::ValueByte(k, b) => {
            let (h, o) = locate(*k, &hs);
            let data = &mut hs[h].3[o].1;
            let n = data.len() - 1;
            data[(*b as usize) % n] ^= 0x04;
        }
        Deviation::Index(k) => {
            let (h, o) = locate(*k, &hs);
            hs[h].3[o].0 = (hs[h].3[o].0 + 1) % 200;
        }
        Deviation::Dropped => {
            let last = hs.len() - 1;
            hs[last].3.pop();
            if hs[last].3.is_empty() {
                hs.pop();
            }
        }
        Deviation::Added => {
            let last = hs.len() - 1;
            let o = hs[last].3.last().cloned().unwrap();
            hs[last].3.push((o.0 + 1, o.1));
        }
        Deviation::HeadersSwapped => {
            if hs.len() >= 2 {
                hs.swap(0, 1);
            } else if hs[0].3.len() >= 2 {
                hs[0].3.swap(0, 1);
            } else {
                hs[0].3[0].0 = (hs[0].3[0].0 + 1) % 200;
            }
        }
        Deviation::QualifierChanged => {
            hs[0].2 = if hs[0].2 == 0x17 { 0x28 } else { 0x17 };
        }
        _ => {}
    }
    let mut out = vec![];
    for (g, v, q, objs) in hs {
        if q == 0x17 {
            out.extend(ra::h_prefixed8(
                g,
                v,
                &objs
                    .iter()
                    .map(|(i, d)| (*i as u8, d.clone()))
                    .collect::<Vec<_>>(),
            ));
        } else {
            out.extend(ra::h_prefixed16(
                g,
                v,
                &objs
                    .iter()
                    .map(|(i, d)| (*i as u16, d.clone()))
                    .collect::<Vec<_>>(),
            ));
        }
    }
    out
}

pub struct Commands;

impl Prop for Commands {
    type Case = CmdCase;
    const ID: &'static str = "C16";
    const NAME: &'static str = "commands";
    fn rule() -> &'static str {
        "command sets (g12v1, g41v1-4, 8- and 16-bit indices, 1-3 headers of 1-4 objects) in DirectOperate or SelectBeforeOperate mode; the harness answers with the faithful echo or with exactly one deviation at step 1 or 2 (one status != 0, one value octet, one index, one object dropped/added, headers or objects swapped, qualifier changed, IIN2 error bit, wrong sequence number, late, lost, FIN cleared); oracle: the user future is Ok iff every step was echoed faithfully; OPERATE is transmitted only after a faithful SELECT echo, with the next sequence number and octet-identical objects; after any deviation no further step is sent; non-trivial = a one-deviation echo"
    }
    fn cases(tier: Tier) -> u32 {
        match tier {
            Tier::Quick => 200_000,
            Tier::Thorough => 8_000_000,
        }
    }
    fn floors() -> Vec<(&'static str, u32)> {
        vec![("faithful", 80), ("deviation_at_step_2", 80)]
    }
    fn strategy(_tier: Tier) -> BoxedStrategy<CmdCase> {
        let hdr = (
            0u8..5,
            any::<bool>(),
            proptest::collection::vec((0u16..200, any::<u8>()), 1..=4),
        )
            .prop_map(|(kind, two_byte, objs)| CmdHdr {
                kind,
                two_byte,
                objs,
            });
        let dev = prop_oneof![
            (any::<u16>(), any::<u8>()).prop_map(|(k, c)| Deviation::Status(k, c)),
            (any::<u16>(), any::<u8>()).prop_map(|(k, b)| Deviation::ValueByte(k, b)),
            any::<u16>().prop_map(Deviation::Index),
            Just(Deviation::Dropped),
            Just(Deviation::Added),
            Just(Deviation::HeadersSwapped),
            Just(Deviation::QualifierChanged),
            (1u8..8).prop_map(Deviation::Iin2),
            (1u8..16).prop_map(Deviation::WrongSeq),
            Just(Deviation::Late),
            Just(Deviation::Lost),
            Just(Deviation::NotFin),
        ];
        (
            any::<bool>(),
            proptest::collection::vec(hdr, 1..=3),
            proptest::option::weighted(0.85, (1u8..=2, dev)),
            any::<bool>(),
        )
            .prop_map(|(sbo, headers, dev, implicit)| CmdCase {
                sbo,
                headers,
                dev,
                implicit,
            })
            .boxed()
    }
    fn run(case: &CmdCase) -> CaseOut {
        let rt = runtime();
        rt.block_on(run_cmd(case))
    }
}

async fn run_cmd(case: &CmdCase) -> CaseOut {
    let mut out = CaseOut::default();
    let mut rig = MasterRig::start(true, [0; 4], 2048).await;
    rig.add_association(OUT, assoc_config(TIMEOUT), Some(0))
        .await;
    rig.connect().await;
    let mut h = rig.assocs[&OUT].handle.clone();
    let cmds = build_commands(&case.headers, case.implicit);
    if case.implicit && case.headers.len() >= 2 {
        out.label("headers_closed_by_the_builder");
    }
    let mode = if case.sbo {
        CommandMode::SelectBeforeOperate
    } else {
        CommandMode::DirectOperate
    };
    let pending = rig.submit("operate", async move { h.operate(mode, cmds).await });
    rig.settle().await;
    let steps = if case.sbo { 2 } else { 1 };
    let mut faithful_so_far = true;
    let mut first: Option<(u8, Vec<u8>)> = None;
    let dev_step = case.dev.as_ref().map(|d| d.0.min(steps)).unwrap_or(0);
    if case.dev.is_none() {
        out.label("faithful");
    } else {
        out.nontrivial = true;
        out.label(format!("deviation_at_step_{dev_step}"));
    }
    for step in 1..=steps {
        let reqs = rig.take_requests();
        let req = match reqs
            .iter()
            .find(|(_, d, f)| *d == OUT && f.func != func::CONFIRM)
        {
            Some((_, _, f)) => f.clone(),
            None => {
                if faithful_so_far {
                    out.fail(Fail::new(
                        "step-not-sent",
                        format!("step {step} of the command was not transmitted"),
                    ));
                }
                break;
            }
        };
        if !faithful_so_far {
            out.fail(
                Fail::new("step-after-unfaithful-echo", format!("the master sent function {} although the previous step was not echoed faithfully ({:?})", req.func, case.dev))
                    .with_sig(format!("C16 operate-after-deviation {:?}", case.dev.as_ref().map(|d| std::mem::discriminant(&d.1)))),
            );
            break;
        }
        let want_func = if !case.sbo {
            func::DIRECT_OPERATE
        } else if step == 1 {
            func::SELECT
        } else {
            func::OPERATE
        };
        if req.func != want_func {
            out.fail(Fail::new(
                "wrong-step-function",
                format!(
                    "step {step}: function {} transmitted, expected {want_func}",
                    req.func
                ),
            ));
            break;
        }
        // what goes out is what was asked for: every requested object, in order, in the requested encoding
        let on_wire: Vec<(u8, u8, bool, u32, Vec<u8>)> = ra::walk(req.func, &req.objects)
            .unwrap_or_default()
            .into_iter()
            .flat_map(|h| {
                let (g, v, wide) = (h.g, h.v, h.q == 0x28);
                h.objects
                    .into_iter()
                    .map(move |o| (g, v, wide, o.index.unwrap_or(0), o.data))
            })
            .collect();
        let asked = requested_objects(&case.headers);
        if on_wire != asked {
            let at = on_wire
                .iter()
                .zip(asked.iter())
                .position(|(a, b)| a != b)
                .unwrap_or(on_wire.len().min(asked.len()));
            out.fail(
                Fail::new(
                    "request-differs-from-what-was-asked",
                    format!("step {step}: {} objects requested, {} on the wire; first difference at object #{at}: asked {:?}, sent {:?}", asked.len(), on_wire.len(), asked.get(at), on_wire.get(at)),
                )
                .with_sig("C16 request-differs-from-what-was-asked"),
            );
            break;
        }
        match &first {
            None => first = Some((req.seq, req.objects.clone())),
            Some((s, o)) => {
                if req.seq != (s + 1) & 0x0F || req.objects != *o {
                    out.fail(Fail::new(
                        "operate-differs-from-select",
                        format!(
                            "OPERATE seq {} objects {:02x?} after SELECT seq {} objects {:02x?}",
                            req.seq, req.objects, s, o
                        ),
                    ));
                    break;
                }
            }
        }
        // the echo
        let mut echo = Fragment {
            fir: true,
            fin: true,
            con: false,
            uns: false,
            seq: req.seq,
            func: func::RESPONSE,
            iin: Some((0, 0)),
            objects: req.objects.clone(),
        };
        let mut send = true;
        if step == dev_step {
            faithful_so_far = false;
            match &case.dev.as_ref().unwrap().1 {
                Deviation::Iin2(b) => echo.iin = Some((0, *b)),
                Deviation::WrongSeq(d) => echo.seq = (echo.seq + d) & 0x0F,
                Deviation::Late => {
                    rig.advance(TIMEOUT + 1).await;
                }
                Deviation::Lost => send = false,
                Deviation::NotFin => {
                    echo.fin = false;
                    echo.con = true;
                }
                d => echo.objects = deviate(&req.objects, d),
            }
            if echo.objects == req.objects
                && echo.iin == Some((0, 0))
                && echo.seq == req.seq
                && echo.fin
                && send
                && !matches!(case.dev.as_ref().unwrap().1, Deviation::Late)
            {
                // the deviation had no effect on this command set (e.g. swapping two identical objects)
                faithful_so_far = true;
                out.label("deviation_without_effect");
            }
        }
        if send {
            rig.respond(OUT, &echo);
        }
        rig.settle().await;
    }
    // anything still waiting times out
    rig.advance(TIMEOUT + 1).await;
    let stray = rig.take_requests();
    if !faithful_so_far
        && stray
            .iter()
            .any(|(_, _, f)| f.func == func::OPERATE || f.func == func::DIRECT_OPERATE)
    {
        out.fail(Fail::new(
            "step-after-unfaithful-echo",
            format!(
                "after a deviating echo the master still transmitted {:?}",
                stray.iter().map(|x| x.2.func).collect::<Vec<_>>()
            ),
        ));
    }
    let res = pending.outcomes();
    if res.len() != 1 {
        out.fail(Fail::new(
            "not-exactly-one-outcome",
            format!("the command future resolved {} times", res.len()),
        ));
    } else {
        let ok = res[0].1.starts_with("Ok");
        if ok != faithful_so_far {
            out.fail(
                Fail::new(
                    if ok {
                        "command-reported-success-without-faithful-echo"
                    } else {
                        "faithfully-echoed-command-failed"
                    },
                    format!(
                        "outcome {} with deviation {:?} (mode {})",
                        res[0].1,
                        case.dev,
                        if case.sbo {
                            "select-before-operate"
                        } else {
                            "direct operate"
                        }
                    ),
                )
                .with_sig(format!(
                    "C16 command outcome ok={ok} dev={:?}",
                    case.dev.as_ref().map(|d| std::mem::discriminant(&d.1))
                )),
            );
        }
    }
    if let Some(f) = rig.task_failure.take() {
        out.fail(f);
    }
    out
}

// ---------------------------------------------------------------------------------------------
// exactly one outcome

#[derive(Clone, Debug, Serialize, Deserialize, PartialEq)]
pub enum FaultKind {
    /// the reply to the step after `after_step` never comes
    ReplyLost,
    Disconnect,
    Disable,
    RemoveAssociation,
    None,
}

#[derive(Clone, Debug, Serialize, Deserialize)]
pub struct OutcomeCase {
    /// request kind, see `KINDS`
    pub kind: u8,
    pub after_step: u8,
    pub fault: FaultKind,
    /// the file reader aborts at `opened` (1) / at the first block (2) / never (0)
    pub reader_abort: u8,
    /// 0 = nothing else; k+1 = a second request of kind k is submitted right behind the first and waits in the queue
    #[serde(default)]
    pub queued: u8,
    /// with a lost reply: what the outstation sends instead of the reply. 0 nothing, 1 a REQUEST_LINK_STATUS frame,
    /// 2 a LINK_STATUS frame from another outstation address, 3 a null unsolicited response, 4 a response with another
    /// sequence number, 5 a response from another outstation address - none of them is the answer
    #[serde(default)]
    pub noise: u8,
}

pub const KINDS: [(&str, u8); 18] = [
    ("read", 1),
    ("command_sbo", 2),
    ("command_direct", 1),
    ("time_sync_lan", 2),
    ("time_sync_non_lan", 2),
    ("time_sync_direct", 1),
    ("cold_restart", 1),
    ("warm_restart", 1),
    ("write_dead_bands", 1),
    ("empty_response", 1),
    ("link_status", 1),
    ("read_file", 4),
    ("file_auth", 1),
    ("file_open", 1),
    ("file_write_block", 1),
    ("file_close", 1),
    ("file_info", 1),
    // open, one block (flagged last), close
    ("read_directory", 3),
];

#[derive(Clone, Default)]
struct FileLog(Arc<Mutex<Vec<String>>>, u8);

impl FileReader for FileLog {
    fn opened(&mut self, size: u32) -> FileAction {
        self.0.lock().unwrap().push(format!("opened({size})"));
        if self.1 == 1 {
            FileAction::Abort
        } else {
            FileAction::Continue
        }
    }
    fn block_received(&mut self, block_num: u32, data: &[u8]) -> MaybeAsync<FileAction> {
        self.0
            .lock()
            .unwrap()
            .push(format!("block({block_num},{})", data.len()));
        MaybeAsync::ready(if self.1 == 2 {
            FileAction::Abort
        } else {
            FileAction::Continue
        })
    }
    fn aborted(&mut self, err: FileError) {
        self.0
            .lock()
            .unwrap()
            .push(format!("TERMINAL aborted({:?})", err));
    }
    fn completed(&mut self) {
        self.0
            .lock()
            .unwrap()
            .push("TERMINAL completed".to_string());
    }
}

/// the faithful outstation: the proper answer to any request of the kinds above
/// g70v7 file descriptor (IEEE 1815 A.22.7): name offset, name size, type, file size, time of creation (48 bit),
/// permissions, request id, name
fn file_descriptor(name: &[u8]) -> Vec<u8> {
    let mut o = vec![];
    o.extend_from_slice(&20u16.to_le_bytes());
    o.extend_from_slice(&(name.len() as u16).to_le_bytes());
    o.extend_from_slice(&1u16.to_le_bytes());
    o.extend_from_slice(&1234u32.to_le_bytes());
    o.extend_from_slice(&ra::u48(1_600_000_000_000));
    o.extend_from_slice(&0x01A4u16.to_le_bytes());
    o.extend_from_slice(&0u16.to_le_bytes());
    o.extend_from_slice(name);
    o
}

pub(crate) fn answer(req: &Fragment) -> Fragment {
    let mut r = Fragment {
        fir: true,
        fin: true,
        con: false,
        uns: false,
        seq: req.seq,
        func: func::RESPONSE,
        iin: Some((0, 0)),
        objects: vec![],
    };
    let ff = |v: u8, body: Vec<u8>| -> Vec<u8> {
        let mut o = vec![70, v, 0x5B, 1];
        o.extend_from_slice(&(body.len() as u16).to_le_bytes());
        o.extend(body);
        o
    };
    match req.func {
        func::READ => {
            if req.objects.len() >= 14 && req.objects[0] == 70 && req.objects[1] == 5 {
                let handle = &req.objects[6..10];
                let block = u32::from_le_bytes([
                    req.objects[10],
                    req.objects[11],
                    req.objects[12],
                    req.objects[13],
                ]);
                let mut body = handle.to_vec();
                let directory = handle == [9, 0, 0, 0];
                let wire_block = if block >= 1 || directory {
                    block | 0x8000_0000
                } else {
                    block
                };
                body.extend_from_slice(&wire_block.to_le_bytes());
                if directory {
                    body.extend(file_descriptor(b"x.bin"));
                } else {
                    body.extend_from_slice(&[1, 2, 3, 4]);
                }
                r.objects = ff(5, body);
            } else {
                r.objects = ra::h_range8(1, 2, 0, 1, &[0x81, 0x01]);
            }
        }
        func::SELECT | func::OPERATE | func::DIRECT_OPERATE => r.objects = req.objects.clone(),
        func::DELAY_MEASURE => r.objects = ra::h_count8(52, 2, 1, &[0, 0]),
        func::COLD_RESTART | func::WARM_RESTART => r.objects = ra::h_count8(52, 1, 1, &[5, 0]),
        25 | 26 => {
            // OPEN_FILE / CLOSE_FILE -> file command status: handle, size, max block size, request id, status
            let mut body = vec![7, 0, 0, 0, 8, 0, 0, 0, 0, 2, 0, 0, 0];
            body[12] = 0;
            // the directory "d" is opened with handle 9 (and closed with it)
            let is_dir_open =
                req.func == 25 && req.objects.ends_with(b"d") && !req.objects.ends_with(b".txt");
            let is_dir_close =
                req.func == 26 && req.objects.len() >= 10 && req.objects[6..10] == [9, 0, 0, 0];
            if is_dir_open || is_dir_close {
                body[0] = 9;
            }
            r.objects = ff(4, body);
        }
        func::WRITE if req.objects.len() >= 14 && req.objects[0] == 70 && req.objects[1] == 5 => {
            // file transport status: handle, block number, status
            let mut body = req.objects[6..14].to_vec();
            body.push(0);
            r.objects = ff(6, body);
        }
        28 => r.objects = ff(7, file_descriptor(b"a.txt")),
        29 => {
            // authentication: user name offset/size, password offset/size, authentication key
            let mut body = vec![12, 0, 0, 0, 12, 0, 0, 0];
            body.extend_from_slice(&0xCAFEu32.to_le_bytes());
            r.objects = ff(2, body);
        }
        _ => {}
    }
    r
}

pub struct Outcomes;

impl Prop for Outcomes {
    type Case = OutcomeCase;
    const ID: &'static str = "C16";
    const NAME: &'static str = "outcomes";
    fn rule() -> &'static str {
        "every user request kind (read, command SBO / direct, time sync LAN / non-LAN / direct write, cold and warm restart, dead-band write, generic empty-response request, link status check, file read with a FileReader that continues or aborts, file authentication / open / write block / close / info, directory read) x fault point: after step k of its protocol the reply is lost, the connection is dropped, the channel is disabled, or the association is removed (or no fault at all, the harness answering every step faithfully), optionally with a second request of any kind waiting in the queue behind it; oracle: the user future resolves exactly once - Ok iff no fault - and the FileReader receives exactly one terminal callback, within (steps + 1) response timeouts of virtual time; non-trivial = a fault after step >= 1 of a multi-step request, or any fault"
    }
    fn cases(tier: Tier) -> u32 {
        match tier {
            Tier::Quick => 150_000,
            Tier::Thorough => 6_000_000,
        }
    }
    fn strategy(_tier: Tier) -> BoxedStrategy<OutcomeCase> {
        (
            0u8..KINDS.len() as u8,
            0u8..4,
            prop_oneof![2 => Just(FaultKind::ReplyLost), 2 => Just(FaultKind::Disconnect), 2 => Just(FaultKind::Disable), 2 => Just(FaultKind::RemoveAssociation), 1 => Just(FaultKind::None)],
            prop_oneof![4 => Just(0u8), 1 => Just(1u8), 1 => Just(2u8)],
            prop_oneof![2 => Just(0u8), 1 => 1u8..=KINDS.len() as u8],
            prop_oneof![1 => Just(0u8), 2 => 1u8..=5],
        )
            .prop_map(|(kind, after_step, fault, reader_abort, queued, noise)| OutcomeCase { kind, after_step, fault, reader_abort, queued, noise })
            .boxed()
    }
    fn run(case: &OutcomeCase) -> CaseOut {
        let rt = runtime();
        rt.block_on(run_outcome(case))
    }
}

async fn run_outcome(case: &OutcomeCase) -> CaseOut {
    let mut out = CaseOut::default();
    let (name, steps) = KINDS[case.kind as usize % KINDS.len()];
    out.label(format!("kind:{name}"));
    let mut rig = MasterRig::start(true, [0; 4], 2048).await;
    rig.add_association(OUT, assoc_config(TIMEOUT), Some(1_600_000_000_000))
        .await;
    rig.connect().await;
    let file_log = FileLog(
        Default::default(),
        if name == "read_file" {
            case.reader_abort
        } else {
            0
        },
    );
    let t0 = rig.now_ms();
    let pending = submit_kind(&rig, name, file_log.clone());
    // a second request waiting in the queue behind the first
    let second = if case.queued > 0 {
        let (n2, s2) = KINDS[(case.queued as usize - 1) % KINDS.len()];
        out.label("second_request_queued");
        let log2 = FileLog(Default::default(), 0);
        Some((n2, s2, submit_kind(&rig, n2, log2.clone()), log2))
    } else {
        None
    };
    rig.settle().await;
    judge_outcomes(
        case, &mut out, rig, name, steps, pending, file_log, second, t0,
    )
    .await;
    out
}

fn submit_kind(rig: &MasterRig, name: &'static str, fl: FileLog) -> Pending {
    let mut h = rig.assocs[&OUT].handle.clone();
    match name {
        "read" => rig.submit(name, async move {
            h.read(ReadRequest::class_scan(Classes::class0()))
                .await
                .map_err(|e| format!("{:?}", e))
        }),
        "command_sbo" => rig.submit(name, async move {
            h.operate(
                CommandMode::SelectBeforeOperate,
                CommandBuilder::single_header_u8(
                    Group12Var1::from_code(ControlCode::from_op_type(OpType::LatchOn)),
                    3u8,
                ),
            )
            .await
            .map_err(|e| format!("{:?}", e))
        }),
        "command_direct" => rig.submit(name, async move {
            h.operate(
                CommandMode::DirectOperate,
                CommandBuilder::single_header_u16(Group41Var2::new(7), 300u16),
            )
            .await
            .map_err(|e| format!("{:?}", e))
        }),
        "time_sync_lan" => rig.submit(name, async move {
            h.synchronize_time(TimeSyncProcedure::Lan)
                .await
                .map_err(|e| format!("{:?}", e))
        }),
        "time_sync_non_lan" => rig.submit(name, async move {
            h.synchronize_time(TimeSyncProcedure::NonLan)
                .await
                .map_err(|e| format!("{:?}", e))
        }),
        "time_sync_direct" => rig.submit(name, async move {
            h.synchronize_time(TimeSyncProcedure::DirectWriteAbsTime)
                .await
                .map_err(|e| format!("{:?}", e))
        }),
        "cold_restart" => rig.submit(name, async move {
            h.cold_restart()
                .await
                .map(|_| ())
                .map_err(|e| format!("{:?}", e))
        }),
        "warm_restart" => rig.submit(name, async move {
            h.warm_restart()
                .await
                .map(|_| ())
                .map_err(|e| format!("{:?}", e))
        }),
        "write_dead_bands" => rig.submit(name, async move {
            h.write_dead_bands(vec![DeadBandHeader::group34_var1_u8(vec![(1, 5), (2, 6)])])
                .await
                .map_err(|e| format!("{:?}", e))
        }),
        "empty_response" => rig.submit(name, async move {
            h.send_and_expect_empty_response(
                FunctionCode::ImmediateFreeze,
                Headers::default().add_all_objects(Variation::Group20Var0),
            )
            .await
            .map_err(|e| format!("{:?}", e))
        }),
        "link_status" => rig.submit(name, async move {
            h.check_link_status().await.map_err(|e| format!("{:?}", e))
        }),
        "file_auth" => rig.submit(name, async move {
            h.get_file_auth_key(FileCredentials {
                user_name: "u".into(),
                password: "p".into(),
            })
            .await
            .map(|_| ())
            .map_err(|e| format!("{:?}", e))
        }),
        "file_open" => rig.submit(name, async move {
            h.open_file(
                "a.txt",
                AuthKey::none(),
                crate::app::file::Permissions::default(),
                0,
                FileMode::Read,
                1024,
            )
            .await
            .map(|_| ())
            .map_err(|e| format!("{:?}", e))
        }),
        "file_write_block" => rig.submit(name, async move {
            h.write_file_block(FileHandle::new(7), BlockNumber::default(), vec![1, 2, 3])
                .await
                .map_err(|e| format!("{:?}", e))
        }),
        "file_close" => rig.submit(name, async move {
            h.close_file(FileHandle::new(7))
                .await
                .map_err(|e| format!("{:?}", e))
        }),
        "file_info" => rig.submit(name, async move {
            h.get_file_info("a.txt")
                .await
                .map(|_| ())
                .map_err(|e| format!("{:?}", e))
        }),
        "read_directory" => rig.submit(name, async move {
            h.read_directory("d", DirReadConfig::default(), None)
                .await
                .map(|v| v.len())
                .map_err(|e| format!("{:?}", e))
        }),
        _ => rig.submit(name, async move {
            h.read_file("a.txt", FileReadConfig::default(), Box::new(fl), None)
                .await
                .map_err(|e| format!("{:?}", e))
        }),
    }
}

#[allow(clippy::too_many_arguments)]
async fn judge_outcomes(
    case: &OutcomeCase,
    out: &mut CaseOut,
    mut rig: MasterRig,
    name: &'static str,
    steps: u8,
    pending: Pending,
    file_log: FileLog,
    second: Option<(&'static str, u8, Pending, FileLog)>,
    t0: u64,
) {
    let fault_after = if case.fault == FaultKind::None {
        99
    } else {
        case.after_step.min(
            steps
                - if case.fault == FaultKind::ReplyLost {
                    1
                } else {
                    0
                },
        )
    };
    if case.fault != FaultKind::None {
        out.nontrivial = true;
        if fault_after >= 1 && steps >= 2 {
            out.label("fault_inside_multi_step_request");
        }
    }
    let mut step = 0u8;
    let mut faulted = false;
    let mut second_done_before_fault = false;
    let mut expect_ok = true;
    for _round in 0..16 {
        if step == fault_after && !faulted {
            faulted = true;
            second_done_before_fault = second
                .as_ref()
                .map(|s| !s.2.outcomes().is_empty())
                .unwrap_or(false);
            match case.fault {
                FaultKind::ReplyLost => {
                    // swallow the request that is on the wire now and never answer it
                    let tx = rig.take_tx();
                    let seq = tx.iter().rev().find_map(|t| match t {
                        MTx::Fragment { bytes, .. }
                            if bytes.len() >= 2 && bytes[1] != func::CONFIRM =>
                        {
                            Some(bytes[0] & 0x0F)
                        }
                        _ => None,
                    });
                    if case.noise % 6 != 0 && (seq.is_some() || name == "link_status") {
                        out.label("noise_instead_of_the_reply");
                        let empty = |seq: u8, uns: bool| Fragment {
                            fir: true,
                            fin: true,
                            con: uns,
                            uns,
                            seq,
                            func: if uns {
                                func::UNSOLICITED_RESPONSE
                            } else {
                                func::RESPONSE
                            },
                            iin: Some((0, 0)),
                            objects: vec![],
                        };
                        match case.noise % 6 {
                            1 => rig.send_raw(&rl::encode(0x49, M_ADDR, OUT, &[])),
                            2 => rig.send_raw(&rl::encode(0x0B, M_ADDR, OUT + 1, &[])),
                            3 => rig.respond(OUT, &empty(5, true)),
                            4 => rig.respond(OUT, &empty((seq.unwrap_or(0) + 3) & 0x0F, false)),
                            _ => rig.respond(OUT + 1, &empty(seq.unwrap_or(0), false)),
                        }
                        rig.settle().await;
                        let _ = rig.take_tx();
                    }
                    expect_ok = false;
                    break;
                }
                FaultKind::Disconnect => {
                    rig.disconnect().await;
                    expect_ok = step >= steps;
                    break;
                }
                FaultKind::Disable => {
                    let mut ch = rig.channel.clone();
                    let p = rig.polls.clone();
                    tokio::spawn(crate::verif::rig::Counted::new(
                        async move { ch.disable().await },
                        p,
                    ));
                    rig.settle().await;
                    expect_ok = step >= steps;
                    break;
                }
                FaultKind::RemoveAssociation => {
                    let mut ch = rig.channel.clone();
                    let p = rig.polls.clone();
                    tokio::spawn(crate::verif::rig::Counted::new(
                        async move {
                            ch.remove_association(crate::link::EndpointAddress::raw(OUT))
                                .await
                        },
                        p,
                    ));
                    rig.settle().await;
                    expect_ok = step >= steps;
                    break;
                }
                FaultKind::None => {}
            }
        }
        // answer whatever the master has sent
        let tx = rig.take_tx();
        let mut answered = false;
        for t in tx {
            match t {
                MTx::Fragment { bytes, .. } => {
                    if let Some(req) = Fragment::parse(&bytes) {
                        if req.func != func::CONFIRM {
                            let a = answer(&req);
                            rig.respond(OUT, &a);
                            answered = true;
                        }
                    }
                }
                MTx::Link { ctrl, .. } if ctrl & 0x4F == 0x49 => {
                    rig.send_raw(&rl::encode(0x0B, M_ADDR, OUT, &[]));
                    answered = true;
                }
                _ => {}
            }
        }
        if !answered {
            break;
        }
        step += 1;
        rig.settle().await;
    }
    // every outcome is due within (steps + 1) response timeouts; the queued request within as many more as it has steps
    let deadline = (steps as u64 + 1) * TIMEOUT;
    let deadline2 = deadline
        + second
            .as_ref()
            .map(|s| (s.1 as u64 + 1) * TIMEOUT)
            .unwrap_or(0);
    let mut waited = 0;
    while waited < deadline2 + 10 {
        let done = |p: &Pending, n: &str, l: &FileLog| {
            !p.outcomes().is_empty()
                && (n != "read_file"
                    || l.0
                        .lock()
                        .unwrap()
                        .iter()
                        .any(|l| l.starts_with("TERMINAL")))
        };
        if done(&pending, name, &file_log)
            && second
                .as_ref()
                .map(|(n2, _, p2, l2)| done(p2, n2, l2))
                .unwrap_or(true)
        {
            break;
        }
        rig.advance(50).await;
        waited += 50;
    }
    if let Some((n2, s2, p2, l2)) = &second {
        // the queued request: exactly one outcome (terminal callback), Ok only if nothing went wrong at all
        let res2 = p2.outcomes();
        let terminals =
            l2.0.lock()
                .unwrap()
                .iter()
                .filter(|l| l.starts_with("TERMINAL"))
                .count();
        if res2.len() != 1 || (*n2 == "read_file" && terminals != 1) {
            out.fail(
                Fail::new("queued-request-not-exactly-one-outcome", format!("{n2} queued behind {name}: future resolved {} times, {} terminal file callbacks within {} ms (fault {:?} after step {fault_after} of {steps}): {:?}", res2.len(), terminals, rig.now_ms() - t0, case.fault, res2))
                    .with_sig(format!("C16 queued outcomes={} terminals={terminals} kind={n2} fault={:?}", res2.len(), case.fault)),
            );
        } else if *n2 != "read_file" {
            let ok2 = res2[0].1.starts_with("Ok");
            // answered faithfully until the fault (if it was ever reached): Ok iff it was complete by then
            let want2 = !faulted || second_done_before_fault;
            if ok2 != want2 {
                out.fail(Fail::new("wrong-outcome", format!("{n2} queued behind {name}: outcome {} but fault {:?} after step {fault_after} of {steps}", res2[0].1, case.fault)).with_sig(format!("C16 wrong-outcome queued kind={n2} fault={:?} ok={ok2}", case.fault)));
            }
            if res2[0].0 - t0 > deadline2 {
                out.fail(Fail::new("outcome-too-late", format!("{n2} queued behind {name}: outcome after {} ms, bound {} ms ({} + {s2} steps)", res2[0].0 - t0, deadline2, steps)));
            }
        }
    }
    let res = pending.outcomes();
    let elapsed = rig.now_ms() - t0;
    if name == "read_file" {
        // the user future only reports that the task was queued; the outcome is the reader's terminal callback
        let log = file_log.0.lock().unwrap().clone();
        let terminals: Vec<&String> = log.iter().filter(|l| l.starts_with("TERMINAL")).collect();
        if terminals.len() != 1 {
            out.fail(
                Fail::new("file-reader-terminal-callbacks", format!("the FileReader received {} terminal callbacks within {} ms (fault {:?} after step {fault_after}, reader_abort {}): {:?}", terminals.len(), elapsed, case.fault, case.reader_abort, log))
                    .with_sig(format!("C16 file-reader terminals={} fault={:?} abort={}", terminals.len(), case.fault, case.reader_abort)),
            );
        } else {
            let completed = terminals[0].contains("completed");
            // completion is signalled when the last block arrived (before the file is closed): steps 0..=2 answered
            let want =
                case.reader_abort == 0 && (case.fault == FaultKind::None || fault_after >= 3);
            let word = match case.fault {
                FaultKind::ReplyLost => Some("ResponseTimeout"),
                FaultKind::Disable => Some("Disabled"),
                FaultKind::Disconnect => Some("Link("),
                _ => None,
            };
            if let (false, false, 0, Some(word)) = (completed, want, case.reader_abort, word) {
                out.label("error_kind_checked");
                if !terminals[0].contains(word) {
                    out.fail(
                        Fail::new("error-does-not-correspond", format!("file read: fault {:?} after step {fault_after} was reported to the reader as {:?}", case.fault, terminals[0]))
                            .with_sig(format!("C16 error-does-not-correspond file fault={:?}", case.fault)),
                    );
                }
            }
            if completed != want {
                out.fail(Fail::new("file-reader-outcome", format!("terminal callback {:?}, expected completed={want} (fault {:?} after step {fault_after}, reader_abort {})", terminals[0], case.fault, case.reader_abort)));
            }
        }
        if res.len() != 1 {
            out.fail(Fail::new(
                "not-exactly-one-outcome",
                format!("read_file future resolved {} times", res.len()),
            ));
        }
    } else if res.len() != 1 {
        out.fail(
            Fail::new("not-exactly-one-outcome", format!("the {name} future resolved {} times within {} ms (fault {:?} after step {fault_after} of {steps}): {:?}", res.len(), elapsed, case.fault, res))
                .with_sig(format!("C16 outcomes={} kind={name} fault={:?}", res.len(), case.fault)),
        );
    } else {
        let ok = res[0].1.starts_with("Ok");
        // a directory read is complete when its last block has arrived (open and the one block answered), before the
        // directory is closed - like a file read
        let expect_ok = if name == "read_directory" {
            case.fault == FaultKind::None || fault_after >= 2
        } else {
            expect_ok
        };
        // "... timeout, disconnect, disable or shutdown yields the corresponding error"
        let corresponding = match case.fault {
            FaultKind::ReplyLost => Some("ResponseTimeout"),
            FaultKind::Disable => Some("Disabled"),
            FaultKind::Disconnect => Some("Link("),
            // the in-flight request of a removed association ends when its reply fails to come: not judged
            FaultKind::RemoveAssociation | FaultKind::None => None,
        };
        if let (false, false, Some(word)) = (ok, expect_ok, corresponding) {
            out.label("error_kind_checked");
            if !res[0].1.contains(word) {
                out.fail(
                    Fail::new("error-does-not-correspond", format!("{name}: fault {:?} after step {fault_after} of {steps} was reported as {}", case.fault, res[0].1))
                        .with_sig(format!("C16 error-does-not-correspond fault={:?}", case.fault)),
                );
            }
        }
        if ok != expect_ok {
            out.fail(
                Fail::new(
                    "wrong-outcome",
                    format!(
                        "{name}: outcome {} but fault {:?} after step {fault_after} of {steps}",
                        res[0].1, case.fault
                    ),
                )
                .with_sig(format!(
                    "C16 wrong-outcome kind={name} fault={:?} ok={ok}",
                    case.fault
                )),
            );
        }
        if res[0].0 - t0 > deadline {
            out.fail(Fail::new(
                "outcome-too-late",
                format!(
                    "{name}: outcome after {} ms, bound {} ms",
                    res[0].0 - t0,
                    deadline
                ),
            ));
        }
    }
    if let Some(f) = rig.task_failure.take() {
        out.fail(f);
    }
}

pub fn run<C: Codec>(tier: Tier) -> i32 {
    let mut ctx = Ctx::<C>::new("C16", tier);
    ctx.assumptions.push("'handle dropped / master shut down' is not generated (the rig keeps channel clones alive); file DELETE and ABORT are not part of the user API".into());
    ctx.run::<Commands>();
    ctx.run::<Outcomes>();
    ctx.finish()
}

pub fn replay<C: Codec>(text: &str, known: &[Known]) -> Option<i32> {
    replay_file::<C, Commands>(text, known).or_else(|| replay_file::<C, Outcomes>(text, known))
}
