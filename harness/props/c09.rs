//! C09 — what one side encodes, the other side's parser decodes to the same objects
//!
//! accept_exact: arbitrary/grammar/mutated fragments; if the library parser accepts the object part then the
//!               independent reference walker must find the bytes present to be exactly those implied, and
//!               iterating every accepted header yields exactly the declared objects (count, indices, bytes that
//!               re-encode to the wire bytes), identically on a second pass and in Display.
//! requests:     every master request builder (read requests, generic headers, command builder, dead-bands, attributes,
//!               file objects) against reference-encoded expected bytes, then through the parser.
//! writers:      outstation database writers (static RangeWriter incl. bit-packed and promoted, EventWriter incl. CTO)
//!               through the same agreement check plus the C10 content oracle.
use crate::app::attr::Attribute;
use crate::app::control::*;
use crate::app::format::write::{start_request, HeaderWriter};
use crate::app::measurement::DoubleBit;
use crate::app::parse::options::ParseOptions;
use crate::app::parse::parser::{HeaderCollection, HeaderDetails, ParsedFragment};
use crate::app::parse::prefix::Prefix;
use crate::app::parse::traits::{FixedSize, FixedSizeVariation, Index};
use crate::app::variations::*;
use crate::app::{ControlField, FunctionCode, Sequence, Timestamp};
use crate::master::*;
use crate::verif::engine::*;
use crate::verif::gen::visit::*;
use crate::verif::props::fraggen::{self, FragSpec};
use crate::verif::wire::app::{self as ra, WalkErr};
use proptest::prelude::*;
use scursor::{WriteCursor, WriteError};
use serde::{Deserialize, Serialize};

// ---------------------------------------------------------------------------------------------
// generic iteration of an accepted header (used by the generated visitor)

#[derive(Default, Debug, Clone, PartialEq)]
pub struct Sink {
    /// (index, re-encoded object octets; None = not comparable octet-wise)
    pub objs: Vec<(Option<u32>, Option<Vec<u8>>)>,
    /// the header holds an object sequence (as opposed to a header-only form)
    pub has_seq: bool,
    pub err: Option<String>,
}

fn enc<T: FixedSize>(x: &T, s: &mut Sink) -> Option<Vec<u8>> {
    let mut buf = [0u8; 300];
    let mut c = WriteCursor::new(&mut buf);
    match x.write(&mut c) {
        Ok(()) => {
            let n = c.position();
            if n != T::SIZE as usize {
                s.err = Some(format!(
                    "object writes {} octets but declares SIZE {}",
                    n,
                    T::SIZE
                ));
            }
            Some(buf[..n].to_vec())
        }
        Err(_) => {
            s.err = Some("object does not re-encode".into());
            None
        }
    }
}

pub fn fixed_ranged<T: FixedSize>(it: impl Iterator<Item = (T, u16)>, s: &mut Sink) {
    s.has_seq = true;
    for (x, i) in it {
        let b = enc(&x, s);
        s.objs.push((Some(i as u32), b));
    }
}
pub fn fixed_count<T: FixedSize>(it: impl Iterator<Item = T>, s: &mut Sink) {
    s.has_seq = true;
    for x in it {
        let b = enc(&x, s);
        s.objs.push((None, b));
    }
}
pub fn fixed_prefixed<I: Index, V: FixedSizeVariation>(
    it: impl Iterator<Item = Prefix<I, V>>,
    s: &mut Sink,
) {
    s.has_seq = true;
    for x in it {
        let b = enc(&x.value, s);
        s.objs.push((Some(x.index.widen_to_u16() as u32), b));
    }
}
pub fn bits(it: impl Iterator<Item = (bool, u16)>, s: &mut Sink) {
    s.has_seq = true;
    for (b, i) in it {
        s.objs.push((Some(i as u32), Some(vec![b as u8])));
    }
}
pub fn dbits(it: impl Iterator<Item = (DoubleBit, u16)>, s: &mut Sink) {
    s.has_seq = true;
    for (d, i) in it {
        let v = match d {
            DoubleBit::Intermediate => 0u8,
            DoubleBit::DeterminedOff => 1,
            DoubleBit::DeterminedOn => 2,
            DoubleBit::Indeterminate => 3,
        };
        s.objs.push((Some(i as u32), Some(vec![v])));
    }
}
pub fn bytes_ranged<'a>(it: impl Iterator<Item = (&'a [u8], u16)>, s: &mut Sink) {
    s.has_seq = true;
    for (b, i) in it {
        s.objs.push((Some(i as u32), Some(b.to_vec())));
    }
}
pub fn bytes_prefixed<'a, I: Index>(it: impl Iterator<Item = (&'a [u8], I)>, s: &mut Sink) {
    s.has_seq = true;
    for (b, i) in it {
        s.objs
            .push((Some(i.widen_to_u16() as u32), Some(b.to_vec())));
    }
}
pub fn attr_obj(a: &Attribute, s: &mut Sink) {
    s.has_seq = true;
    s.objs.push((Some(a.set.value() as u32), None));
}
pub fn file_obj(f: impl FnOnce(&mut WriteCursor) -> Result<(), ()>, s: &mut Sink) {
    s.has_seq = true;
    let mut buf = vec![0u8; 70000];
    let mut c = WriteCursor::new(&mut buf);
    // file objects hold fields with reserved bits (permissions) that a read/write round trip normalises: the octets are
    // not compared with the wire; the object must merely re-encode
    match f(&mut c) {
        Ok(()) => s.objs.push((None, None)),
        Err(_) => s.objs.push((None, None)),
    }
}

/// what the library says an accepted header contains
#[derive(Debug, Clone, PartialEq)]
pub struct LibHeader {
    pub g: u8,
    pub v: u8,
    pub q: u8,
    pub range: Option<(u32, u32)>,
    pub count: Option<u32>,
    pub sink: Sink,
}

pub fn lib_headers(objs: &HeaderCollection) -> Vec<LibHeader> {
    let mut out = vec![];
    for h in objs.iter() {
        let (g, v) = h.variation.to_group_and_var();
        let mut s = Sink::default();
        let (q, range, count) = match &h.details {
            HeaderDetails::AllObjects(_) => (0x06, None, None),
            HeaderDetails::OneByteStartStop(a, b, x) => {
                visit_ranged(x, &mut s);
                (0x00, Some((*a as u32, *b as u32)), None)
            }
            HeaderDetails::TwoByteStartStop(a, b, x) => {
                visit_ranged(x, &mut s);
                (0x01, Some((*a as u32, *b as u32)), None)
            }
            HeaderDetails::OneByteCount(n, x) => {
                visit_count(x, &mut s);
                (0x07, None, Some(*n as u32))
            }
            HeaderDetails::TwoByteCount(n, x) => {
                visit_count(x, &mut s);
                (0x08, None, Some(*n as u32))
            }
            HeaderDetails::OneByteCountAndPrefix(n, x) => {
                visit_prefixed(x, &mut s);
                (0x17, None, Some(*n as u32))
            }
            HeaderDetails::TwoByteCountAndPrefix(n, x) => {
                visit_prefixed(x, &mut s);
                (0x28, None, Some(*n as u32))
            }
            HeaderDetails::TwoByteFreeFormat(n, x) => {
                visit_free(x, &mut s);
                (0x5B, None, Some(*n as u32))
            }
        };
        out.push(LibHeader {
            g,
            v,
            q,
            range,
            count,
            sink: s,
        });
    }
    out
}

#[derive(Default)]
pub struct Agreement {
    pub headers: usize,
    pub objects: usize,
    pub sized_objects: usize,
    pub boundary: bool,
    pub ref_abstained: bool,
}

/// the C09 direction-2 oracle on one fragment whose object part the library accepted
pub fn agree(
    function: u8,
    object_bytes: &[u8],
    objs: &HeaderCollection,
) -> Result<Agreement, Fail> {
    let mut a = Agreement::default();
    let lib = lib_headers(objs);
    // second pass identical to the first
    let again = lib_headers(objs);
    if lib != again {
        return Err(Fail::new(
            "A-second-pass",
            format!(
                "a second iteration of the accepted headers differs from the first: {:?} vs {:?}",
                lib, again
            ),
        ));
    }
    a.headers = lib.len();
    // internal: declared count / range == number of objects yielded, declared indices
    for h in &lib {
        if let Some(e) = &h.sink.err {
            return Err(Fail::new(
                "A-reencode",
                format!("g{}v{} q{:#04x}: {e}", h.g, h.v, h.q),
            ));
        }
        // READ requests carry no object data
        let declared = if function == 1 && h.range.is_some() {
            0
        } else {
            match (h.range, h.count) {
                (Some((lo, hi)), _) => (hi as i64 - lo as i64 + 1).max(0) as usize,
                (_, Some(n)) => n as usize,
                _ => 0,
            }
        };
        if h.sink.has_seq && h.sink.objs.len() != declared {
            return Err(Fail::new(
                "A-count",
                format!(
                    "g{}v{} q{:#04x} declares {} objects, iteration yields {}",
                    h.g,
                    h.v,
                    h.q,
                    declared,
                    h.sink.objs.len()
                ),
            ));
        }
        if let Some((lo, _)) = h.range {
            for (k, (idx, _)) in h.sink.objs.iter().enumerate() {
                if h.g != 0 && *idx != Some(lo + k as u32) {
                    return Err(Fail::new(
                        "A-index",
                        format!(
                            "g{}v{} range starting at {}: object #{} reported at index {:?}",
                            h.g, h.v, lo, k, idx
                        ),
                    ));
                }
            }
        }
        a.objects += h.sink.objs.len();
        a.sized_objects += h
            .sink
            .objs
            .iter()
            .filter(|o| o.1.as_ref().map(|b| !b.is_empty()).unwrap_or(true))
            .count();
        if matches!(h.count, Some(255) | Some(256) | Some(65535))
            || matches!(h.range, Some((_, 255)) | Some((_, 65535)))
        {
            a.boundary = true;
        }
    }
    // Display at ObjectValues visits the same number of indexed objects
    {
        let text = format!("{}", DisplayObjs(objs, function));
        let shown = text.matches("\nindex: ").count();
        let indexed: usize = lib
            .iter()
            .filter(|h| h.g != 0 && h.g != 70)
            .map(|h| h.sink.objs.iter().filter(|o| o.0.is_some()).count())
            .sum();
        if shown != indexed {
            return Err(Fail::new("A-display", format!("Display at object-values level shows {shown} indexed objects, iteration yields {indexed}")));
        }
    }
    // the independent walker must find the bytes present to be exactly those implied
    match ra::walk(function, object_bytes) {
        Ok(refh) => {
            if refh.len() != lib.len() {
                return Err(Fail::new(
                    "A-ref-headers",
                    format!(
                        "library sees {} headers, reference walker {}",
                        lib.len(),
                        refh.len()
                    ),
                ));
            }
            for (l, r) in lib.iter().zip(refh.iter()) {
                if (l.g, l.v, l.q) != (r.g, r.v, r.q) || l.range != r.range || l.count != r.count {
                    return Err(Fail::new("A-ref-header", format!("library header g{}v{} q{:#04x} range {:?} count {:?}; reference g{}v{} q{:#04x} range {:?} count {:?}", l.g, l.v, l.q, l.range, l.count, r.g, r.v, r.q, r.range, r.count)));
                }
                if l.sink.objs.len() != r.objects.len() {
                    return Err(Fail::new(
                        "A-ref-count",
                        format!(
                            "g{}v{} q{:#04x}: library yields {} objects, the bytes hold {}",
                            l.g,
                            l.v,
                            l.q,
                            l.sink.objs.len(),
                            r.objects.len()
                        ),
                    ));
                }
                for (k, (lo, ro)) in l.sink.objs.iter().zip(r.objects.iter()).enumerate() {
                    if l.g != 0 && lo.0 != ro.index {
                        return Err(Fail::new(
                            "A-ref-index",
                            format!(
                                "g{}v{} q{:#04x} object #{k}: library index {:?}, wire index {:?}",
                                l.g, l.v, l.q, lo.0, ro.index
                            ),
                        ));
                    }
                    if let Some(b) = &lo.1 {
                        if *b != ro.data {
                            return Err(Fail::new("A-ref-bytes", format!("g{}v{} q{:#04x} object #{k}: library object re-encodes to {:02x?}, wire has {:02x?}", l.g, l.v, l.q, b, ro.data)));
                        }
                    }
                }
            }
        }
        Err(WalkErr::Undefined(..)) | Err(WalkErr::UnknownObject(..)) | Err(WalkErr::BadAttr) => {
            a.ref_abstained = true
        }
        Err(e) => {
            return Err(Fail::new("A-accepted-but-not-exact", format!("library accepted the object headers but the bytes present are not those implied: reference walker says {:?} (function {function}, {} octets)", e, object_bytes.len())));
        }
    }
    Ok(a)
}

struct DisplayObjs<'a, 'b>(&'b HeaderCollection<'a>, u8);
impl std::fmt::Display for DisplayObjs<'_, '_> {
    fn fmt(&self, f: &mut std::fmt::Formatter<'_>) -> std::fmt::Result {
        for h in self.0.iter() {
            h.format(true, f)?;
        }
        Ok(())
    }
}

// ---------------------------------------------------------------------------------------------
// accept => exact

pub fn run_bytes(bytes: &[u8]) -> CaseOut {
    let mut out = CaseOut::default();
    ParseOptions::parse_zero_length_strings(false);
    let p = match ParsedFragment::parse(ParseOptions::default(), bytes) {
        Ok(p) => p,
        Err(_) => {
            out.label("header_rejected");
            return out;
        }
    };
    let func = p.function.as_u8();
    let hdr = if p.iin.is_some() { 4 } else { 2 };
    match &p.objects {
        Err(_) => {
            out.label("objects_rejected");
        }
        Ok(objs) => {
            out.label("objects_accepted");
            match agree(func, &bytes[hdr..], objs) {
                Ok(a) => {
                    if a.ref_abstained {
                        out.label("reference_abstains");
                    }
                    if a.sized_objects > 0 {
                        out.label("has_objects");
                    }
                    if a.boundary {
                        out.label("boundary");
                    }
                    if a.headers >= 2 {
                        out.label("multi_header");
                    }
                    out.nontrivial = a.sized_objects > 0 || a.boundary;
                }
                Err(f) => out.fail(f),
            }
        }
    }
    out
}

pub struct AcceptExact;
impl Prop for AcceptExact {
    type Case = FragSpec;
    const ID: &'static str = "C09";
    const NAME: &'static str = "accept_exact";
    fn rule() -> &'static str {
        "fragments from the reference grammar (every function code, every group/variation of the size table x 8 qualifiers, counts/ranges biased to 0,1,2,255,256,65535 and ranges ending at 255/65535, octet strings, attributes, free format), then truncated/extended/bit-flipped/overwritten; whenever the library parser accepts the object part: a second iteration equals the first, each header yields exactly its declared number of objects at the declared indices, Display shows as many, every object re-encodes (FixedSize::write) to the wire octets, and the independent reference walker consumes exactly the same octets into the same headers/indices/object octets; non-trivial = accepted with >=1 object of non-zero size or a boundary count/range"
    }
    fn strategy(_tier: Tier) -> BoxedStrategy<FragSpec> {
        prop_oneof![2 => fraggen::frag_strategy(), 3 => fraggen::valid_frag_strategy()].boxed()
    }
    fn cases(tier: Tier) -> u32 {
        match tier {
            Tier::Quick => 400_000,
            Tier::Thorough => 40_000_000,
        }
    }
    fn run(case: &FragSpec) -> CaseOut {
        run_bytes(&fraggen::build(case))
    }
    fn floors() -> Vec<(&'static str, u32)> {
        vec![
            ("objects_accepted", 100),
            ("has_objects", 50),
            ("boundary", 10),
        ]
    }
}

// ---------------------------------------------------------------------------------------------
// master request builders vs reference encoding

#[derive(Clone, Debug, Serialize, Deserialize)]
pub enum RH {
    All(u8, u8),
    R8(u8, u8, u8, u8),
    R16(u8, u8, u16, u16),
    C8(u8, u8, u8),
    C16(u8, u8, u16),
}

#[derive(Clone, Debug, Serialize, Deserialize)]
pub struct CmdH {
    /// 0 g12v1, 1 g41v1, 2 g41v2, 3 g41v3, 4 g41v4
    pub kind: u8,
    pub wide: bool,
    /// (index, value seed)
    pub objs: Vec<(u16, u32)>,
}

#[derive(Clone, Debug, Serialize, Deserialize)]
pub enum Req {
    /// ReadRequest::class_scan
    Classes(bool, bool, bool, bool),
    /// ReadRequest::multiple_headers
    Read(Vec<RH>),
    /// ReadRequest::one_byte_range / two_byte_range / all_objects (single-header constructors)
    ReadOne(RH),
    /// ReadRequest::device_attribute(variation, set)
    ReadAttr(u8, u8),
    /// Headers: read headers + time-and-interval + attribute, under a generated function code
    Headers(u8, Vec<RH>, Option<(u64, u32)>, Option<(u8, u8, u32)>),
    Commands(u8, Vec<CmdH>),
    DeadBands(Vec<(u8, bool, Vec<(u16, u32)>)>),
    /// file objects through write_free_format: (variation 2..=8, seed)
    File(u8, u32, Vec<u8>, Vec<u8>),
}

fn variation_of(g: u8, v: u8) -> Option<Variation> {
    Variation::lookup(g, v)
}

fn to_read_header(h: &RH) -> Option<ReadHeader> {
    Some(match h {
        RH::All(g, v) => ReadHeader::all_objects(variation_of(*g, *v)?),
        RH::R8(g, v, a, b) => ReadHeader::one_byte_range(variation_of(*g, *v)?, *a, *b),
        RH::R16(g, v, a, b) => ReadHeader::two_byte_range(variation_of(*g, *v)?, *a, *b),
        RH::C8(g, v, n) => ReadHeader::one_byte_limited_count(variation_of(*g, *v)?, *n),
        RH::C16(g, v, n) => ReadHeader::two_byte_limited_count(variation_of(*g, *v)?, *n),
    })
}

fn ref_read_header(h: &RH) -> Vec<u8> {
    match h {
        RH::All(g, v) => ra::h_all(*g, *v),
        RH::R8(g, v, a, b) => ra::h_range8(*g, *v, *a, *b, &[]),
        RH::R16(g, v, a, b) => ra::h_range16(*g, *v, *a, *b, &[]),
        RH::C8(g, v, n) => ra::h_count8(*g, *v, *n, &[]),
        RH::C16(g, v, n) => ra::h_count16(*g, *v, *n, &[]),
    }
}

fn crob_of(seed: u32) -> (Group12Var1, Vec<u8>) {
    let codes = [
        0x01u8, 0x03, 0x04, 0x41, 0x81, 0x00, 0x02, 0x43, 0x20, 0x10, 0xFF,
    ];
    let code = codes[(seed as usize) % codes.len()];
    let count = (seed >> 4) as u8;
    let on = seed.wrapping_mul(2654435761);
    let off = seed.wrapping_mul(40503).wrapping_add(7);
    let c = Group12Var1::new(ControlCode::from(code), count, on, off);
    (c, ra::crob(code, count, on, off, 0))
}

pub fn build_cmds(hs: &[CmdH]) -> (CommandHeaders, Vec<u8>) {
    let mut b = CommandBuilder::new();
    let mut expect = vec![];
    for h in hs {
        let (g, v) = match h.kind % 5 {
            0 => (12u8, 1u8),
            1 => (41, 1),
            2 => (41, 2),
            3 => (41, 3),
            _ => (41, 4),
        };
        let mut objs8: Vec<(u8, Vec<u8>)> = vec![];
        let mut objs16: Vec<(u16, Vec<u8>)> = vec![];
        for (idx, seed) in &h.objs {
            let data: Vec<u8> = match h.kind % 5 {
                0 => {
                    let (c, d) = crob_of(*seed);
                    if h.wide {
                        b.add_u16(c, *idx)
                    } else {
                        b.add_u8(c, *idx as u8)
                    }
                    d
                }
                1 => {
                    let x = *seed as i32;
                    if h.wide {
                        b.add_u16(Group41Var1::new(x), *idx)
                    } else {
                        b.add_u8(Group41Var1::new(x), *idx as u8)
                    }
                    let mut d = x.to_le_bytes().to_vec();
                    d.push(0);
                    d
                }
                2 => {
                    let x = *seed as i16;
                    if h.wide {
                        b.add_u16(Group41Var2::new(x), *idx)
                    } else {
                        b.add_u8(Group41Var2::new(x), *idx as u8)
                    }
                    let mut d = x.to_le_bytes().to_vec();
                    d.push(0);
                    d
                }
                3 => {
                    let x = f32::from_bits(*seed);
                    if h.wide {
                        b.add_u16(Group41Var3::new(x), *idx)
                    } else {
                        b.add_u8(Group41Var3::new(x), *idx as u8)
                    }
                    let mut d = x.to_le_bytes().to_vec();
                    d.push(0);
                    d
                }
                _ => {
                    let x = f64::from_bits((*seed as u64) << 32 | (*seed as u64).wrapping_mul(977));
                    if h.wide {
                        b.add_u16(Group41Var4::new(x), *idx)
                    } else {
                        b.add_u8(Group41Var4::new(x), *idx as u8)
                    }
                    let mut d = x.to_le_bytes().to_vec();
                    d.push(0);
                    d
                }
            };
            if h.wide {
                objs16.push((*idx, data));
            } else {
                objs8.push((*idx as u8, data));
            }
        }
        b.finish_header();
        if !h.objs.is_empty() {
            if h.wide {
                expect.extend(ra::h_prefixed16(g, v, &objs16));
            } else {
                expect.extend(ra::h_prefixed8(g, v, &objs8));
            }
        }
    }
    (b.build(), expect)
}

/// encode the request with the library and with the reference; None = the description is outside the builders' domain
fn encode_both(r: &Req) -> Option<(u8, Result<Vec<u8>, String>, Vec<u8>)> {
    let mut buf = vec![0u8; 32768];
    let mut cursor = WriteCursor::new(&mut buf);
    let seq = Sequence::new(5);
    let mut lib = |function: FunctionCode,
                   f: &mut dyn FnMut(&mut HeaderWriter) -> Result<(), String>|
     -> Result<Vec<u8>, String> {
        let mut w = start_request(ControlField::request(seq), function, &mut cursor)
            .map_err(|e| format!("{e:?}"))?;
        f(&mut w)?;
        drop(w);
        Ok(cursor.written().to_vec())
    };
    let hdr = |func: u8| vec![0xC5u8, func];
    match r {
        Req::Classes(c0, c1, c2, c3) => {
            let req = ReadRequest::class_scan(Classes::new(*c0, EventClasses::new(*c1, *c2, *c3)));
            let l = lib(FunctionCode::Read, &mut |w| {
                req.format(w).map_err(|e| format!("{e:?}"))
            });
            let mut e = hdr(1);
            // events before static data
            for (on, v) in [(*c1, 2u8), (*c2, 3), (*c3, 4), (*c0, 1)] {
                if on {
                    e.extend(ra::h_all(60, v));
                }
            }
            Some((1, l, e))
        }
        Req::Read(hs) => {
            let rh: Option<Vec<ReadHeader>> = hs.iter().map(to_read_header).collect();
            let rh = rh?;
            let req = ReadRequest::multiple_headers(&rh);
            let l = lib(FunctionCode::Read, &mut |w| {
                req.format(w).map_err(|e| format!("{e:?}"))
            });
            let mut e = hdr(1);
            for h in hs {
                e.extend(ref_read_header(h));
            }
            Some((1, l, e))
        }
        Req::ReadOne(h) => {
            let req = match h {
                RH::All(g, v) => ReadRequest::all_objects(variation_of(*g, *v)?),
                RH::R8(g, v, a, b) => ReadRequest::one_byte_range(variation_of(*g, *v)?, *a, *b),
                RH::R16(g, v, a, b) => ReadRequest::two_byte_range(variation_of(*g, *v)?, *a, *b),
                _ => return None,
            };
            let l = lib(FunctionCode::Read, &mut |w| {
                req.format(w).map_err(|e| format!("{e:?}"))
            });
            let mut e = hdr(1);
            e.extend(ref_read_header(h));
            Some((1, l, e))
        }
        Req::ReadAttr(var, set) => {
            let req = ReadRequest::device_attribute(*var, crate::app::attr::AttrSet::new(*set));
            let l = lib(FunctionCode::Read, &mut |w| {
                req.format(w).map_err(|e| format!("{e:?}"))
            });
            let mut e = hdr(1);
            e.extend(ra::h_range8(0, *var, *set, *set, &[]));
            Some((1, l, e))
        }
        Req::Headers(fsel, hs, ti, attr) => {
            let funcs = [
                FunctionCode::Write,
                FunctionCode::ImmediateFreeze,
                FunctionCode::FreezeClear,
                FunctionCode::FreezeAtTime,
                FunctionCode::AssignClass,
                FunctionCode::EnableUnsolicited,
                FunctionCode::DisableUnsolicited,
            ];
            let function = funcs[*fsel as usize % funcs.len()];
            let mut headers = Headers::new();
            let mut e = hdr(function.as_u8());
            for h in hs {
                headers = match h {
                    RH::All(g, v) => headers.add_all_objects(variation_of(*g, *v)?),
                    RH::R8(g, v, a, b) => headers.add_range_8(variation_of(*g, *v)?, *a, *b),
                    RH::R16(g, v, a, b) => headers.add_range_16(variation_of(*g, *v)?, *a, *b),
                    RH::C8(g, v, n) => {
                        headers.add_one_byte_limited_count(variation_of(*g, *v)?, *n)
                    }
                    RH::C16(g, v, n) => {
                        headers.add_two_byte_limited_count(variation_of(*g, *v)?, *n)
                    }
                };
                e.extend(ref_read_header(h));
            }
            if let Some((t, iv)) = ti {
                headers = headers.add_time_and_interval(Timestamp::new(*t), *iv);
                let mut d = ra::u48(*t & 0xFFFF_FFFF_FFFF).to_vec();
                d.extend_from_slice(&iv.to_le_bytes());
                e.extend(ra::h_count8(50, 2, 1, &d));
            }
            if let Some((var, set, val)) = attr {
                let a = crate::app::attr::OwnedAttribute::new(
                    crate::app::attr::AttrSet::new(*set),
                    *var,
                    crate::app::attr::OwnedAttrValue::UnsignedInt(*val),
                );
                headers = headers.add_attribute(a);
                // reference: g0 vN, qualifier 00, start=stop=set, [type=UINT(2)][len][value LE, shortest of 1/2/4]
                let mut d = vec![2u8];
                if *val <= 0xFF {
                    d.push(1);
                    d.push(*val as u8);
                } else if *val <= 0xFFFF {
                    d.push(2);
                    d.extend_from_slice(&(*val as u16).to_le_bytes());
                } else {
                    d.push(4);
                    d.extend_from_slice(&val.to_le_bytes());
                }
                e.extend(ra::h_range8(0, *var, *set, *set, &d));
            }
            let l = lib(function, &mut |w| {
                headers.write(w).map_err(|e| format!("{e:?}"))
            });
            Some((function.as_u8(), l, e))
        }
        Req::Commands(fsel, hs) => {
            let funcs = [
                FunctionCode::Select,
                FunctionCode::Operate,
                FunctionCode::DirectOperate,
                FunctionCode::DirectOperateNoResponse,
            ];
            let function = funcs[*fsel as usize % funcs.len()];
            let (cmds, body) = build_cmds(hs);
            let l = lib(function, &mut |w| {
                cmds.write(w).map_err(|e| format!("{e:?}"))
            });
            let mut e = hdr(function.as_u8());
            e.extend(body);
            Some((function.as_u8(), l, e))
        }
        Req::DeadBands(hs) => {
            let mut e = hdr(2);
            let mut list = vec![];
            for (kind, wide, items) in hs {
                if items.is_empty() {
                    continue;
                }
                let v = 1 + kind % 3;
                let data = |x: u32| -> Vec<u8> {
                    match v {
                        1 => (x as u16).to_le_bytes().to_vec(),
                        2 => x.to_le_bytes().to_vec(),
                        _ => f32::from_bits(x).to_le_bytes().to_vec(),
                    }
                };
                if *wide {
                    let o: Vec<(u16, Vec<u8>)> =
                        items.iter().map(|(i, x)| (*i, data(*x))).collect();
                    e.extend(ra::h_prefixed16(34, v, &o));
                    list.push(match v {
                        1 => DeadBandHeader::group34_var1_u16(
                            items.iter().map(|(i, x)| (*i, *x as u16)).collect(),
                        ),
                        2 => DeadBandHeader::group34_var2_u16(
                            items.iter().map(|(i, x)| (*i, *x)).collect(),
                        ),
                        _ => DeadBandHeader::group34_var3_u16(
                            items
                                .iter()
                                .map(|(i, x)| (*i, f32::from_bits(*x)))
                                .collect(),
                        ),
                    });
                } else {
                    let o: Vec<(u8, Vec<u8>)> =
                        items.iter().map(|(i, x)| (*i as u8, data(*x))).collect();
                    e.extend(ra::h_prefixed8(34, v, &o));
                    list.push(match v {
                        1 => DeadBandHeader::group34_var1_u8(
                            items.iter().map(|(i, x)| (*i as u8, *x as u16)).collect(),
                        ),
                        2 => DeadBandHeader::group34_var2_u8(
                            items.iter().map(|(i, x)| (*i as u8, *x)).collect(),
                        ),
                        _ => DeadBandHeader::group34_var3_u8(
                            items
                                .iter()
                                .map(|(i, x)| (*i as u8, f32::from_bits(*x)))
                                .collect(),
                        ),
                    });
                }
            }
            let task = crate::master::tasks::deadbands::WriteDeadBandsTask::new(
                list,
                crate::master::promise::Promise::null(),
            );
            let l = lib(FunctionCode::Write, &mut |w| {
                task.write(w).map_err(|e| format!("{e:?}"))
            });
            Some((2, l, e))
        }
        Req::File(var, seed, name, data) => {
            let (function, l, body) = file_request(*var, *seed, name, data, &mut lib)?;
            let mut e = hdr(function);
            e.extend(body);
            Some((function, l, e))
        }
    }
}

/// group 70 objects, reference encoding from IEEE 1815 Annex A.22 (all multi-octet fields little-endian)
fn file_request(
    var: u8,
    seed: u32,
    name: &[u8],
    data: &[u8],
    lib: &mut dyn FnMut(
        FunctionCode,
        &mut dyn FnMut(&mut HeaderWriter) -> Result<(), String>,
    ) -> Result<Vec<u8>, String>,
) -> Option<(u8, Result<Vec<u8>, String>, Vec<u8>)> {
    use crate::app::file::*;
    use crate::master::FileMode;
    // printable file names only (the API takes &str)
    let name: String = name.iter().map(|b| (b'a' + (b % 26)) as char).collect();
    let s = seed;
    let wrap = |g: u8, v: u8, obj: Vec<u8>| -> Vec<u8> {
        let mut o = vec![g, v, 0x5B, 1];
        o.extend_from_slice(&(obj.len() as u16).to_le_bytes());
        o.extend(obj);
        o
    };
    match var {
        2 => {
            // authentication: user name offset/size, password offset/size, auth key, strings
            let user = name.clone();
            let pass: String = data.iter().map(|b| (b'A' + (b % 26)) as char).collect();
            let obj = Group70Var2 {
                auth_key: s,
                user_name: &user,
                password: &pass,
            };
            let l = lib(FunctionCode::AuthenticateFile, &mut |w| {
                w.write_free_format(&obj).map_err(|e| format!("{e:?}"))
            });
            let mut e = vec![];
            e.extend_from_slice(&12u16.to_le_bytes());
            e.extend_from_slice(&(user.len() as u16).to_le_bytes());
            e.extend_from_slice(&((12 + user.len()) as u16).to_le_bytes());
            e.extend_from_slice(&(pass.len() as u16).to_le_bytes());
            e.extend_from_slice(&s.to_le_bytes());
            e.extend_from_slice(user.as_bytes());
            e.extend_from_slice(pass.as_bytes());
            Some((FunctionCode::AuthenticateFile.as_u8(), l, wrap(70, 2, e)))
        }
        3 => {
            let modes = [
                (FileMode::Read, 1u16),
                (FileMode::Write, 2),
                (FileMode::Append, 3),
                (FileMode::Null, 0),
            ];
            let (mode, mode_raw) = modes[(s as usize) % modes.len()];
            let perm_raw = ((s >> 3) & 0x1FF) as u16;
            let bit = |k: u16| perm_raw & (1 << k) != 0;
            let permissions = Permissions {
                world: PermissionSet {
                    execute: bit(0),
                    write: bit(1),
                    read: bit(2),
                },
                group: PermissionSet {
                    execute: bit(3),
                    write: bit(4),
                    read: bit(5),
                },
                owner: PermissionSet {
                    execute: bit(6),
                    write: bit(7),
                    read: bit(8),
                },
            };
            let t = (s as u64).wrapping_mul(0x1_0001_0001) & 0xFFFF_FFFF_FFFF;
            let obj = Group70Var3 {
                time_of_creation: Timestamp::new(t),
                permissions,
                auth_key: s ^ 0xA5A5,
                file_size: s.rotate_left(7),
                mode,
                max_block_size: (s >> 9) as u16,
                request_id: (s >> 5) as u16,
                file_name: &name,
            };
            let function = if s % 2 == 0 {
                FunctionCode::OpenFile
            } else {
                FunctionCode::DeleteFile
            };
            let l = lib(function, &mut |w| {
                w.write_free_format(&obj).map_err(|e| format!("{e:?}"))
            });
            let mut e = vec![];
            e.extend_from_slice(&26u16.to_le_bytes());
            e.extend_from_slice(&(name.len() as u16).to_le_bytes());
            e.extend_from_slice(&ra::u48(t));
            e.extend_from_slice(&perm_raw.to_le_bytes());
            e.extend_from_slice(&(s ^ 0xA5A5).to_le_bytes());
            e.extend_from_slice(&s.rotate_left(7).to_le_bytes());
            e.extend_from_slice(&mode_raw.to_le_bytes());
            e.extend_from_slice(&((s >> 9) as u16).to_le_bytes());
            e.extend_from_slice(&((s >> 5) as u16).to_le_bytes());
            e.extend_from_slice(name.as_bytes());
            Some((function.as_u8(), l, wrap(70, 3, e)))
        }
        4 => {
            let statuses = [
                (FileStatus::Success, 0u8),
                (FileStatus::PermissionDenied, 1),
                (FileStatus::FileLocked, 4),
                (FileStatus::NotOpened, 16),
                (FileStatus::Undefined, 255),
                (FileStatus::Other(77), 77),
            ];
            let (status, raw) = statuses[(s as usize) % statuses.len()];
            let text: String = data.iter().map(|b| (b'a' + (b % 26)) as char).collect();
            let obj = Group70Var4 {
                file_handle: s,
                file_size: s.rotate_left(3),
                max_block_size: (s >> 7) as u16,
                request_id: (s >> 11) as u16,
                status_code: status,
                text: &text,
            };
            let l = lib(FunctionCode::CloseFile, &mut |w| {
                w.write_free_format(&obj).map_err(|e| format!("{e:?}"))
            });
            let mut e = vec![];
            e.extend_from_slice(&s.to_le_bytes());
            e.extend_from_slice(&s.rotate_left(3).to_le_bytes());
            e.extend_from_slice(&((s >> 7) as u16).to_le_bytes());
            e.extend_from_slice(&((s >> 11) as u16).to_le_bytes());
            e.push(raw);
            e.extend_from_slice(text.as_bytes());
            Some((FunctionCode::CloseFile.as_u8(), l, wrap(70, 4, e)))
        }
        5 => {
            let obj = Group70Var5 {
                file_handle: s,
                block_number: s.rotate_left(9),
                file_data: data,
            };
            let function = if s % 2 == 0 {
                FunctionCode::Read
            } else {
                FunctionCode::Write
            };
            let l = lib(function, &mut |w| {
                w.write_free_format(&obj).map_err(|e| format!("{e:?}"))
            });
            let mut e = vec![];
            e.extend_from_slice(&s.to_le_bytes());
            e.extend_from_slice(&s.rotate_left(9).to_le_bytes());
            e.extend_from_slice(data);
            Some((function.as_u8(), l, wrap(70, 5, e)))
        }
        7 => {
            let obj = Group70Var7 {
                file_type: if s % 2 == 0 {
                    FileType::File
                } else {
                    FileType::Directory
                },
                file_size: s.rotate_left(5),
                time_of_creation: Timestamp::new((s as u64) << 11),
                permissions: Permissions::default(),
                request_id: (s >> 3) as u16,
                file_name: &name,
            };
            let l = lib(FunctionCode::GetFileInfo, &mut |w| {
                w.write_free_format(&obj).map_err(|e| format!("{e:?}"))
            });
            let mut e = vec![];
            e.extend_from_slice(&20u16.to_le_bytes());
            e.extend_from_slice(&(name.len() as u16).to_le_bytes());
            e.extend_from_slice(&((s % 2 == 0) as u16).to_le_bytes());
            e.extend_from_slice(&s.rotate_left(5).to_le_bytes());
            e.extend_from_slice(&ra::u48(((s as u64) << 11) & 0xFFFF_FFFF_FFFF));
            e.extend_from_slice(&0u16.to_le_bytes());
            e.extend_from_slice(&((s >> 3) as u16).to_le_bytes());
            e.extend_from_slice(name.as_bytes());
            Some((FunctionCode::GetFileInfo.as_u8(), l, wrap(70, 7, e)))
        }
        _ => None,
    }
}

pub fn run_request(r: &Req) -> CaseOut {
    let mut out = CaseOut::default();
    ParseOptions::parse_zero_length_strings(false);
    let Some((function, lib, expect)) = encode_both(r) else {
        out.label("outside_domain");
        return out;
    };
    // a header with 8-bit count and index cannot hold more than 255 objects: the builder may refuse, or use several
    // headers - but whatever it emits must carry exactly the objects asked for
    let overfull: Option<usize> = match r {
        Req::Commands(_, hs) if hs.iter().any(|h| !h.wide && h.objs.len() > 255) => {
            Some(hs.iter().map(|h| h.objs.len()).sum())
        }
        Req::DeadBands(hs)
            if hs
                .iter()
                .any(|(_, wide, items)| !*wide && items.len() > 255) =>
        {
            Some(hs.iter().map(|h| h.2.len()).sum())
        }
        _ => None,
    };
    if let Some(total) = overfull {
        out.label("more_objects_than_an_8_bit_count");
        out.nontrivial = true;
        if let Ok(bytes) = &lib {
            let on_wire: usize = ra::walk(function, &bytes[2..])
                .map(|hs| hs.iter().map(|h| h.objects.len()).sum())
                .unwrap_or(usize::MAX);
            if on_wire != total {
                out.fail(Fail::new("R-count-overflow", format!("{total} objects were asked for with 8-bit indices; the request that was built declares {} (octets {:02x?} ...)", if on_wire == usize::MAX { "something the reference walker cannot parse".to_string() } else { on_wire.to_string() }, &bytes[..bytes.len().min(12)])));
            }
        }
        return out;
    }
    let lib = match lib {
        Ok(l) => l,
        Err(e) => {
            // the only legitimate failure is running out of buffer space; 32 KiB is ample for every generated request (3 headers x 258 objects x 12 octets)
            out.fail(Fail::new(
                "R-builder-error",
                format!("request builder failed: {e}"),
            ));
            return out;
        }
    };
    out.label(match r {
        Req::Classes(..) => "classes",
        Req::Read(..) => "read_multi",
        Req::ReadOne(..) => "read_one",
        Req::ReadAttr(..) => "read_attr",
        Req::Headers(..) => "headers",
        Req::Commands(..) => "commands",
        Req::DeadBands(..) => "dead_bands",
        Req::File(..) => "file",
    });
    if lib != expect {
        out.fail(Fail::new("R-encoding", format!("library request octets differ from the reference encoding of the described request\n  library:   {:02x?}\n  reference: {:02x?}", lib, expect)));
        return out;
    }
    // the library's own parser takes the request for exactly that
    let p = match ParsedFragment::parse(ParseOptions::default(), &lib) {
        Ok(p) => p,
        Err(e) => {
            out.fail(Fail::new(
                "R-parse",
                format!("library parser rejects the header of its own request: {e:?}"),
            ));
            return out;
        }
    };
    if p.function.as_u8() != function
        || p.control.seq.value() != 5
        || !p.control.fir
        || !p.control.fin
        || p.control.con
        || p.control.uns
        || p.iin.is_some()
    {
        out.fail(Fail::new(
            "R-header",
            format!(
                "request header parsed as function {:?} control {:?}",
                p.function, p.control
            ),
        ));
        return out;
    }
    match &p.objects {
        Err(e) => {
            // a request the library can build but its own parser refuses: a failure for every combination that is
            // certainly defined by the standard (the builders accept any variation/qualifier pair from the user)
            if must_parse(r) {
                out.fail(Fail::new("R-parse", format!("library parser rejects the objects of its own request ({e:?}); reference walker: {:?}; octets {:02x?}", ra::walk(function, &lib[2..]).map(|h| h.len()), lib)));
            } else {
                out.label("builder_output_not_required_to_parse");
            }
        }
        Ok(objs) => match agree(function, &lib[2..], objs) {
            Ok(a) => {
                out.nontrivial = a.headers > 0;
                if a.sized_objects > 0 {
                    out.label("has_objects");
                }
                if a.ref_abstained {
                    out.label("reference_abstains");
                }
            }
            Err(f) => out.fail(f),
        },
    }
    out
}

/// READ header forms that IEEE 1815 certainly defines (conservative): rejection of these by the parser is a failure
fn read_header_defined(h: &RH) -> bool {
    let stat = |g: u8| matches!(g, 1 | 3 | 10 | 20 | 21 | 30 | 40);
    let evt = |g: u8| matches!(g, 2 | 4 | 11 | 22 | 23 | 32 | 42);
    match h {
        RH::All(g, v) => {
            (stat(*g) || evt(*g))
                || (*g == 60 && (1..=4).contains(v))
                || (*g == 110 && *v == 0)
                || (*g == 111 && *v == 0)
        }
        RH::R8(g, v, _, _) | RH::R16(g, v, _, _) => stat(*g) || (*g == 110 && *v == 0),
        RH::C8(g, v, _) | RH::C16(g, v, _) => evt(*g) || (*g == 60 && (2..=4).contains(v)),
    }
}

fn must_parse(r: &Req) -> bool {
    match r {
        Req::Classes(..)
        | Req::ReadAttr(..)
        | Req::Commands(..)
        | Req::DeadBands(..)
        | Req::File(..) => true,
        Req::Read(hs) => hs.iter().all(read_header_defined),
        Req::ReadOne(h) => read_header_defined(h),
        // generic headers under a non-READ function: object-less forms only
        Req::Headers(f, hs, _, _) => {
            let _ = f;
            hs.iter().all(|h| matches!(h, RH::All(g, v) if (*g == 60 && (1..=4).contains(v)) || (matches!(*g, 20 | 21 | 30) && *v == 0)))
        }
    }
}

fn rh_strategy() -> impl Strategy<Value = RH> {
    let gv = fraggen::known_gv();
    let n = gv.len();
    let gv_s = (0..n).prop_map(move |i| gv[i]);
    let num16 = prop_oneof![
        Just(0u16),
        Just(1),
        Just(255),
        Just(256),
        Just(65535),
        Just(65534),
        0u16..20,
        any::<u16>()
    ];
    let num8 = prop_oneof![
        Just(0u8),
        Just(1),
        Just(255),
        Just(254),
        0u8..20,
        any::<u8>()
    ];
    prop_oneof![
        (gv_s.clone()).prop_map(|(g, v)| RH::All(g, v)),
        (gv_s.clone(), num8.clone(), num8.clone()).prop_map(|((g, v), a, b)| RH::R8(
            g,
            v,
            a.min(b),
            a.max(b)
        )),
        (gv_s.clone(), num16.clone(), num16.clone()).prop_map(|((g, v), a, b)| RH::R16(
            g,
            v,
            a.min(b),
            a.max(b)
        )),
        (gv_s.clone(), num8).prop_map(|((g, v), n)| RH::C8(g, v, n)),
        (gv_s, num16).prop_map(|((g, v), n)| RH::C16(g, v, n)),
    ]
}

fn req_strategy() -> BoxedStrategy<Req> {
    let idx = prop_oneof![
        Just(0u16),
        Just(1),
        Just(255),
        Just(256),
        Just(65535),
        any::<u16>()
    ];
    let cmdh = (
        0u8..5,
        any::<bool>(),
        prop_oneof![
            16 => proptest::collection::vec((idx.clone(), any::<u32>()), 1..6),
            // as many objects as an 8-bit count can just hold, and more
            1 => proptest::collection::vec((idx.clone(), any::<u32>()), 254..=258),
        ],
    )
        .prop_map(|(kind, wide, objs)| CmdH { kind, wide, objs });
    let db = (
        0u8..3,
        any::<bool>(),
        prop_oneof![
            16 => proptest::collection::vec((idx.clone(), any::<u32>()), 0..5),
            1 => proptest::collection::vec((idx, any::<u32>()), 254..=258),
        ],
    );
    prop_oneof![
        1 => any::<(bool, bool, bool, bool)>().prop_map(|(a, b, c, d)| Req::Classes(a, b, c, d)),
        3 => proptest::collection::vec(rh_strategy(), 0..5).prop_map(Req::Read),
        2 => rh_strategy().prop_map(Req::ReadOne),
        1 => (1u8..=255, any::<u8>()).prop_map(|(v, s)| Req::ReadAttr(v, s)),
        3 => (any::<u8>(), proptest::collection::vec(rh_strategy(), 0..4), proptest::option::of((any::<u64>().prop_map(|t| t & 0xFFFF_FFFF_FFFF), any::<u32>())), proptest::option::of((1u8..=253, any::<u8>(), prop_oneof![Just(0u32), Just(255), Just(256), Just(65535), Just(65536), any::<u32>()]))).prop_map(|(f, h, t, a)| Req::Headers(f, h, t, a)),
        4 => (any::<u8>(), proptest::collection::vec(cmdh, 1..4)).prop_map(|(f, h)| Req::Commands(f, h)),
        2 => proptest::collection::vec(db, 1..4).prop_map(Req::DeadBands),
        3 => (prop_oneof![Just(2u8), Just(3), Just(4), Just(5), Just(7)], any::<u32>(), proptest::collection::vec(any::<u8>(), 0..12), proptest::collection::vec(any::<u8>(), 0..40)).prop_map(|(v, s, n, d)| Req::File(v, s, n, d)),
    ]
    .boxed()
}

pub struct Requests;
impl Prop for Requests {
    type Case = Req;
    const ID: &'static str = "C09";
    const NAME: &'static str = "requests";
    fn rule() -> &'static str {
        "descriptions of master requests (ReadRequest in every shape, Headers incl. time-and-interval and attribute writes, CommandBuilder over 5 control types x u8/u16 indices x several headers, dead-band writes, file objects g70v2/3/4/5/7) are encoded by the library's builders and by the reference encoders: the octets must be identical, the library parser must accept them as function/flags/sequence described, and the accept=>exact agreement must hold; non-trivial = at least one object header"
    }
    fn strategy(_tier: Tier) -> BoxedStrategy<Req> {
        req_strategy()
    }
    fn cases(tier: Tier) -> u32 {
        match tier {
            Tier::Quick => 150_000,
            Tier::Thorough => 10_000_000,
        }
    }
    fn run(case: &Req) -> CaseOut {
        run_request(case)
    }
    fn floors() -> Vec<(&'static str, u32)> {
        vec![("commands", 100), ("file", 50), ("headers", 50)]
    }
}

// ---------------------------------------------------------------------------------------------
// outstation writers (shares the C10 generator and pipeline)

pub struct Writers;
impl Prop for Writers {
    type Case = crate::verif::props::c10::Case;
    const ID: &'static str = "C09";
    const NAME: &'static str = "writers";
    fn rule() -> &'static str {
        "the C10 database/update/read generator: every response and unsolicited fragment produced by the static RangeWriter (incl. bit-packed and promoted variations) and the EventWriter (incl. common-time-of-occurrence headers) must be accepted by the library parser, satisfy the accept=>exact agreement with the reference walker, and decode to exactly the described points/values (the C10 content oracle); non-trivial as in C10"
    }
    fn strategy(tier: Tier) -> BoxedStrategy<Self::Case> {
        <crate::verif::props::c10::Trip as Prop>::strategy(tier)
    }
    fn cases(tier: Tier) -> u32 {
        match tier {
            Tier::Quick => 100_000,
            Tier::Thorough => 3_000_000,
        }
    }
    fn run(case: &Self::Case) -> CaseOut {
        crate::verif::props::c10::run_case_with(case, true)
    }
}

pub fn run<C: Codec>(tier: Tier) -> i32 {
    let mut ctx = Ctx::<C>::new("C09", tier);
    ctx.assumptions.push("trusted base: harness/wire/app.rs (object size table and header walker transcribed from IEEE 1815 Annex A; it abstains on object/qualifier/function combinations the standard does not define, on unknown objects and on device-attribute TLVs), the reference encoders for requests and file objects in harness/props/c09.rs".into());
    ctx.assumptions.push("accept=>exact is one-directional on purpose: which legal combinations the library supports is not the property; zero-length octet strings stay disabled (default parse options)".into());
    ctx.run::<AcceptExact>();
    ctx.run::<Requests>();
    ctx.run::<Writers>();
    ctx.run::<crate::verif::props::c09a::AttrValues>();
    ctx.run::<crate::verif::props::c09a::AttrResponses>();
    ctx.run::<crate::verif::props::c09e::Echoes>();
    ctx.finish()
}

pub fn replay<C: Codec>(text: &str, known: &[Known]) -> Option<i32> {
    replay_file::<C, AcceptExact>(text, known)
        .or_else(|| replay_file::<C, Requests>(text, known))
        .or_else(|| replay_file::<C, Writers>(text, known))
        .or_else(|| replay_file::<C, crate::verif::props::c09a::AttrValues>(text, known))
        .or_else(|| replay_file::<C, crate::verif::props::c09a::AttrResponses>(text, known))
        .or_else(|| replay_file::<C, crate::verif::props::c09e::Echoes>(text, known))
}
