//! C03 — no event is lost, invented, or released before a confirmed response carried it
use crate::verif::engine::*;
use crate::verif::props::evs::*;
use crate::verif::rig::runtime;
use proptest::prelude::*;

pub struct Ledger;

impl Prop for Ledger {
    type Case = Case;
    const ID: &'static str = "C03";
    const NAME: &'static str = "ledger";
    fn rule() -> &'static str {
        "histories of updates (all 8 point types, classes 1-3, every event variation, unique values), READs (by class / by type / specific variation, all-objects or count-limited 0,1,2,n), right and wrong solicited/unsolicited confirms, time advances around the confirm timeout and retry delay, aborting requests (addressed and by broadcast), ENABLE/DISABLE_UNSOLICITED (addressed and by broadcast), reconnects; per-type buffers 0..8, retries None/0/1/3, tx buffers 249..; oracle = an independent ledger: L1 release only inside a confirm bracket following the harness' own matching in-time confirm of the fragment that carried the event, L2 everything the confirmed fragment carried is released exactly once, L3 every event object on the wire matches a live recorded event (nothing invented/resurrected), L4 oldest first, L5 exact index/value/flags/time under the reference decoder and - unless the READ names a variation itself - in the variation configured for the point, L6 after a confirmed drain released + drained = recorded - discarded and end_confirm's buffer state equals the ledger; non-trivial = an event-bearing fragment that was not confirmed followed later by a confirmed event-bearing one, or an overflow"
    }
    fn cases(tier: Tier) -> u32 {
        match tier {
            Tier::Quick => 150_000,
            Tier::Thorough => 6_000_000,
        }
    }
    fn floors() -> Vec<(&'static str, u32)> {
        vec![
            ("poll_with_events", 150),
            ("unsol_with_events", 50),
            ("overflow", 30),
            ("confirmed_after_unconfirmed_carrier", 20),
            ("some_event_released", 150),
        ]
    }
    fn strategy(tier: Tier) -> BoxedStrategy<Case> {
        case_strategy(false, if tier == Tier::Quick { 24 } else { 48 })
    }
    fn run(case: &Case) -> CaseOut {
        let rt = runtime();
        let f = rt.block_on(run_history(case, false));
        let mut out = CaseOut::default();
        out.labels = f.labels;
        out.nontrivial = f.nontrivial_c03;
        out.fail = f.common.or(f.c03);
        out
    }
}

pub fn run<C: Codec>(tier: Tier) -> i32 {
    let mut ctx = Ctx::<C>::new("C03", tier);
    ctx.assumptions.push("'confirmed' is decided by the harness: it sent the confirmation with the right sequence number and UNS bit strictly inside the confirm timeout of the fragment's last transmission; a confirm exactly at the deadline instant is not judged either way".into());
    ctx.run::<Ledger>();
    ctx.finish()
}

pub fn replay<C: Codec>(text: &str, known: &[Known]) -> Option<i32> {
    replay_file::<C, Ledger>(text, known)
}
