//! C15 — a master accepts only the answer to its question and confirms what it accepts
use crate::app::control::*;
use crate::app::variations::Group12Var1;
use crate::master::*;
use crate::verif::engine::*;
use crate::verif::rig::handler::HEv;
use crate::verif::rig::master::*;
use crate::verif::rig::runtime;
use crate::verif::wire::app::{self as ra, func, Fragment};
use proptest::prelude::*;
use serde::{Deserialize, Serialize};

pub const OUT_A: u16 = 1024;
pub const OUT_B: u16 = 1025;
pub const TIMEOUT: u64 = 1000;

#[derive(Clone, Debug, Serialize, Deserialize, PartialEq)]
pub enum TaskKind {
    /// user READ of class 0; the planned answer has this many fragments (1..=3, or around 17 / 33 where the
    /// 4-bit sequence number comes back to the request's)
    Read(u8),
    /// the start-up integrity poll of the association is the outstanding task (planned fragments)
    Startup(u8),
    /// DIRECT_OPERATE of one CROB
    Command,
    LinkStatus,
    /// nothing outstanding
    Idle,
}

#[derive(Clone, Debug, Serialize, Deserialize, PartialEq)]
pub enum Dev {
    WrongSeq(u8),
    ForeignSource,
    UnknownSource,
    FirFlipped,
    NoConOnNonFin,
    /// FIN cleared on a response that must be a single fragment (non-READ) / FIN set early (READ)
    FinFlipped,
    UnsBitSet,
    Iin2(u8),
    TruncatedObjects,
    UnknownObject,
    /// response function code on a request-shaped fragment / request function code
    NotAResponse(u8),
}

#[derive(Clone, Debug, Serialize, Deserialize, PartialEq)]
pub enum Item {
    /// the fragment the master is waiting for (with CON also on the final one if the flag is set)
    Good(bool),
    Deviant(Dev),
    /// unsolicited response from the addressed outstation: duplicate of the previous one?, with data?, CON?
    Unsol(bool, bool, bool),
    /// unsolicited response from an address without association
    UnsolUnknown,
    /// unsolicited response from the addressed outstation whose object part does not parse (kind selector), CON?
    UnsolBad(u8, bool),
    Silence(u16),
}

#[derive(Clone, Debug, Serialize, Deserialize)]
pub struct Case {
    pub task: TaskKind,
    pub items: Vec<Item>,
    pub decode: u8,
    /// number of expected fragments delivered in a row before `items` start (long series)
    #[serde(default)]
    pub prefix: u8,
    /// unsolicited responses carry IIN1.7 (device restart): the master (an association without start-up tasks) answers
    /// with its WRITE of g80v1, which the responder acknowledges at once
    #[serde(default)]
    pub unsol_restart: bool,
}

pub struct Accept;

impl Prop for Accept {
    type Case = Case;
    const ID: &'static str = "C15";
    const NAME: &'static str = "accept";
    fn rule() -> &'static str {
        "an outstanding user READ or start-up integrity poll (answer planned as 1-3 fragments, or 16-18 / 32-34 so that the series passes the wrap of the 4-bit sequence number), DIRECT_OPERATE command, link status check, or nothing; response streams mixing the expected fragment, one-deviation variants (every wrong sequence number, foreign / unknown source, FIR flipped, no CON on a non-final fragment, FIN flipped, UNS bit, IIN2 error bits, truncated / unknown objects, non-response function), unsolicited responses (new, duplicate, with/without data and CON, unknown source; in a quarter of the cases all of them reporting a device restart, which the master answers with its WRITE of g80v1) and silences; oracle from the statement: success only with a complete in-order series from the addressed outstation (and always when nothing but ignorable traffic interferes), the handler sees begin/objects-in-wire-order/end exactly once per accepted fragment and never for a rejected one, every accepted CON fragment is confirmed exactly once with the same sequence number and UNS bit before the next request, a duplicate unsolicited response is confirmed but not delivered; while the start-up poll is outstanding an unsolicited response may be ignored or accepted but confirmed <=> delivered, never twice, and a later repeat of an ignored one is delivered; non-trivial = >= 1 one-deviation fragment while a task is outstanding"
    }
    fn cases(tier: Tier) -> u32 {
        match tier {
            Tier::Quick => 300_000,
            Tier::Thorough => 12_000_000,
        }
    }
    fn floors() -> Vec<(&'static str, u32)> {
        vec![
            ("task_succeeded", 100),
            ("task_failed", 100),
            ("unsol_duplicate", 20),
            ("multi_fragment_read", 50),
            ("series_past_seq_wrap", 20),
            ("startup_poll_outstanding", 50),
            ("unsol_ignored_then_repeated", 2),
        ]
    }
    fn strategy(_tier: Tier) -> BoxedStrategy<Case> {
        let dev = prop_oneof![
            2 => (1u8..16).prop_map(Dev::WrongSeq),
            1 => Just(Dev::ForeignSource),
            1 => Just(Dev::UnknownSource),
            1 => Just(Dev::FirFlipped),
            1 => Just(Dev::NoConOnNonFin),
            1 => Just(Dev::FinFlipped),
            1 => Just(Dev::UnsBitSet),
            1 => (1u8..8).prop_map(Dev::Iin2),
            1 => Just(Dev::TruncatedObjects),
            1 => Just(Dev::UnknownObject),
            1 => prop_oneof![Just(1u8), Just(0), Just(130), Just(131)].prop_map(Dev::NotAResponse),
        ];
        let item = prop_oneof![
            6 => any::<bool>().prop_map(Item::Good),
            4 => dev.prop_map(Item::Deviant),
            3 => (any::<bool>(), any::<bool>(), any::<bool>()).prop_map(|(a, b, c)| Item::Unsol(a, b, c)),
            1 => Just(Item::UnsolUnknown),
            1 => (any::<u8>(), any::<bool>()).prop_map(|(k, c)| Item::UnsolBad(k, c)),
            1 => prop_oneof![Just(1u16), Just(999), 0u16..400].prop_map(Item::Silence),
        ];
        let planned = prop_oneof![8 => 1u8..=3, 1 => 16u8..=18, 1 => 32u8..=34];
        let task = prop_oneof![4 => planned.clone().prop_map(TaskKind::Read), 2 => planned.prop_map(TaskKind::Startup), 3 => Just(TaskKind::Command), 1 => Just(TaskKind::LinkStatus), 1 => Just(TaskKind::Idle)];
        (
            task,
            proptest::collection::vec(item, 1..8),
            0u8..4,
            0u8..3,
            prop_oneof![3 => Just(false), 1 => Just(true)],
        )
            .prop_map(|(task, items, decode, back, unsol_restart)| {
                // long series: the expected fragments up to 0-2 before the last are delivered first, so that the
                // generated items hit the positions around the wrap of the sequence number
                let prefix = match task {
                    TaskKind::Read(n) | TaskKind::Startup(n) if n > 3 => n - 1 - back.min(n - 1),
                    _ => 0,
                };
                Case {
                    task,
                    items,
                    decode,
                    prefix,
                    unsol_restart,
                }
            })
            .boxed()
    }
    fn run(case: &Case) -> CaseOut {
        let rt = runtime();
        rt.block_on(run_case(case))
    }
}

/// objects of planned READ fragment k: three binary inputs with flags, indices unique per fragment
fn read_objects(k: u8) -> (Vec<u8>, Vec<u16>) {
    let start = k * 4;
    (
        ra::h_range8(1, 2, start, start + 2, &[0x81, 0x01, 0x81]),
        vec![start as u16, start as u16 + 1, start as u16 + 2],
    )
}

fn unsol_objects(n: u8) -> (Vec<u8>, Vec<u16>) {
    (
        ra::h_prefixed16(2, 1, &[(200 + n as u16, vec![0x81])]),
        vec![200 + n as u16],
    )
}

#[derive(Debug, Clone, PartialEq)]
enum Delivery {
    /// (read type, seq, indices)
    Frag(String, u8, Vec<u16>),
}

fn deliveries(log: Vec<HEv>) -> Result<Vec<Delivery>, String> {
    let mut out = vec![];
    let mut cur: Option<(String, u8, Vec<u16>)> = None;
    for e in log {
        match e {
            HEv::Begin(rt, seq, _) => {
                if cur.is_some() {
                    return Err("begin_fragment inside an open fragment".into());
                }
                cur = Some((rt, seq, vec![]));
            }
            HEv::Meas(_, _, _, _, items) => match &mut cur {
                Some(c) => c.2.extend(items.iter().map(|i| i.index)),
                None => return Err("measurement outside begin/end".into()),
            },
            HEv::Other(..) => {}
            HEv::End(rt, seq) => match cur.take() {
                Some(c) if c.0 == rt && c.1 == seq => out.push(Delivery::Frag(c.0, c.1, c.2)),
                _ => return Err("end_fragment does not match begin_fragment".into()),
            },
        }
    }
    if cur.is_some() {
        return Err("begin_fragment without end_fragment".into());
    }
    Ok(out)
}

async fn run_case(case: &Case) -> CaseOut {
    let mut out = CaseOut::default();
    let mut rig = MasterRig::start(true, [case.decode, 0, 0, 0], 2048).await;
    let startup_mode = matches!(case.task, TaskKind::Startup(_));
    let restart_iin = case.unsol_restart
        && matches!(
            case.task,
            TaskKind::Idle | TaskKind::Read(_) | TaskKind::Command
        );
    if restart_iin {
        out.label("unsolicited_responses_report_a_restart");
    }
    let mut cfg_a = assoc_config(TIMEOUT);
    if startup_mode {
        cfg_a.startup_integrity_classes = Classes::all();
        out.label("startup_poll_outstanding");
    }
    rig.add_association(OUT_A, cfg_a, Some(0)).await;
    rig.add_association(OUT_B, assoc_config(TIMEOUT), Some(0))
        .await;
    rig.connect().await;
    if !startup_mode {
        let _ = rig.take_tx();
    }
    let read_type = if startup_mode {
        "StartupIntegrity"
    } else {
        "SinglePoll"
    };

    // --- start the task ---
    let mut h = rig.assocs[&OUT_A].handle.clone();
    let pending = match &case.task {
        TaskKind::Read(_) => Some(rig.submit("read", async move {
            h.read(ReadRequest::class_scan(Classes::class0())).await
        })),
        TaskKind::Command => Some(rig.submit("command", async move {
            h.operate(
                CommandMode::DirectOperate,
                CommandBuilder::single_header_u8(
                    Group12Var1::from_code(ControlCode::from_op_type(OpType::LatchOn)),
                    3u8,
                ),
            )
            .await
        })),
        TaskKind::LinkStatus => {
            Some(rig.submit("link", async move { h.check_link_status().await }))
        }
        TaskKind::Idle | TaskKind::Startup(_) => None,
    };
    rig.settle().await;
    let reqs = rig.take_requests();
    let tx_all = reqs.clone();
    let (req_seq, req_objects) = match (&case.task, reqs.first()) {
        (TaskKind::Idle, _) | (TaskKind::LinkStatus, _) => (0u8, vec![]),
        (_, Some((_, dst, f))) if *dst == OUT_A => (f.seq, f.objects.clone()),
        _ => {
            out.fail(Fail::new(
                "request-not-sent",
                format!("the master did not transmit the request: {:?}", tx_all),
            ));
            return out;
        }
    };
    let planned: u8 = match case.task {
        TaskKind::Read(n) | TaskKind::Startup(n) => n,
        TaskKind::Command => 1,
        _ => 0,
    };
    if planned >= 2 {
        out.label("multi_fragment_read");
    }

    // --- model state ---
    let mut next_k: u8 = 0; // index of the fragment expected next
    let mut task_over: Option<bool> = if planned == 0 { Some(true) } else { None }; // Some(true)=must have succeeded, Some(false)=must have failed
    let mut poisoned = false; // a mis-flagged / malformed fragment was seen: failing or ignoring are both acceptable from then on
    let mut expect_deliveries: Vec<Delivery> = vec![];
    let mut maybe_extra_ok = false;
    let mut unsol_seq: u8 = 5;
    let mut unsol_n: u8 = 0;
    let mut bad_n: u8 = 0;
    let mut last_unsol: Option<Fragment> = None;
    let mut elapsed_since_tx: u64 = 0;
    let link_task = case.task == TaskKind::LinkStatus;
    let mut link_done = false;

    // unsolicited fragments (by serial number) that reached the handler / that were seen but not accepted
    let mut unsol_delivered: std::collections::BTreeSet<u8> = Default::default();
    let mut unsol_ignored: std::collections::BTreeSet<u8> = Default::default();
    let mut all_log: Vec<HEv> = vec![];
    let items: Vec<Item> = std::iter::repeat(Item::Good(false))
        .take(case.prefix.min(planned.saturating_sub(1)) as usize)
        .chain(case.items.iter().cloned())
        .collect();
    for item in &items {
        if out.failed() || rig.task_failure.is_some() {
            break;
        }
        let task_live = task_over.is_none() && !(link_task && link_done);
        let cur_seq = (req_seq + next_k) & 0x0F;
        let is_first = next_k == 0;
        let is_last = next_k + 1 >= planned;
        // the fragment the master is waiting for
        let good = |con_on_final: bool| -> Fragment {
            let (objects, _) = if case.task == TaskKind::Command {
                (req_objects.clone(), vec![])
            } else {
                read_objects(next_k)
            };
            Fragment {
                fir: is_first,
                fin: is_last,
                con: !is_last || con_on_final,
                uns: false,
                seq: cur_seq,
                func: func::RESPONSE,
                iin: Some((0, 0)),
                objects,
            }
        };
        let mut expect_confirm: Option<(u8, bool, u16)> = None;
        let mut forbid_any_confirm = true;
        // unsolicited fragment whose acceptance is decided by observation (start-up integrity poll not known complete)
        let mut observed_unsol: Option<(Fragment, u8)> = None;
        if next_k >= 16 {
            out.label("series_past_seq_wrap");
        }
        match item {
            Item::Silence(ms) => {
                rig.advance(*ms as u64).await;
                elapsed_since_tx += *ms as u64;
                if task_live && !link_task && elapsed_since_tx > TIMEOUT {
                    // the statement says nothing about deadlines (C01 bounds them): a request that is still outstanding
                    // now - its timer was extended by whatever arrived - may yet be completed by its answer
                    let resolved = pending.as_ref().map(|p| !p.outcomes().is_empty());
                    if resolved == Some(false) {
                        poisoned = true;
                        out.label("request_outlives_nominal_timeout");
                    } else {
                        task_over = Some(false);
                    }
                } else if task_live && elapsed_since_tx == TIMEOUT {
                    poisoned = true; // deadline instant: not judged
                }
                forbid_any_confirm = false;
            }
            Item::Good(con_on_final) => {
                let f = good(*con_on_final);
                if planned > 0 && task_live {
                    rig.respond(OUT_A, &f);
                    rig.settle().await;
                    if !poisoned {
                        if case.task != TaskKind::Command {
                            expect_deliveries.push(Delivery::Frag(
                                read_type.into(),
                                f.seq,
                                read_objects(next_k).1,
                            ));
                        }
                        if f.con {
                            expect_confirm = Some((f.seq, false, OUT_A));
                        }
                        if is_last {
                            task_over = Some(true);
                        } else {
                            next_k += 1;
                            elapsed_since_tx = 0;
                        }
                    } else {
                        maybe_extra_ok = true;
                        forbid_any_confirm = false;
                    }
                } else {
                    // nothing outstanding (or the task is over): a solicited response is unexpected and must be ignored
                    let f = Fragment {
                        fir: true,
                        fin: true,
                        con: *con_on_final,
                        uns: false,
                        seq: cur_seq,
                        func: func::RESPONSE,
                        iin: Some((0, 0)),
                        objects: read_objects(7).0,
                    };
                    rig.respond(OUT_A, &f);
                    rig.settle().await;
                    if link_task && !link_done {
                        // any application response while waiting for the link status fails that task (statement: not asserted)
                        link_done = true;
                        poisoned = true;
                    }
                }
            }
            Item::Deviant(d) => {
                if task_live && planned > 0 {
                    out.nontrivial = true;
                    out.label(format!(
                        "deviant:{}",
                        match d {
                            Dev::WrongSeq(_) => "wrong_seq",
                            Dev::ForeignSource => "foreign_source",
                            Dev::UnknownSource => "unknown_source",
                            Dev::FirFlipped => "fir",
                            Dev::NoConOnNonFin => "no_con",
                            Dev::FinFlipped => "fin",
                            Dev::UnsBitSet => "uns_bit",
                            Dev::Iin2(_) => "iin2",
                            Dev::TruncatedObjects => "truncated",
                            Dev::UnknownObject => "unknown_object",
                            Dev::NotAResponse(_) => "not_a_response",
                        }
                    ));
                }
                let mut f = good(false);
                if planned == 0 {
                    f = Fragment {
                        fir: true,
                        fin: true,
                        con: false,
                        uns: false,
                        seq: cur_seq,
                        func: func::RESPONSE,
                        iin: Some((0, 0)),
                        objects: read_objects(7).0,
                    };
                }
                let mut src = OUT_A;
                // effect on the outstanding task: 0 = ignorable, 1 = must fail (never succeed / deliver), 2 = fail-or-ignore
                let effect = match d {
                    Dev::WrongSeq(x) => {
                        f.seq = (f.seq + x) & 0x0F;
                        0
                    }
                    Dev::ForeignSource => {
                        src = OUT_B;
                        0
                    }
                    Dev::UnknownSource => {
                        src = 2000;
                        0
                    }
                    // mis-flagged fragments: "neither completes the request successfully nor reaches the handler" - whether
                    // the request fails at once or the fragment is ignored and the request stays outstanding is left open
                    Dev::FirFlipped => {
                        f.fir = !f.fir;
                        2
                    }
                    Dev::NoConOnNonFin => {
                        if !f.fin {
                            f.con = false;
                            2
                        } else {
                            f.seq = (f.seq + 3) & 0x0F;
                            0
                        }
                    }
                    Dev::FinFlipped => {
                        f.fin = !f.fin;
                        if f.fin {
                            // an early FIN ends a READ series successfully from the master's point of view: the statement
                            // does not forbid a shorter answer, so this is simply the last fragment
                            3
                        } else {
                            f.con = true;
                            if case.task == TaskKind::Command {
                                2
                            } else {
                                4
                            }
                        }
                    }
                    Dev::UnsBitSet => {
                        f.uns = true;
                        2
                    }
                    Dev::Iin2(b) => {
                        f.iin = Some((0, *b & 0x07));
                        1
                    }
                    Dev::TruncatedObjects => {
                        let n = f.objects.len();
                        f.objects.truncate(n.saturating_sub(1));
                        if n == 0 {
                            f.objects = vec![1, 2, 0];
                        }
                        1
                    }
                    Dev::UnknownObject => {
                        f.objects = vec![99, 1, 6];
                        1
                    }
                    Dev::NotAResponse(fc) => {
                        f.func = *fc;
                        if *fc != 129 && *fc != 130 {
                            f.iin = None;
                        }
                        2
                    }
                };
                rig.respond(src, &f);
                rig.settle().await;
                if link_task && !link_done {
                    link_done = true;
                    poisoned = true;
                }
                if task_live && planned > 0 && !poisoned {
                    match effect {
                        0 => {}
                        1 => task_over = Some(false),
                        2 => poisoned = true,
                        3 => {
                            // early FIN: accepted as the final fragment
                            if case.task != TaskKind::Command {
                                expect_deliveries.push(Delivery::Frag(
                                    read_type.into(),
                                    f.seq,
                                    read_objects(next_k).1,
                                ));
                            }
                            if f.con {
                                expect_confirm = Some((f.seq, false, OUT_A));
                            }
                            task_over = Some(true);
                        }
                        _ => {
                            // FIN cleared on the planned last READ fragment (CON set): accepted, the master waits for more
                            expect_deliveries.push(Delivery::Frag(
                                read_type.into(),
                                f.seq,
                                read_objects(next_k).1,
                            ));
                            expect_confirm = Some((f.seq, false, OUT_A));
                            next_k += 1;
                            elapsed_since_tx = 0;
                        }
                    }
                } else if poisoned {
                    forbid_any_confirm = false;
                    if task_live && planned > 0 && effect >= 3 {
                        // an acceptable form of the awaited fragment while it is open whether the request still waits
                        maybe_extra_ok = true;
                    }
                }
                if src != OUT_A {
                    // a response of another outstation is never confirmed on behalf of this task
                }
            }
            Item::Unsol(dup, with_data, con) => {
                let f = match (dup, &last_unsol) {
                    (true, Some(prev)) => {
                        out.label("unsol_duplicate");
                        prev.clone()
                    }
                    _ => {
                        unsol_seq = (unsol_seq + 1) & 0x0F;
                        unsol_n += 1;
                        let objects = if *with_data {
                            unsol_objects(unsol_n).0
                        } else {
                            vec![]
                        };
                        Fragment {
                            fir: true,
                            fin: true,
                            con: *con,
                            uns: true,
                            seq: unsol_seq,
                            func: func::UNSOLICITED_RESPONSE,
                            iin: Some((if restart_iin { 0x80 } else { 0 }, 0)),
                            objects,
                        }
                    }
                };
                let repeated = *dup && last_unsol.as_ref() == Some(&f);
                rig.respond(OUT_A, &f);
                rig.settle().await;
                if link_task && !link_done {
                    link_done = true;
                    poisoned = true;
                }
                let integrity_complete = !startup_mode || (task_over == Some(true) && !poisoned);
                if repeated && unsol_ignored.contains(&unsol_n) {
                    out.label("unsol_ignored_then_repeated");
                }
                // (an unsolicited response that does not ask for confirmation is not what IEEE 1815 prescribes: whether the
                // master takes it is decided by observation, coherently - delivered at most once, never confirmed)
                if integrity_complete && f.con {
                    // a repeat of a fragment that reached the handler is confirmed but not delivered again; a repeat
                    // of a fragment that was not accepted the first time is new to the handler
                    if !unsol_delivered.contains(&unsol_n) {
                        let idx = if f.objects.is_empty() {
                            vec![]
                        } else {
                            unsol_objects(unsol_n).1
                        };
                        expect_deliveries.push(Delivery::Frag("Unsolicited".into(), f.seq, idx));
                        unsol_delivered.insert(unsol_n);
                    }
                    if f.con {
                        expect_confirm = Some((f.seq, true, OUT_A));
                    }
                } else {
                    observed_unsol = Some((f.clone(), unsol_n));
                    forbid_any_confirm = false;
                }
                last_unsol = Some(f);
            }
            Item::UnsolBad(kind, con) => {
                unsol_seq = (unsol_seq + 1) & 0x0F;
                // numbered apart from the deliverable fragments (a later duplicate item repeats the last good one)
                bad_n = bad_n.wrapping_add(1) % 50;
                let unsol_n = 200 + bad_n;
                // a binary event followed by something the parser refuses: a truncated object, an unknown object, a
                // zero-length octet string (which this very library's outstation can emit)
                let mut objects = ra::h_prefixed16(2, 1, &[(1, vec![0x81])]);
                match kind % 3 {
                    0 => objects.extend(ra::h_prefixed16(32, 1, &[(2, vec![0x01, 1, 2])])),
                    1 => objects.extend([99u8, 1, 0x06]),
                    _ => objects.extend([111u8, 0, 0x28, 1, 0, 3, 0]),
                }
                let f = Fragment {
                    fir: true,
                    fin: true,
                    con: *con,
                    uns: true,
                    seq: unsol_seq,
                    func: func::UNSOLICITED_RESPONSE,
                    iin: Some((0, 0)),
                    objects,
                };
                rig.respond(OUT_A, &f);
                rig.settle().await;
                if link_task && !link_done {
                    link_done = true;
                    poisoned = true;
                }
                out.label("unsol_unparsable");
                // never deliverable: if it is confirmed, its contents were dropped (coherence rule below)
                observed_unsol = Some((f.clone(), unsol_n));
                forbid_any_confirm = false;
                // not remembered as "the previous unsolicited fragment": a later duplicate item repeats a good one
            }
            Item::UnsolUnknown => {
                let f = Fragment {
                    fir: true,
                    fin: true,
                    con: true,
                    uns: true,
                    seq: 3,
                    func: func::UNSOLICITED_RESPONSE,
                    iin: Some((0, 0)),
                    objects: unsol_objects(99).0,
                };
                rig.respond(3000, &f);
                rig.settle().await;
                if link_task && !link_done {
                    link_done = true;
                    poisoned = true;
                }
            }
        }
        // --- what the master transmitted in reaction ---
        let mut tx = rig.take_requests();
        if restart_iin {
            // the master clears the restart indication it has seen: acknowledged at once
            let writes: Vec<u8> = tx
                .iter()
                .filter(|(_, d, f)| {
                    *d == OUT_A && f.func == func::WRITE && f.objects.starts_with(&[80, 1])
                })
                .map(|(_, _, f)| f.seq)
                .collect();
            for seq in writes {
                out.label("restart_indication_cleared");
                rig.respond(
                    OUT_A,
                    &Fragment {
                        fir: true,
                        fin: true,
                        con: false,
                        uns: false,
                        seq,
                        func: func::RESPONSE,
                        iin: Some((0, 0)),
                        objects: vec![],
                    },
                );
                rig.settle().await;
                tx.extend(rig.take_requests());
            }
        }
        let confirms: Vec<&(u64, u16, Fragment)> = tx
            .iter()
            .filter(|(_, _, f)| f.func == func::CONFIRM)
            .collect();
        let log_step = rig.assocs[&OUT_A].read.take();
        if let Some((f, n)) = observed_unsol {
            // while the start-up integrity poll is not known to be complete the master may ignore an unsolicited
            // response or accept it (the statement fixes neither); what it does must be coherent: confirmed and
            // delivered go together, and nothing is delivered twice
            let idx = if f.objects.is_empty() {
                vec![]
            } else {
                unsol_objects(n).1
            };
            let d = Delivery::Frag("Unsolicited".into(), f.seq, idx);
            let delivered_now = deliveries(log_step.clone())
                .map(|v| v.iter().filter(|x| **x == d).count())
                .unwrap_or(0);
            let confirmed_now = confirms
                .iter()
                .filter(|(_, dst, c)| *dst == OUT_A && c.seq == f.seq && c.uns)
                .count();
            let already = unsol_delivered.contains(&n);
            let verdict = if delivered_now > 1 || (delivered_now == 1 && already) {
                Some("an unsolicited fragment was delivered to the handler more than once")
            } else if confirmed_now > 1 || (confirmed_now == 1 && !f.con) {
                Some("an unsolicited fragment was confirmed more than once / without asking for it")
            } else if f.con && delivered_now == 1 && confirmed_now != 1 {
                Some("an unsolicited fragment was delivered but its requested confirmation was not sent")
            } else if confirmed_now == 1 && delivered_now == 0 && !already {
                Some("an unsolicited fragment was confirmed (accepted) although its contents never reached the handler")
            } else {
                None
            };
            if let Some(v) = verdict {
                out.fail(Fail::new("unsolicited-accept-coherence", format!("{v}: fragment {:?}, delivered now {delivered_now}, confirmed now {confirmed_now}, delivered before {already}", f)).with_sig(format!("C15 unsol coherence d={delivered_now} c={confirmed_now} before={already}")));
            }
            if delivered_now == 1 {
                unsol_delivered.insert(n);
                expect_deliveries.push(d);
            } else if !already {
                unsol_ignored.insert(n);
            }
        }
        all_log.extend(log_step);
        if startup_mode && (task_over == Some(false) || poisoned) {
            // the master retries a failed integrity poll on its own schedule (with later sequence numbers): from
            // here on a generated fragment may happen to answer a retry, so later traffic is not judged strictly
            poisoned = true;
            maybe_extra_ok = true;
        }
        match expect_confirm {
            Some((seq, uns, dst)) => {
                let matching = confirms
                    .iter()
                    .filter(|(_, d, f)| *d == dst && f.seq == seq && f.uns == uns)
                    .count();
                if matching != 1 || confirms.len() != 1 {
                    out.fail(
                        Fail::new(
                            "accepted-fragment-not-confirmed-exactly-once",
                            format!("after {:?}: expected exactly one CONFIRM seq={seq} uns={uns} to {dst}, the master sent {:?}", item, confirms.iter().map(|(_, d, f)| (*d, f.seq, f.uns)).collect::<Vec<_>>()),
                        )
                        .with_sig(format!("C15 confirm task={:?} uns={uns} sent={}", std::mem::discriminant(&case.task), confirms.len())),
                    );
                }
            }
            None => {
                if forbid_any_confirm && !poisoned && !confirms.is_empty() {
                    out.fail(Fail::new("confirm-for-unaccepted-fragment", format!("after {:?} the master sent CONFIRM {:?} although nothing acceptable that requested confirmation had arrived", item, confirms.iter().map(|(_, d, f)| (*d, f.seq, f.uns)).collect::<Vec<_>>())));
                }
            }
        }
    }

    // --- let the task time out if it is still waiting, then judge the outcome ---
    rig.advance(TIMEOUT + 1).await;
    if let Some(p) = &pending {
        // (a deadline that was extended on the way is still a deadline: C01 bounds it, not this statement)
        for _ in 0..3 {
            if !p.outcomes().is_empty() {
                break;
            }
            rig.advance(TIMEOUT + 1).await;
        }
    }
    let _ = rig.take_tx();
    if let Some(p) = &pending {
        let res = p.outcomes();
        if res.len() != 1 {
            out.fail(Fail::new(
                "not-exactly-one-outcome",
                format!("the user request resolved {} times: {:?}", res.len(), res),
            ));
        } else if !link_task {
            let ok = res[0].1.starts_with("Ok");
            if ok {
                out.label("task_succeeded");
            } else {
                out.label("task_failed");
            }
            match task_over {
                Some(true) => {
                    if !ok && !poisoned {
                        out.fail(Fail::new("valid-answer-rejected", format!("the stream contained the complete, well-formed answer and only ignorable interference, yet the request failed: {}", res[0].1)));
                    }
                }
                Some(false) | None => {
                    if ok && !(poisoned && maybe_extra_ok) {
                        out.fail(
                            Fail::new("request-completed-without-valid-answer", format!("the request completed successfully although the stream never contained a complete valid answer (model: {:?}): {}", task_over, res[0].1))
                                .with_sig(format!("C15 false-success task={:?}", std::mem::discriminant(&case.task))),
                        );
                    }
                }
            }
        }
    }
    // --- deliveries ---
    all_log.extend(rig.assocs[&OUT_A].read.take());
    match deliveries(all_log) {
        Err(e) => out.fail(Fail::new("handler-bracketing", e)),
        Ok(got) => {
            if !poisoned && got != expect_deliveries {
                out.fail(
                    Fail::new(
                        "handler-deliveries",
                        format!(
                            "the handler received {:?}, the accepted fragments were {:?}",
                            got, expect_deliveries
                        ),
                    )
                    .with_sig(format!(
                        "C15 deliveries got={} expected={}",
                        got.len(),
                        expect_deliveries.len()
                    )),
                );
            } else if poisoned {
                // everything delivered must still be something that was sent in an acceptable form
                for g in &got {
                    if !expect_deliveries.contains(g) && !maybe_extra_ok {
                        out.fail(Fail::new(
                            "handler-deliveries",
                            format!(
                                "the handler received {:?} which no accepted fragment carried",
                                g
                            ),
                        ));
                    }
                }
            }
        }
    }
    let other = rig.assocs[&OUT_B].read.take();
    if !other.is_empty() {
        out.fail(Fail::new(
            "cross-association-delivery",
            format!("the handler of another association received {:?}", other),
        ));
    }
    if let Some(f) = rig.task_failure.take() {
        out.fail(f);
    }
    out
}

pub fn run<C: Codec>(tier: Tier) -> i32 {
    let mut ctx = Ctx::<C>::new("C15", tier);
    ctx.assumptions.push("fragments that are not well-formed responses at the transport/application-header level (UNS bit on function 129, non-response function codes) and mis-flagged responses (FIR/FIN/CON combinations that cannot be right) may either fail the outstanding task or be ignored: from then on only 'nothing unacceptable is delivered' is asserted; a READ answered with an early FIN is a valid shorter answer; a response arriving exactly at the timeout instant is not judged".into());
    ctx.run::<Accept>();
    ctx.finish()
}

pub fn replay<C: Codec>(text: &str, known: &[Known]) -> Option<i32> {
    replay_file::<C, Accept>(text, known)
}
