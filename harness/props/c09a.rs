//! C09, device attributes (group 0): value round trip through writer and parser, and the outstation's attribute
//! responses (all / single / variation list) split over fragments of every size.
use crate::app::attr::*;
use crate::app::format::write::start_request;
use crate::app::gen::ranged::RangedVariation;
use crate::app::parse::options::ParseOptions;
use crate::app::parse::parser::{HeaderCollection, HeaderDetails, ParsedFragment};
use crate::app::{ControlField, FunctionCode, Sequence, Timestamp};
use crate::outstation::database::{ClassZeroConfig, DatabaseHandle, EventBufferConfig};
use crate::verif::engine::*;
use crate::verif::props::c09::agree;
use crate::verif::wire::app::{self as ra, func, Fragment};
use proptest::prelude::*;
use scursor::WriteCursor;
use serde::{Deserialize, Serialize};
use std::collections::BTreeMap;

#[derive(Clone, Debug, Serialize, Deserialize, PartialEq)]
pub enum AV {
    VStr(Vec<u8>),
    UInt(u32),
    Int(i32),
    F32(u32),
    F64(u64),
    OStr(Vec<u8>),
    Time(u64),
    BStr(Vec<u8>),
}

fn vstr(b: &[u8]) -> String {
    b.iter().map(|x| (0x20 + (x % 0x5F)) as char).collect()
}

fn to_owned_value(v: &AV) -> OwnedAttrValue {
    match v {
        AV::VStr(b) => OwnedAttrValue::VisibleString(vstr(b)),
        AV::UInt(x) => OwnedAttrValue::UnsignedInt(*x),
        AV::Int(x) => OwnedAttrValue::SignedInt(*x),
        AV::F32(x) => OwnedAttrValue::FloatingPoint(FloatType::F32(f32::from_bits(*x))),
        AV::F64(x) => OwnedAttrValue::FloatingPoint(FloatType::F64(f64::from_bits(*x))),
        AV::OStr(b) => OwnedAttrValue::OctetString(b.clone()),
        AV::Time(t) => OwnedAttrValue::Dnp3Time(Timestamp::new(*t)),
        AV::BStr(b) => OwnedAttrValue::BitString(b.clone()),
    }
}

/// what the library's parser produced, in the harness' terms (None = a list or something else)
fn from_lib(v: &AttrValue) -> Option<AV> {
    Some(match v {
        AttrValue::VisibleString(s) => AV::VStr(s.as_bytes().to_vec()),
        AttrValue::UnsignedInt(x) => AV::UInt(*x),
        AttrValue::SignedInt(x) => AV::Int(*x),
        AttrValue::FloatingPoint(FloatType::F32(x)) => AV::F32(x.to_bits()),
        AttrValue::FloatingPoint(FloatType::F64(x)) => AV::F64(x.to_bits()),
        AttrValue::OctetString(b) => AV::OStr(b.to_vec()),
        AttrValue::Dnp3Time(t) => AV::Time(t.raw_value()),
        AttrValue::BitString(b) => AV::BStr(b.to_vec()),
        AttrValue::AttrList(_) => return None,
    })
}

/// the described value in the same canonical form as `from_lib` (visible strings as their octets)
fn canon(v: &AV) -> AV {
    match v {
        AV::VStr(b) => AV::VStr(vstr(b).into_bytes()),
        AV::Time(t) => AV::Time(*t & 0xFFFF_FFFF_FFFF),
        x => x.clone(),
    }
}

/// reference decoder of one attribute value: [data type code][length][value], IEEE 1815 Annex A.1 (group 0)
fn ref_decode(tlv: &[u8]) -> Result<AV, String> {
    if tlv.len() < 2 {
        return Err("attribute shorter than its type/length octets".into());
    }
    let (ty, len) = (tlv[0], tlv[1] as usize);
    let d = &tlv[2..];
    if d.len() != len {
        return Err(format!(
            "attribute declares {len} value octets, {} present",
            d.len()
        ));
    }
    let uint = |d: &[u8]| -> u64 { d.iter().rev().fold(0u64, |a, b| (a << 8) | *b as u64) };
    Ok(match ty {
        1 => AV::VStr(d.to_vec()),
        2 => match len {
            1 | 2 | 4 => AV::UInt(uint(d) as u32),
            _ => return Err(format!("UINT of {len} octets")),
        },
        3 => match len {
            // two's complement, sign-extended from the declared width
            1 => AV::Int(d[0] as i8 as i32),
            2 => AV::Int(i16::from_le_bytes([d[0], d[1]]) as i32),
            4 => AV::Int(i32::from_le_bytes([d[0], d[1], d[2], d[3]])),
            _ => return Err(format!("INT of {len} octets")),
        },
        4 => match len {
            4 => AV::F32(uint(d) as u32),
            8 => AV::F64(uint(d)),
            _ => return Err(format!("FLT of {len} octets")),
        },
        5 => AV::OStr(d.to_vec()),
        6 => AV::BStr(d.to_vec()),
        7 => {
            if len != 6 {
                return Err(format!("TIME of {len} octets"));
            }
            AV::Time(uint(d))
        }
        x => return Err(format!("data type code {x}")),
    })
}

#[derive(Clone, Debug, Serialize, Deserialize)]
pub struct ValueCase {
    pub set: u8,
    pub var: u8,
    pub val: AV,
}

fn attr_of_header<'a>(objs: &HeaderCollection<'a>) -> Result<(u8, u8, AttrValue<'a>), String> {
    let mut it = objs.iter();
    let h = it.next().ok_or("no object header")?;
    if it.next().is_some() {
        return Err("more than one object header".into());
    }
    match h.details {
        HeaderDetails::OneByteStartStop(a, b, RangedVariation::Group0(var, Some(attr)))
            if a == b =>
        {
            if attr.variation != var || attr.set.value() != a {
                return Err(format!(
                    "header says set {a} variation {var}, attribute says set {} variation {}",
                    attr.set.value(),
                    attr.variation
                ));
            }
            Ok((a, var, attr.value))
        }
        _ => Err(format!(
            "parsed as {:?} {:?}",
            h.variation,
            h.details.qualifier()
        )),
    }
}

pub fn run_value(c: &ValueCase) -> CaseOut {
    let mut out = CaseOut::default();
    ParseOptions::parse_zero_length_strings(false);
    let owned = OwnedAttribute::new(AttrSet::new(c.set), c.var, to_owned_value(&c.val));
    let mut buf = vec![0u8; 600];
    let mut cursor = WriteCursor::new(&mut buf);
    let written = {
        let mut w = match start_request(
            ControlField::request(Sequence::new(3)),
            FunctionCode::Write,
            &mut cursor,
        ) {
            Ok(w) => w,
            Err(_) => return out,
        };
        w.write_attribute(&owned)
    };
    if written.is_err() {
        out.fail(Fail::new(
            "T-write",
            format!("write_attribute failed for {:?}", c),
        ));
        return out;
    }
    let bytes = cursor.written().to_vec();
    let want = canon(&c.val);
    out.label(match c.val {
        AV::VStr(_) => "vstr",
        AV::UInt(_) => "uint",
        AV::Int(_) => "int",
        AV::F32(_) | AV::F64(_) => "float",
        AV::OStr(_) | AV::BStr(_) => "octets",
        AV::Time(_) => "time",
    });
    // (1) the wire form, read by the reference: g0 vN, qualifier 00, start = stop = set, then the value
    if bytes.len() < 9
        || bytes[2] != 0
        || bytes[3] != c.var
        || bytes[4] != 0
        || bytes[5] != c.set
        || bytes[6] != c.set
    {
        out.fail(Fail::new(
            "T-wire-header",
            format!(
                "attribute header octets {:02x?} for set {} variation {}",
                &bytes[2..bytes.len().min(7)],
                c.set,
                c.var
            ),
        ));
        return out;
    }
    match ref_decode(&bytes[7..]) {
        Ok(v) if v == want => {}
        Ok(v) => {
            out.fail(Fail::new(
                "T-wire-value",
                format!(
                    "{:?} was encoded as {:02x?}, which reads as {:?}",
                    c.val,
                    &bytes[7..],
                    v
                ),
            ));
            return out;
        }
        Err(e) => {
            out.fail(Fail::new(
                "T-wire-value",
                format!("{:?} was encoded as {:02x?}: {e}", c.val, &bytes[7..]),
            ));
            return out;
        }
    }
    // (2) the library's own parser, as a WRITE request and as a response
    let mut resp = vec![0xC3, 129, 0, 0];
    resp.extend_from_slice(&bytes[2..]);
    for (name, frag, hdr) in [("request", &bytes, 2usize), ("response", &resp, 4usize)] {
        let p = match ParsedFragment::parse(ParseOptions::default(), frag) {
            Ok(p) => p,
            Err(e) => {
                out.fail(Fail::new(
                    "T-parse",
                    format!("{name}: header rejected: {e:?}"),
                ));
                return out;
            }
        };
        let objs = match p.objects {
            Ok(o) => o,
            Err(e) => {
                out.fail(Fail::new("T-parse", format!("{name}: library parser rejects the attribute it wrote ({:?}): {e:?}; octets {:02x?}", c.val, frag)));
                return out;
            }
        };
        if let Err(f) = agree(frag[1], &frag[hdr..], &objs) {
            out.fail(f);
            return out;
        }
        match attr_of_header(&objs) {
            Ok((set, var, value)) => {
                let got = from_lib(&value);
                if set != c.set || var != c.var || got.as_ref() != Some(&want) {
                    out.fail(Fail::new("T-value", format!("{name}: attribute set {} variation {} value {:?} was parsed as set {set} variation {var} value {:?}", c.set, c.var, c.val, value)));
                    return out;
                }
            }
            Err(e) => {
                out.fail(Fail::new("T-value", format!("{name}: {e}")));
                return out;
            }
        }
    }
    out.nontrivial = true;
    out
}

fn av_strategy() -> BoxedStrategy<AV> {
    let ints = prop_oneof![
        4 => proptest::sample::select(vec![0i32, 1, -1, -5, 126, 127, 128, -127, -128, -129, 255, 256, 32766, 32767, 32768, -32767, -32768, -32769, 65535, 65536, i32::MAX, i32::MIN, i32::MIN + 1]),
        1 => any::<i32>(),
        1 => -300i32..300,
    ];
    let uints = prop_oneof![
        3 => proptest::sample::select(vec![0u32, 1, 127, 128, 254, 255, 256, 65534, 65535, 65536, u32::MAX, 0x8000_0000]),
        1 => any::<u32>(),
    ];
    let bytes = |max: usize| proptest::collection::vec(any::<u8>(), 0..max);
    prop_oneof![
        2 => prop_oneof![bytes(12), Just(vec![7u8; 255]), Just(vec![])].prop_map(AV::VStr),
        3 => uints.prop_map(AV::UInt),
        4 => ints.prop_map(AV::Int),
        1 => any::<u32>().prop_map(AV::F32),
        1 => any::<u64>().prop_map(AV::F64),
        1 => prop_oneof![bytes(12), Just(vec![0xA5u8; 255])].prop_map(AV::OStr),
        1 => prop_oneof![Just(0u64), Just(0xFFFF_FFFF_FFFF), any::<u64>().prop_map(|x| x & 0xFFFF_FFFF_FFFF)].prop_map(AV::Time),
        1 => bytes(12).prop_map(AV::BStr),
    ]
    .boxed()
}

pub struct AttrValues;
impl Prop for AttrValues {
    type Case = ValueCase;
    const ID: &'static str = "C09";
    const NAME: &'static str = "attr_values";
    fn rule() -> &'static str {
        "device attributes of every data type (strings of 0..255 octets, unsigned and signed integers at the 8/16/32-bit boundaries, floats by bit pattern, time, bit strings) in any set and variation 1..=253 are written with HeaderWriter::write_attribute; the wire form is decoded by a reference decoder of the type/length/value layout (two's complement, little endian) and by the library parser both as a WRITE request and as a response: set, variation and value must equal the described ones; every case is non-trivial"
    }
    fn strategy(_tier: Tier) -> BoxedStrategy<ValueCase> {
        (any::<u8>(), 1u8..=253, av_strategy())
            .prop_map(|(set, var, val)| ValueCase { set, var, val })
            .boxed()
    }
    fn cases(tier: Tier) -> u32 {
        match tier {
            Tier::Quick => 60_000,
            Tier::Thorough => 5_000_000,
        }
    }
    fn run(case: &ValueCase) -> CaseOut {
        run_value(case)
    }
}

// ---------------------------------------------------------------------------------------------
// attribute responses of the outstation

#[derive(Clone, Debug, Serialize, Deserialize)]
pub enum AReq {
    /// g0v254, qualifier 06: every attribute of every set
    Everything,
    /// g0v254 by range set..set
    AllOf(u8),
    /// g0vN by range set..set
    One(u8, u8),
    /// g0v255 by range set..set: list of variations
    List(u8),
    /// g0v255 qualifier 06: lists of every set
    Lists,
}

#[derive(Clone, Debug, Serialize, Deserialize)]
pub struct RespCase {
    /// a densely populated set: (set selector, number of attributes n): variations 1..=n hold small integers, so that
    /// the variation list (2 octets per attribute) crosses the 255/256-octet boundary of the list encodings
    #[serde(default)]
    pub dense: Option<(u8, u8)>,
    /// (set selector, variation, value, writable)
    pub attrs: Vec<(u8, u8, AV, bool)>,
    pub reqs: Vec<AReq>,
    pub tx: u16,
}

/// sets actually used: a few private ones (the default set constrains the data type per variation)
fn set_of(sel: u8) -> u8 {
    [1u8, 2, 7, 255][(sel % 4) as usize]
}

#[derive(Debug, Clone, PartialEq)]
enum Delivered {
    Value(u8, u8, AV),
    List(u8, Vec<(u8, bool)>),
}

pub fn run_resp(case: &RespCase) -> CaseOut {
    let mut out = CaseOut::default();
    ParseOptions::parse_zero_length_strings(false);
    let mut handle = DatabaseHandle::new(
        None,
        ClassZeroConfig::default(),
        EventBufferConfig::no_events(),
    );
    let mut defined: BTreeMap<(u8, u8), (AV, bool)> = BTreeMap::new();
    let mut bad: Option<String> = None;
    // attributes whose value no attribute object can hold (more than 255 octets)
    let mut unencodable: std::collections::BTreeSet<(u8, u8)> = Default::default();
    let dense: Vec<(u8, u8, AV, bool)> = match case.dense {
        Some((s, n)) => (1..=n.min(253))
            .map(|v| (s, v, AV::UInt(v as u32), v % 3 == 0))
            .collect(),
        None => vec![],
    };
    handle.transaction(|db| {
        for (s, var, val, writable) in dense.iter().chain(case.attrs.iter()) {
            let set = set_of(*s);
            if defined.contains_key(&(set, *var)) || unencodable.contains(&(set, *var)) {
                continue;
            }
            // an attribute larger than a whole fragment can never be reported; defining one is outside the domain
            let vlen = match val {
                AV::VStr(b) | AV::OStr(b) | AV::BStr(b) => b.len(),
                _ => 8,
            };
            if 5 + 2 + vlen > (case.tx.clamp(249, 2048) as usize) - 4 {
                continue;
            }
            let prop = if *writable {
                AttrProp::writable()
            } else {
                AttrProp::default()
            };
            match db.define_attr(
                prop,
                OwnedAttribute::new(AttrSet::new(set), *var, to_owned_value(val)),
            ) {
                Ok(()) if vlen > 255 => {
                    unencodable.insert((set, *var));
                }
                Ok(()) => {
                    defined.insert((set, *var), (canon(val), *writable));
                }
                Err(e) => {
                    bad = Some(format!(
                        "define_attr(set {set}, variation {var}, {:?}) failed: {:?}",
                        val, e
                    ))
                }
            }
        }
    });
    if let Some(b) = bad {
        // private sets accept any type for any non-reserved variation; a refusal is not what this check is about
        out.label("define_refused");
        let _ = b;
        return out;
    }
    // request
    let mut o = vec![];
    let mut expect: Vec<Delivered> = vec![];
    let sets: Vec<u8> = {
        let mut s: Vec<u8> = defined.keys().map(|k| k.0).collect();
        s.dedup();
        s
    };
    let all_of = |set: u8| -> Vec<Delivered> {
        defined
            .iter()
            .filter(|(k, _)| k.0 == set)
            .map(|(k, v)| Delivered::Value(k.0, k.1, v.0.clone()))
            .collect()
    };
    let list_of = |set: u8| -> Delivered {
        Delivered::List(
            set,
            defined
                .iter()
                .filter(|(k, _)| k.0 == set)
                .map(|(k, v)| (k.1, v.1))
                .collect(),
        )
    };
    for r in &case.reqs {
        match r {
            AReq::Everything => {
                o.extend(ra::h_all(0, 254));
                for s in &sets {
                    expect.extend(all_of(*s));
                }
            }
            AReq::AllOf(s) => {
                let set = set_of(*s);
                o.extend(ra::h_range8(0, 254, set, set, &[]));
                expect.extend(all_of(set));
            }
            AReq::One(s, var) => {
                let set = set_of(*s);
                // pick a defined variation of that set when there is one (monotone), else the raw number
                let vars: Vec<u8> = defined.keys().filter(|k| k.0 == set).map(|k| k.1).collect();
                let var = if vars.is_empty() {
                    (*var).clamp(1, 253)
                } else {
                    vars[(*var as usize * vars.len()) >> 8]
                };
                if !defined.contains_key(&(set, var)) {
                    continue; // an undefined attribute is refused with an IIN2 bit (C12's business)
                }
                o.extend(ra::h_range8(0, var, set, set, &[]));
                expect.push(Delivered::Value(set, var, defined[&(set, var)].0.clone()));
            }
            AReq::List(s) => {
                let set = set_of(*s);
                o.extend(ra::h_range8(0, 255, set, set, &[]));
                if sets.contains(&set) {
                    expect.push(list_of(set));
                }
            }
            AReq::Lists => {
                o.extend(ra::h_all(0, 255));
                for s in &sets {
                    expect.push(list_of(*s));
                }
            }
        }
    }
    if o.is_empty() {
        return out;
    }
    let req = Fragment::request(0, func::READ, o).encode();
    let parsed = match ParsedFragment::parse(ParseOptions::default(), &req)
        .ok()
        .and_then(|p| p.to_request().ok())
        .and_then(|r| r.objects.ok())
    {
        Some(h) => h,
        None => {
            out.fail(Fail::new(
                "G-request",
                format!("library parser rejected the attribute READ {:02x?}", req),
            ));
            return out;
        }
    };
    let iin2 = handle.select(&parsed);
    if iin2 != crate::app::Iin2::default() {
        out.label("request_refused");
        return out;
    }
    // a variation list larger than a whole fragment can never be reported (outside the domain): make room for the longest
    let longest_list = sets
        .iter()
        .map(|s| {
            7 + 2 * defined
                .keys()
                .chain(unencodable.iter())
                .filter(|k| k.0 == *s)
                .count()
        })
        .max()
        .unwrap_or(0);
    let objsize = ((case.tx.clamp(249, 2048) as usize) - 4).max(longest_list);
    let mut got: Vec<Delivered> = vec![];
    let mut nfrag = 0;
    let mut done = false;
    for _ in 0..3000 {
        let mut buf = vec![0u8; objsize];
        let mut cursor = WriteCursor::new(&mut buf);
        let info = handle.write_response_headers(&mut cursor);
        let len = cursor.position();
        nfrag += 1;
        let mut f = vec![0xC0, 129, 0, 0];
        f.extend_from_slice(&buf[..len]);
        let objs = match ParsedFragment::parse(ParseOptions::default(), &f)
            .ok()
            .and_then(|p| p.to_response().ok())
            .map(|r| r.objects)
        {
            Some(Ok(o)) => o,
            Some(Err(e)) => {
                out.fail(Fail::new("W-parse", format!("fragment #{nfrag} of the attribute response does not parse with the library's own parser: {e:?}; {} object octets: {:02x?}", len, &f[4..])));
                return out;
            }
            None => {
                out.fail(Fail::new("W-parse", "response header rejected".to_string()));
                return out;
            }
        };
        if let Err(fl) = agree(129, &f[4..], &objs) {
            out.fail(fl);
            return out;
        }
        for h in objs.iter() {
            if let HeaderDetails::OneByteStartStop(a, b, RangedVariation::Group0(var, Some(attr))) =
                h.details
            {
                if a != b || attr.set.value() != a || attr.variation != var {
                    out.fail(Fail::new("W-attr-header", format!("attribute header range {a}..{b} variation {var} carries set {} variation {}", attr.set.value(), attr.variation)));
                    return out;
                }
                match attr.value {
                    AttrValue::AttrList(l) => got.push(Delivered::List(
                        a,
                        l.iter()
                            .map(|i| (i.variation, i.properties.is_writable()))
                            .collect(),
                    )),
                    v => match from_lib(&v) {
                        Some(x) => got.push(Delivered::Value(a, var, x)),
                        None => {}
                    },
                }
            } else {
                out.fail(Fail::new(
                    "W-attr-header",
                    format!(
                        "attribute response contains {:?} {:?}",
                        h.variation,
                        h.details.qualifier()
                    ),
                ));
                return out;
            }
        }
        if info.complete {
            done = true;
            break;
        }
        if len == 0 {
            // an attribute that can never fit would stall the series; such attributes are not defined by this generator
            out.fail(Fail::new(
                "G-progress",
                "an empty, incomplete attribute response fragment was produced".to_string(),
            ));
            return out;
        }
    }
    if !done {
        out.fail(Fail::new(
            "G-progress",
            "attribute response did not complete in 3000 fragments".to_string(),
        ));
        return out;
    }
    if nfrag > 1 {
        out.label("multi_fragment");
    }
    if expect.iter().any(|d| matches!(d, Delivered::List(..))) {
        out.label("list");
    }
    if expect
        .iter()
        .any(|d| matches!(d, Delivered::List(_, l) if l.len() >= 126))
    {
        out.label("long_list");
    }
    if !unencodable.is_empty() {
        // what cannot be encoded is left out (whether the variation lists name it is not judged): everything else must be
        // there, and every fragment has parsed
        out.label("unencodable_attribute_defined");
        got.retain(|d| matches!(d, Delivered::Value(s, v, _) if !unencodable.contains(&(*s, *v))));
        expect.retain(|d| matches!(d, Delivered::Value(..)));
    }
    if got != expect {
        let k = got
            .iter()
            .zip(expect.iter())
            .position(|(a, b)| a != b)
            .unwrap_or(got.len().min(expect.len()));
        out.fail(Fail::new(
            "W-attr-content",
            format!("attribute response delivered {} items, {} expected; first difference at #{k}: got {:?}, expected {:?}", got.len(), expect.len(), got.get(k), expect.get(k)),
        ));
        return out;
    }
    out.nontrivial = !got.is_empty();
    out
}

pub struct AttrResponses;
impl Prop for AttrResponses {
    type Case = RespCase;
    const ID: &'static str = "C09";
    const NAME: &'static str = "attr_responses";
    fn rule() -> &'static str {
        "databases with 0-40 device attributes (private sets, every data type, strings up to 255 octets) are read by g0v254 (everything / one set), single variations and variation lists (g0v255) into response fragments of 249..2048 octets; every fragment must parse with the library parser and agree with the reference walker, and the concatenated series must deliver exactly the defined attributes (set, variation, value) and lists (variation, writable) in order; non-trivial = at least one attribute delivered"
    }
    fn strategy(tier: Tier) -> BoxedStrategy<RespCase> {
        let n = match tier {
            Tier::Quick => 24,
            Tier::Thorough => 60,
        };
        let req = prop_oneof![
            3 => Just(AReq::Everything),
            2 => any::<u8>().prop_map(AReq::AllOf),
            2 => any::<(u8, u8)>().prop_map(|(s, v)| AReq::One(s, v)),
            1 => any::<u8>().prop_map(AReq::List),
            1 => Just(AReq::Lists),
        ];
        let big = prop_oneof![
            3 => av_strategy(),
            1 => (100usize..=255).prop_map(|n| AV::VStr(vec![b'x'; n])),
            1 => (100usize..=255).prop_map(|n| AV::OStr(vec![0x5A; n])),
            // longer than the one-octet length field of an attribute object can say: `define_attr` takes it, no response
            // can carry it - it has to be left out cleanly
            1 => prop_oneof![Just(256usize), 256usize..=300].prop_map(|n| AV::VStr(vec![b'y'; n])),
        ];
        let dense = prop_oneof![
            6 => Just(None),
            2 => (any::<u8>(), prop_oneof![Just(126u8), Just(127u8), Just(128u8), Just(129u8), Just(253u8), 100u8..=140]).prop_map(Some),
        ];
        (dense, proptest::collection::vec((any::<u8>(), 1u8..=253, big, any::<bool>()), 0..n), proptest::collection::vec(req, 1..4), prop_oneof![3 => Just(249u16), 1 => Just(2048u16), 2 => 249u16..600, 1 => 249u16..=2048])
            .prop_map(|(dense, attrs, reqs, tx)| {
                // a variation list of n attributes needs 7 + 2n octets in one fragment
                let need = dense.map(|(_, n)| 4 + 7 + 2 * (n as u16) + 2).unwrap_or(0);
                RespCase { dense, attrs, reqs, tx: tx.max(need) }
            })
            .boxed()
    }
    fn cases(tier: Tier) -> u32 {
        match tier {
            Tier::Quick => 40_000,
            Tier::Thorough => 2_000_000,
        }
    }
    fn run(case: &RespCase) -> CaseOut {
        run_resp(case)
    }
    fn floors() -> Vec<(&'static str, u32)> {
        vec![("multi_fragment", 50), ("list", 50), ("long_list", 10)]
    }
}
