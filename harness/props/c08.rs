//! C08 — the transport layer delivers exactly the fragments that were segmented
use crate::app::EndpointType;
use crate::decode::DecodeLevel;
use crate::link::error::LinkError;
use crate::link::reader::LinkModes;
use crate::link::{EndpointAddress, LinkErrorMode};
use crate::outstation::Feature;
use crate::transport::real::reader::Reader;
use crate::transport::real::writer::Writer;
use crate::transport::{FragmentAddr, TransportData};
use crate::util::phys::{PhysAddr, PhysLayer};
use crate::verif::engine::*;
use crate::verif::io::pipe;
use crate::verif::props::c06::pseudo_bytes;
use crate::verif::rig::exec::{block_on_ready, poll_once};
use crate::verif::wire::link as rl;
use crate::verif::wire::transport::{
    expected_fragments, expected_fragments_ex, expected_fragments_policy, segment, Segment,
};
use proptest::prelude::*;
use serde::{Deserialize, Serialize};

const OUTSTATION: u16 = 10;
const MASTER_A: u16 = 1;
const MASTER_B: u16 = 2;

/// run the library's transport writer; returns the bytes of each physical write
pub fn lib_write(
    master: bool,
    local: u16,
    dest: u16,
    fragments: &[Vec<u8>],
) -> Result<Vec<Vec<Vec<u8>>>, LinkError> {
    let (io, mut peer) = pipe(false);
    let mut phys = PhysLayer::Verif(io);
    let mut w = Writer::new(
        if master {
            EndpointType::Master
        } else {
            EndpointType::Outstation
        },
        EndpointAddress::raw(local),
    );
    let mut out = vec![];
    for f in fragments {
        block_on_ready(w.write(
            &mut phys,
            DecodeLevel::nothing(),
            FragmentAddr {
                link: EndpointAddress::raw(dest),
                phys: PhysAddr::None,
            },
            f,
        ))?;
        out.push(peer.drain());
    }
    Ok(out)
}

/// run the library's transport reader (outstation side or master side) over the chunks
pub fn lib_read(
    outstation: bool,
    local: u16,
    rx_buffer: usize,
    chunks: &[Vec<u8>],
    limit: usize,
) -> (Vec<(u16, Vec<u8>)>, LinkError) {
    let (io, mut peer) = pipe(false);
    for c in chunks {
        peer.send(c);
    }
    peer.close();
    let mut phys = PhysLayer::Verif(io);
    let modes = LinkModes::stream(LinkErrorMode::Discard);
    let mut r = if outstation {
        Reader::outstation(
            modes,
            EndpointAddress::raw(local),
            Feature::Disabled,
            rx_buffer,
        )
    } else {
        Reader::master(modes, EndpointAddress::raw(local), rx_buffer)
    };
    let mut out = vec![];
    loop {
        match block_on_ready(r.read(&mut phys, DecodeLevel::nothing())) {
            Err(e) => return (out, e),
            Ok(()) => {
                while let Some(d) = r.pop() {
                    if let TransportData::Fragment(f) = d {
                        out.push((f.info.addr.link.raw_value(), f.data.to_vec()));
                    }
                }
                if out.len() > limit {
                    panic!("verif/harness: runaway fragment count");
                }
            }
        }
    }
}

/// one piece of input for `lib_read_ex`: the octets of one read (stream) or one datagram, and the peer it comes from
pub struct Piece {
    pub data: Vec<u8>,
    pub peer: Option<u8>,
}

/// the outstation-side transport reader over pieces that arrive one at a time; after the pieces listed in
/// `interrupt_after` the pending `read` future is dropped and `pop()` is called, as the outstation session does when a
/// database change or a timer wakes it up in the middle of a fragment. Returns (source, broadcast address, bytes).
pub fn lib_read_ex(
    datagram: bool,
    local: u16,
    rx_buffer: usize,
    pieces: &[Piece],
    interrupt_after: &[usize],
    limit: usize,
) -> (Vec<(u16, Option<u16>, Vec<u8>)>, LinkError) {
    use crate::link::header::BroadcastConfirmMode;
    use crate::link::LinkReadMode;
    let (io, mut peer) = pipe(datagram);
    let mut phys = PhysLayer::Verif(io);
    let modes = LinkModes {
        error_mode: LinkErrorMode::Discard,
        read_mode: if datagram {
            LinkReadMode::Datagram
        } else {
            LinkReadMode::Stream
        },
    };
    let mut r = Reader::outstation(
        modes,
        EndpointAddress::raw(local),
        Feature::Disabled,
        rx_buffer,
    );
    let mut out = vec![];
    fn drain(r: &mut Reader, out: &mut Vec<(u16, Option<u16>, Vec<u8>)>) {
        while let Some(d) = r.pop() {
            if let TransportData::Fragment(f) = d {
                let b = f.info.broadcast.map(|m| match m {
                    BroadcastConfirmMode::Optional => 0xFFFFu16,
                    BroadcastConfirmMode::Mandatory => 0xFFFE,
                    BroadcastConfirmMode::NotRequired => 0xFFFD,
                });
                // the source of a fragment is its link address AND, on a datagram transport, the socket address it came from:
                // encoded as (link address << 1) | peer number
                let peer = match f.info.addr.phys {
                    PhysAddr::Udp(a) => match a.ip() {
                        std::net::IpAddr::V4(v4) => (v4.octets()[3] & 1) as u16,
                        _ => 0,
                    },
                    PhysAddr::None => 0,
                };
                out.push((
                    (f.info.addr.link.raw_value() << 1) | peer,
                    b,
                    f.data.to_vec(),
                ));
            }
        }
    }
    for (i, p) in pieces.iter().enumerate() {
        match p.peer {
            Some(n) => peer.send_from(&p.data, n),
            None => peer.send(&p.data),
        };
        if interrupt_after.contains(&i) {
            // consume what is there; the future is dropped as soon as it would have to wait
            loop {
                match poll_once(r.read(&mut phys, DecodeLevel::nothing())) {
                    Some(Ok(())) => {
                        drain(&mut r, &mut out);
                        if out.len() > limit {
                            panic!("verif/harness: runaway fragment count");
                        }
                    }
                    Some(Err(e)) => return (out, e),
                    None => {
                        drain(&mut r, &mut out); // a pop() that finds nothing
                        break;
                    }
                }
            }
        }
    }
    peer.close();
    loop {
        match block_on_ready(r.read(&mut phys, DecodeLevel::nothing())) {
            Err(e) => return (out, e),
            Ok(()) => {
                drain(&mut r, &mut out);
                if out.len() > limit {
                    panic!("verif/harness: runaway fragment count");
                }
            }
        }
    }
}

fn write_side_ok(
    master: bool,
    local: u16,
    dest: u16,
    start_seq: u8,
    fragment: &[u8],
    writes: &[Vec<u8>],
) -> Result<u8, String> {
    let mut segs = vec![];
    // the writes, taken together, are a sequence of valid link frames (one frame per write or several: how the frames
    // are handed to the physical layer is not part of the property)
    let all: Vec<u8> = writes.iter().flatten().copied().collect();
    let mut rest = &all[..];
    while !rest.is_empty() {
        match rl::try_frame(rest) {
            rl::TryFrame::Ok(f, n) => {
                let ctrl = if master { 0xC4 } else { 0x44 };
                if f.ctrl != ctrl || f.dst != dest || f.src != local {
                    return Err(format!(
                        "link header ctrl={:#x} dst={} src={} (expected {:#x} {} {})",
                        f.ctrl, f.dst, f.src, ctrl, dest, local
                    ));
                }
                match Segment::from_payload(f.src, &f.payload) {
                    Some(s) => segs.push(s),
                    None => return Err("frame without transport header".into()),
                }
                rest = &rest[n..];
            }
            _ => return Err("what was written is not a sequence of valid link frames".into()),
        }
    }
    if segs.is_empty() {
        return Err("nothing written".into());
    }
    let n = segs.len();
    let mut seq = start_seq & 0x3F;
    let mut acc = vec![];
    for (i, s) in segs.iter().enumerate() {
        if s.data.len() > 249 {
            return Err(format!("segment {i} carries {} bytes", s.data.len()));
        }
        if s.fir != (i == 0) || s.fin != (i + 1 == n) {
            return Err(format!("segment {i} of {n}: fir={} fin={}", s.fir, s.fin));
        }
        // a FIR segment may carry any sequence number; the following ones count up from it. How the octets are spread
        // over the segments is the writer's business as long as no segment is empty or longer than 249
        if i == 0 {
            seq = s.seq;
        }
        if s.seq != seq {
            return Err(format!("segment {i}: sequence {} expected {}", s.seq, seq));
        }
        if s.data.is_empty() {
            return Err(format!("segment {i} of {n} carries no data"));
        }
        seq = (seq + 1) & 0x3F;
        acc.extend_from_slice(&s.data);
    }
    if acc != fragment {
        return Err("reassembled bytes differ from the fragment written".into());
    }
    Ok(seq)
}

fn exhaustive_lengths(seed: u64) -> (u64, Vec<J>, Option<(Fail, J)>) {
    let mut n = 0;
    let mut samples = vec![];
    for len in 1..=2048usize {
        beat();
        let s = seed.wrapping_mul(131).wrapping_add(len as u64);
        let master = len % 2 == 0;
        let (local, dest) = if master {
            (MASTER_A, OUTSTATION)
        } else {
            (OUTSTATION, MASTER_A)
        };
        // advance the writer's sequence number by a first fragment of k segments so that every start value 0..63 occurs
        let k = (s >> 4) as usize % 9; // 0..=8 segments
        let pre = if k == 0 {
            vec![]
        } else {
            pseudo_bytes(s ^ 1, 249 * (k - 1) + 1)
        };
        let frag = pseudo_bytes(s, len);
        let js = J::o(vec![
            ("fragment_len", J::U(len as u64)),
            ("writer", J::s(if master { "master" } else { "outstation" })),
            ("start_seq", J::U(k as u64)),
        ]);
        if len == 250 || len == 2048 {
            samples.push(js.clone());
        }
        let frags: Vec<Vec<u8>> = if k == 0 {
            vec![frag.clone()]
        } else {
            vec![pre.clone(), frag.clone()]
        };
        let writes = match lib_write(master, local, dest, &frags) {
            Ok(w) => w,
            Err(e) => {
                return (
                    n,
                    samples,
                    Some((Fail::new("writer-error", format!("{:?}", e)), js)),
                )
            }
        };
        let mut seq = 0u8;
        for (f, w) in frags.iter().zip(writes.iter()) {
            match write_side_ok(master, local, dest, seq, f, w) {
                Ok(next) => seq = next,
                Err(e) => {
                    return (
                        n,
                        samples,
                        Some((
                            Fail::new("write-side", format!("fragment of {} bytes: {e}", f.len())),
                            js,
                        )),
                    )
                }
            }
        }
        // whatever the chunking in transit
        let all: Vec<u8> = writes.iter().flatten().flatten().copied().collect();
        let cut = (s >> 9) as usize % all.len().max(1);
        for chunks in [
            vec![all.clone()],
            vec![all[..cut].to_vec(), all[cut..].to_vec()],
            all.chunks(1 + (s as usize >> 3) % 300)
                .map(|c| c.to_vec())
                .collect::<Vec<_>>(),
        ] {
            n += 1;
            let (got, _err) = lib_read(master, dest, 2048, &chunks, 8);
            let exp: Vec<(u16, Vec<u8>)> = frags.iter().map(|f| (local, f.clone())).collect();
            if got != exp {
                return (
                    n,
                    samples,
                    Some((
                        Fail::new("roundtrip", format!("fragment of {len} bytes written by the library was delivered as {} fragments with lengths {:?}", got.len(), got.iter().map(|g| g.1.len()).collect::<Vec<_>>())),
                        js,
                    )),
                );
            }
        }
    }
    // every starting sequence number 0..63 for a three-segment fragment (wrap 62,63,0)
    for start in 0..64usize {
        n += 1;
        let pre = pseudo_bytes(
            start as u64,
            249 * start.max(1) - if start == 0 { 248 } else { 0 },
        );
        let frag = pseudo_bytes(99 + start as u64, 600);
        let frags = if start == 0 {
            vec![frag.clone()]
        } else {
            vec![pre, frag.clone()]
        };
        let js = J::o(vec![
            ("start_seq", J::U(start as u64)),
            ("fragment_len", J::U(600)),
        ]);
        let writes = lib_write(true, MASTER_A, OUTSTATION, &frags).unwrap();
        if let Err(e) = write_side_ok(
            true,
            MASTER_A,
            OUTSTATION,
            if start == 0 { 0 } else { start as u8 },
            &frag,
            writes.last().unwrap(),
        ) {
            return (n, samples, Some((Fail::new("write-side", e), js)));
        }
        let all: Vec<u8> = writes.iter().flatten().flatten().copied().collect();
        let (got, _) = lib_read(true, OUTSTATION, 2048, &[all], 8);
        if got.last().map(|g| &g.1) != Some(&frag) {
            return (
                n,
                samples,
                Some((
                    Fail::new("roundtrip", format!("start sequence {start}")),
                    js,
                )),
            );
        }
    }
    (n, samples, None)
}

// ---------------------------------------------------------------------------------------------

#[derive(Clone, Debug, Serialize, Deserialize)]
pub enum Mutation {
    Drop(u16),
    Dup(u16),
    Swap(u16),
    Readdress(u16),
    ToggleFir(u16),
    ToggleFin(u16),
    Seq(u16, u8),
    /// insert a link data frame with an empty payload (no transport header) before segment i
    EmptyFrame(u16),
    /// the frame that carries segment i is addressed to a broadcast address (0xFFFF, 0xFFFE, 0xFFFD)
    Broadcast(u16, u8),
    /// datagram transport only: segment i arrives from another socket address (same link address)
    Peer(u16),
    /// datagram transport only: before datagram i, the OTHER socket address sends a datagram that holds only the first
    /// half of a link frame (it delivers nothing, and nothing of it may stick to what follows)
    PartialDatagram(u16),
}

#[derive(Clone, Debug, Serialize, Deserialize)]
pub struct Case {
    pub rx_buffer: u16,
    /// (sender 0/1, length, content seed)
    pub fragments: Vec<(u8, u16, u32)>,
    pub start_seq: (u8, u8),
    /// interleave the two senders' segment streams instead of sending fragment after fragment
    pub interleave: bool,
    pub mutations: Vec<Mutation>,
    pub chunk: u16,
    /// datagram transport (UDP): whole link frames per datagram, 1 + chunk % 3 of them where the read buffer allows,
    /// every datagram from the socket address of its sender
    #[serde(default)]
    pub datagram: bool,
    /// pieces (scaled index) after which the reader's `read` is abandoned and `pop()` called before input goes on
    #[serde(default)]
    pub interrupts: Vec<u16>,
}

fn idx(i: u16, len: usize) -> usize {
    ((i as usize) * len) >> 16
}

pub struct Mutated;

impl Prop for Mutated {
    type Case = Case;
    const ID: &'static str = "C08";
    const NAME: &'static str = "mutated";
    fn rule() -> &'static str {
        "1..=5 fragments (lengths boundary-biased around multiples of 249 and the rx buffer) from two senders, reference-segmented with generated start sequence numbers, then the segment stream is mutated (drop, duplicate, swap neighbours, re-address, toggle FIR/FIN, perturb sequence, empty link frame, interleave senders), framed by the reference encoder, chunked and read through transport::real::reader::Reader with rx buffers 249..=2048; oracle: delivered (source, bytes) list == validity predicate over the mutated stream (runs starting FIR, same source, consecutive seq mod 64, ending at first FIN, <= buffer) - soundness and completeness; non-trivial = a fragment > 249 bytes, or >= 1 effective mutation with a clean fragment after it"
    }
    fn cases(tier: Tier) -> u32 {
        match tier {
            Tier::Quick => 300_000,
            Tier::Thorough => 30_000_000,
        }
    }
    fn floors() -> Vec<(&'static str, u32)> {
        vec![
            ("multi_segment", 300),
            ("damaged_then_clean", 100),
            ("oversize", 30),
            ("seq_wrap", 30),
        ]
    }
    fn strategy(_tier: Tier) -> BoxedStrategy<Case> {
        let len = prop_oneof![
            3 => 1u16..=2048,
            3 => prop_oneof![Just(1u16), Just(248), Just(249), Just(250), Just(497), Just(498), Just(499), Just(747), Just(2047), Just(2048)],
            1 => 1u16..=30,
        ];
        let mutation = prop_oneof![
            any::<u16>().prop_map(Mutation::Drop),
            any::<u16>().prop_map(Mutation::Dup),
            any::<u16>().prop_map(Mutation::Swap),
            any::<u16>().prop_map(Mutation::Readdress),
            any::<u16>().prop_map(Mutation::ToggleFir),
            any::<u16>().prop_map(Mutation::ToggleFin),
            (any::<u16>(), any::<u8>()).prop_map(|(i, s)| Mutation::Seq(i, s)),
            any::<u16>().prop_map(Mutation::EmptyFrame),
            (any::<u16>(), 0u8..3).prop_map(|(i, k)| Mutation::Broadcast(i, k)),
            any::<u16>().prop_map(Mutation::Peer),
            any::<u16>().prop_map(Mutation::PartialDatagram),
        ];
        (
            prop_oneof![
                Just(249u16),
                Just(250),
                Just(498),
                Just(2048),
                249u16..=2048
            ],
            proptest::collection::vec((0u8..2, len, any::<u32>()), 1..=5),
            (prop_oneof![0u8..64, Just(62u8), Just(63u8)], 0u8..64),
            prop_oneof![3 => Just(false), 1 => Just(true)],
            proptest::collection::vec(mutation, 0..=3),
            prop_oneof![Just(0u16), 1u16..600],
            prop_oneof![3 => Just(false), 1 => Just(true)],
            prop_oneof![2 => Just(vec![]), 1 => proptest::collection::vec(any::<u16>(), 1..4)],
        )
            .prop_map(
                |(
                    rx_buffer,
                    fragments,
                    start_seq,
                    interleave,
                    mutations,
                    chunk,
                    datagram,
                    interrupts,
                )| Case {
                    rx_buffer,
                    fragments,
                    start_seq,
                    interleave,
                    mutations,
                    chunk,
                    datagram,
                    interrupts,
                },
            )
            .boxed()
    }
    fn run(case: &Case) -> CaseOut {
        let mut out = CaseOut::default();
        let srcs = [MASTER_A, MASTER_B];
        let mut seqs = [case.start_seq.0 & 0x3F, case.start_seq.1 & 0x3F];
        let mut per_sender: [Vec<Segment>; 2] = [vec![], vec![]];
        let mut in_order: Vec<Segment> = vec![];
        for (who, len, seed) in &case.fragments {
            let w = (*who as usize) & 1;
            let frag = pseudo_bytes(*seed as u64 | ((*len as u64) << 32), *len as usize);
            let (segs, next) = segment(srcs[w], &frag, seqs[w]);
            if segs.len() > 1 {
                out.label("multi_segment");
                out.nontrivial = true;
            }
            if (seqs[w] as usize + segs.len()) > 64 {
                out.label("seq_wrap");
            }
            if *len > case.rx_buffer {
                out.label("oversize");
            }
            seqs[w] = next;
            per_sender[w].extend(segs.iter().cloned());
            in_order.extend(segs);
        }
        let mut segs: Vec<Segment> = if case.interleave {
            out.label("interleaved");
            let mut v = vec![];
            let (a, b) = (&per_sender[0], &per_sender[1]);
            for i in 0..a.len().max(b.len()) {
                if i < a.len() {
                    v.push(a[i].clone());
                }
                if i < b.len() {
                    v.push(b[i].clone());
                }
            }
            v
        } else {
            in_order
        };
        // an entry of None is a link frame with an empty payload
        let mut stream: Vec<Option<Segment>> = vec![];
        let mut first_mutated: Option<usize> = None;
        for m in &case.mutations {
            if segs.is_empty() {
                break;
            }
            let n = segs.len();
            let at = match m {
                Mutation::Drop(i) => {
                    let k = idx(*i, n);
                    segs.remove(k);
                    k
                }
                Mutation::Dup(i) => {
                    let k = idx(*i, n);
                    let s = segs[k].clone();
                    segs.insert(k, s);
                    k
                }
                Mutation::Swap(i) => {
                    if n < 2 {
                        continue;
                    }
                    let k = idx(*i, n - 1);
                    segs.swap(k, k + 1);
                    k
                }
                Mutation::Readdress(i) => {
                    let k = idx(*i, n);
                    segs[k].src = if segs[k].src == MASTER_A {
                        MASTER_B
                    } else {
                        MASTER_A
                    };
                    k
                }
                Mutation::ToggleFir(i) => {
                    let k = idx(*i, n);
                    segs[k].fir = !segs[k].fir;
                    k
                }
                Mutation::ToggleFin(i) => {
                    let k = idx(*i, n);
                    segs[k].fin = !segs[k].fin;
                    k
                }
                Mutation::Seq(i, s) => {
                    let k = idx(*i, n);
                    segs[k].seq = (segs[k].seq + 1 + (s % 63)) & 0x3F;
                    k
                }
                Mutation::EmptyFrame(_) => continue,
                Mutation::Broadcast(i, which) => {
                    let k = idx(*i, n);
                    segs[k].bcast = Some([0xFFFFu16, 0xFFFE, 0xFFFD][*which as usize % 3]);
                    out.label("broadcast_segment");
                    k
                }
                Mutation::PartialDatagram(_) => continue,
                Mutation::Peer(i) => {
                    if !case.datagram {
                        continue;
                    }
                    let k = idx(*i, n);
                    segs[k].peer ^= 1;
                    out.label("other_socket_address");
                    k
                }
            };
            first_mutated = Some(first_mutated.map_or(at, |f: usize| f.min(at)));
        }
        for s in &segs {
            stream.push(Some(s.clone()));
        }
        for m in &case.mutations {
            if let Mutation::EmptyFrame(i) = m {
                let k = idx(*i, stream.len() + 1);
                stream.insert(k, None);
                out.label("empty_frame");
            }
        }
        // (sources encoded as (link address << 1) | socket peer, as lib_read_ex reports them)
        let segs_enc: Vec<Segment> = segs
            .iter()
            .map(|s| {
                let mut e = s.clone();
                e.src = (s.src << 1) | (s.peer as u16 & 1);
                e
            })
            .collect();
        let exp = expected_fragments_ex(&segs_enc, case.rx_buffer as usize);
        if let Some(f) = first_mutated {
            out.label("mutated");
            // is there a clean fragment that starts after the first mutation point?
            let tail = if f < segs.len() {
                expected_fragments_ex(&segs[f + 1..], case.rx_buffer as usize)
            } else {
                vec![]
            };
            if !tail.is_empty() {
                out.label("damaged_then_clean");
                out.nontrivial = true;
            }
        }
        let frame_of = |s: &Option<Segment>| -> (Vec<u8>, u8) {
            match s {
                Some(s) => (
                    rl::encode(0xC4, s.bcast.unwrap_or(OUTSTATION), s.src, &s.payload()),
                    s.peer,
                ),
                None => (rl::encode(0xC4, OUTSTATION, MASTER_A, &[]), 0),
            }
        };
        let pieces: Vec<Piece> = if case.datagram {
            out.label("datagram");
            // whole frames per datagram; several only from one socket address and only if the link read buffer
            // (292 octets per 249 octets of receive buffer, plus one) holds them
            let room = ((case.rx_buffer as usize + 248) / 249).max(1) * 292 + 1;
            let per = 1 + (case.chunk as usize % 3);
            let mut v: Vec<Piece> = vec![];
            let mut count = 0usize;
            for s in &stream {
                let (b, peer) = frame_of(s);
                match v.last_mut() {
                    Some(last)
                        if count < per
                            && last.peer == Some(peer)
                            && last.data.len() + b.len() <= room =>
                    {
                        last.data.extend(b);
                        count += 1;
                        out.label("frames_share_a_datagram");
                    }
                    _ => {
                        v.push(Piece {
                            data: b,
                            peer: Some(peer),
                        });
                        count = 1;
                    }
                }
            }
            for m in &case.mutations {
                if let Mutation::PartialDatagram(i) = m {
                    let k = idx(*i, v.len() + 1);
                    let next_peer = v.get(k).and_then(|p| p.peer).unwrap_or(0);
                    let whole = rl::encode(
                        0xC4,
                        OUTSTATION,
                        MASTER_A,
                        &[0xC0, 0xC0, 0x01, 0x3C, 0x02, 0x06],
                    );
                    v.insert(
                        k,
                        Piece {
                            data: whole[..whole.len() / 2].to_vec(),
                            peer: Some(next_peer ^ 1),
                        },
                    );
                    out.label("partial_datagram_from_the_other_peer");
                }
            }
            v
        } else {
            let mut bytes = vec![];
            for s in &stream {
                bytes.extend(frame_of(s).0);
            }
            if case.chunk == 0 {
                vec![Piece {
                    data: bytes,
                    peer: None,
                }]
            } else {
                bytes
                    .chunks(case.chunk as usize)
                    .map(|c| Piece {
                        data: c.to_vec(),
                        peer: None,
                    })
                    .collect()
            }
        };
        let interrupts: Vec<usize> = case
            .interrupts
            .iter()
            .map(|i| idx(*i, pieces.len().max(1)))
            .collect();
        if !interrupts.is_empty() && pieces.len() > 1 {
            out.label("read_interrupted");
        }
        let (got, err) = lib_read_ex(
            case.datagram,
            OUTSTATION,
            case.rx_buffer as usize,
            &pieces,
            &interrupts,
            exp.len() + 16,
        );
        // where the statement leaves a choice (an exact duplicate of the previous segment: discard it or give up the
        // fragment; broadcast segments: one segment only, or reassembled like any others; a continuation segment from another
        // source in the middle of an assembly: ends it, or is passed over) every consistent choice is right
        let alternatives: Vec<Vec<(u16, Option<u16>, Vec<u8>)>> = (1..8u8)
            .map(|m| {
                expected_fragments_policy(
                    &segs_enc,
                    case.rx_buffer as usize,
                    m & 1 != 0,
                    m & 2 != 0,
                    m & 4 != 0,
                )
            })
            .collect();
        if got != exp && alternatives.iter().any(|a| *a == got) {
            out.label("another_admissible_policy");
        } else if got != exp {
            let kind = if got.len() < exp.len() {
                "fragment-lost"
            } else if got.len() > exp.len() {
                "invalid-fragment-delivered"
            } else {
                "fragment-differs"
            };
            let d = |v: &Vec<(u16, Option<u16>, Vec<u8>)>| {
                v.iter()
                    .map(|(s, bc, b)| {
                        format!(
                            "src{}{}{}:{}B:{:016x}",
                            s >> 1,
                            if s & 1 == 1 { "'" } else { "" },
                            bc.map(|a| format!("->{a:#x}")).unwrap_or_default(),
                            b.len(),
                            xxhash_rust::xxh64::xxh64(b, 0)
                        )
                    })
                    .collect::<Vec<_>>()
                    .join(",")
            };
            out.fail(
                Fail::new(
                    "reassembly-predicate",
                    format!("{kind}: delivered [{}] but the segment stream justifies exactly [{}]; segments: {}; end {:?}", d(&got), d(&exp), describe(&segs), err),
                )
                .with_sig(format!("C08 {kind}")),
            );
        }
        out
    }
}

fn describe(segs: &[Segment]) -> String {
    segs.iter()
        .map(|s| {
            format!(
                "{}{}{}#{}@{}{}:{}",
                if s.fir { "F" } else { "-" },
                if s.fin { "N" } else { "-" },
                if s.bcast.is_some() { "B" } else { "" },
                s.seq,
                s.src,
                if s.peer != 0 { "'" } else { "" },
                s.data.len()
            )
        })
        .collect::<Vec<_>>()
        .join(" ")
}

pub fn run<C: Codec>(tier: Tier) -> i32 {
    let mut ctx = Ctx::<C>::new("C08", tier);
    let seed = ctx.seed;
    ctx.assumptions.push("trusted base: reference segmenter / validity predicate (harness/wire/transport.rs) and reference link codec; link addressing is kept valid here (C07 covers it)".into());
    ctx.exhaustive("every fragment length 1..=2048 through transport Writer -> reference deframing (FIR/FIN/seq/<=249) -> transport Reader under 3 chunkings, both directions, plus every start sequence 0..63", || exhaustive_lengths(seed));
    ctx.run::<Mutated>();
    ctx.finish()
}

pub fn replay<C: Codec>(text: &str, known: &[Known]) -> Option<i32> {
    replay_file::<C, Mutated>(text, known)
}
