//! C02 — end to end, the master's picture converges to the outstation's database
//!
//! PairRig: real master + real outstation (real link/transport on both sides, the real ServerTask loop) joined by a
//! proxy that delays, re-chunks, truncates and cuts. Oracle: S1 authentic, S2 convergence, S3 events at least once.
use crate::app::control::*;
use crate::app::variations::*;
use crate::app::{RetryStrategy, Timeout};
use crate::master::*;
use crate::outstation::database::*;
use crate::verif::engine::*;
use crate::verif::props::c10::{self, carry_check, Rec, Value};
use crate::verif::props::ost::{add_point, PointSpec, EVENT_VARS, STATIC_VARS, TYPE_NAMES};
use crate::verif::rig::handler::{HEv, Item};
use crate::verif::rig::master::InfoEv;
use crate::verif::rig::outstation::{AppBehaviour, Cb, OutConfig};
use crate::verif::rig::pair::{PairConfig, PairRig};
use crate::verif::rig::{runtime, Counted};
use proptest::prelude::*;
use serde::{Deserialize, Serialize};
use std::collections::{BTreeMap, BTreeSet};
use std::time::Duration;

#[derive(Clone, Debug, Serialize, Deserialize)]
pub enum Op {
    /// point selector, flag selector, with time
    Update(u16, u8, bool),
    /// command through the master: binary (true) or analog output, point selector, select-before-operate
    Command(bool, u16, bool),
    Wait(u32),
    CutNow,
    /// direction, after k more bytes (also mid-frame)
    CutAfter(u8, u16),
    /// the master's end dies silently; the next Reconnect pre-empts the outstation's old session
    HalfOpen,
    Reconnect,
    SetDelay(u8, u16),
    SetChunk(u8, Vec<u16>),
}

#[derive(Clone, Debug, Serialize, Deserialize)]
pub struct Case {
    pub points: Vec<PointSpec>,
    pub unsolicited: bool,
    /// event buffer size per type
    pub buffer: u16,
    pub sol_tx: u16,
    pub unsol_tx: u16,
    pub out_discard: bool,
    pub master_discard: bool,
    pub poll_ms: u32,
    pub event_scan: bool,
    pub overflow_scan: bool,
    pub retries: Option<u8>,
    pub ops: Vec<Op>,
}

pub const RESPONSE_TIMEOUT: u64 = 2000;
pub const CONFIRM_TIMEOUT: u32 = 1500;

fn unique(ty: u8, index: u16, serial: u32, global: u32, fsel: u8, timed: bool) -> Rec {
    let s = serial;
    let value = match ty {
        0 | 2 => Value::Bool(s % 2 == 1),
        1 => Value::Dbl((s % 4) as u8),
        3 | 4 => Value::Cnt((index as u32 % 50) * 1000 + (s % 1000)),
        5 | 6 => Value::Ana(((index as i32 % 30) * 1000 + (s % 1000) as i32 - 500) as f64),
        _ => {
            let mut b = vec![ty, index as u8, s as u8, (s >> 8) as u8, global as u8];
            // long octet strings now and then: two of them fill a 249-octet fragment, so that event responses of several
            // fragments occur (and can be cut in the middle)
            if fsel & 0x03 == 0x03 {
                while b.len() < 95 + (fsel >> 3) as usize {
                    b.push((b.len() as u8).wrapping_mul(11) ^ (s as u8));
                }
            }
            Value::Oct(b)
        }
    };
    let flags = if ty == 7 {
        0
    } else {
        [0x01u8, 0x01, 0x03, 0x11, 0x21, 0x05, 0x09, 0x00][(fsel % 8) as usize]
            | (((s as u8) & 1) << 1)
    };
    let time = if ty == 7 || !timed {
        None
    } else {
        Some((
            1_000_000 + (global as u64 * 7919) % 131_071,
            global % 5 != 0,
        ))
    };
    Rec { value, flags, time }
}

struct World {
    specs: BTreeMap<(u8, u16), PointSpec>,
    order: Vec<(u8, u16)>,
    /// every record a point ever held
    hist: BTreeMap<(u8, u16), Vec<Rec>>,
    cur: BTreeMap<(u8, u16), Rec>,
    serial: BTreeMap<(u8, u16), u32>,
    global: u32,
    /// created events: id -> (type, index, record)
    events: BTreeMap<u64, (u8, u16, Rec)>,
    discarded: BTreeSet<u64>,
    /// deliveries at the master: (ms, type, (g, v), is_event, item)
    delivered: Vec<(u64, u8, (u8, u8), bool, Item)>,
    last_update_ms: u64,
}

impl World {
    fn note_info(&mut self, ty: u8, index: u16, rec: &Rec, info: UpdateInfo) {
        match info {
            UpdateInfo::Created(id) => {
                self.events.insert(id, (ty, index, rec.clone()));
            }
            UpdateInfo::Overflow { created, discarded } => {
                self.events.insert(created, (ty, index, rec.clone()));
                self.discarded.insert(discarded);
            }
            _ => {}
        }
    }
}

fn fail(out: &mut CaseOut, clause: &str, detail: String) {
    out.fail(Fail::new(clause, detail));
}

/// pull what the outstation's callbacks and the master's handler have recorded into the world
fn absorb(rig: &mut PairRig, w: &mut World, out: &mut CaseOut) {
    let now = rig.now_ms();
    for (_t, cb) in rig.shared.take_log() {
        if std::env::var("VERIF_TRACE").is_ok() {
            println!("outstation callback t={_t} {:?}", cb);
        }
        if let Cb::Mirror(ty, index, v, time, info) = cb {
            let rec = Rec {
                value: if ty == 2 {
                    Value::Bool(v != 0.0)
                } else {
                    Value::Ana(v)
                },
                flags: 0x01,
                time: Some((time, true)),
            };
            if info != UpdateInfo::NoPoint {
                w.hist.entry((ty, index)).or_default().push(rec.clone());
                w.cur.insert((ty, index), rec.clone());
                w.last_update_ms = now;
                out.label("command_mirrored");
            }
            w.note_info(ty, index, &rec, info);
        }
    }
    for e in rig.read.take() {
        if let HEv::Meas(ty, gv, is_event, _hf, items) = e {
            for it in items {
                w.delivered.push((now, ty, gv, is_event, it));
            }
        }
    }
}

/// S1: everything delivered since position `from` is a value the point really had
fn check_authentic(w: &World, from: usize, out: &mut CaseOut) {
    for (t, ty, (g, v), is_event, item) in &w.delivered[from..] {
        let name = TYPE_NAMES.get(*ty as usize).copied().unwrap_or("?");
        if *ty > 7 {
            fail(out, "S1-fabricated", format!("t={t}: the handler received g{g}v{v} index {} of a type the database does not hold", item.index));
            return;
        }
        let Some(h) = w.hist.get(&(*ty, item.index)) else {
            fail(
                out,
                "S1-fabricated",
                format!(
                    "t={t}: the handler received {name}[{}] (g{g}v{v}) but no such point exists",
                    item.index
                ),
            );
            return;
        };
        let mut why = String::new();
        let ok = h
            .iter()
            .rev()
            .any(|rec| match carry_check(*ty, *g, *v, rec, item) {
                Ok(_) => true,
                Err(e) => {
                    if why.is_empty() {
                        why = e;
                    }
                    false
                }
            });
        if !ok {
            fail(out, "S1-authentic", format!("t={t}: the handler received {name}[{}] via g{g}v{v} ({}) = {:?}, which the point never held ({} records; latest mismatch: {why})", item.index, if *is_event { "event" } else { "static" }, item, h.len()));
            return;
        }
    }
}

pub fn run_case(case: &Case) -> CaseOut {
    let mut out = CaseOut::default();
    let rt = runtime();
    rt.block_on(async {
        let mut oc = OutConfig::default();
        oc.discard = case.out_discard;
        oc.sol_tx = case.sol_tx;
        oc.unsol_tx = case.unsol_tx;
        oc.unsolicited = case.unsolicited;
        oc.event_buffer = [case.buffer; 8];
        oc.confirm_timeout_ms = CONFIRM_TIMEOUT;
        oc.max_unsol_retries = case.retries;
        oc.unsol_retry_delay_ms = 700;
        oc.class_zero_octet_strings = true;
        oc.select_timeout_ms = 5000;
        let mut ac = AssociationConfig::new(
            EventClasses::all(),
            if case.unsolicited { EventClasses::all() } else { EventClasses::none() },
            Classes::all(),
            if case.event_scan { EventClasses::all() } else { EventClasses::none() },
        );
        ac.response_timeout = Timeout::from_millis(RESPONSE_TIMEOUT).unwrap();
        ac.auto_tasks_retry_strategy = RetryStrategy::new(Duration::from_millis(200), Duration::from_millis(1600));
        ac.auto_integrity_scan_on_buffer_overflow = case.overflow_scan;
        ac.keep_alive_timeout = None;
        ac.auto_time_sync = None;
        let cfg = PairConfig { out: oc, master_discard: case.master_discard, master_tx: 2048, master_rx: 2048, master_decode: [0; 4], assoc: ac };
        let beh = AppBehaviour { mirror_controls: true, ..Default::default() };
        let mut rig = PairRig::start(cfg, beh, Some(0)).await;
        let poll_ms = case.poll_ms.clamp(500, 20_000) as u64;
        let _ = rig.assoc.add_poll(ReadRequest::class_scan(Classes::all()), Duration::from_millis(poll_ms)).await;

        // ---- points
        let mut w = World { specs: BTreeMap::new(), order: vec![], hist: BTreeMap::new(), cur: BTreeMap::new(), serial: BTreeMap::new(), global: 0, events: BTreeMap::new(), discarded: BTreeSet::new(), delivered: vec![], last_update_ms: 0 };
        rig.out_handle.transaction(|db| {
            for p in &case.points {
                let mut p = p.clone();
                if p.class == 0 {
                    p.class = 1;
                }
                if w.specs.contains_key(&(p.ty, p.index)) {
                    continue;
                }
                if add_point(db, &p) {
                    let key = (p.ty, p.index);
                    w.order.push(key);
                    if let Some(r) = c10::current(db, p.ty, p.index) {
                        w.hist.entry(key).or_default().push(r.clone());
                        w.cur.insert(key, r);
                    }
                    w.specs.insert(key, p);
                }
            }
        });
        if w.order.is_empty() {
            return;
        }
        w.last_update_ms = rig.now_ms();
        rig.settle().await;
        let mut checked = 0usize;
        let mut cuts = 0;

        // ---- script
        for op in &case.ops {
            match op {
                Op::Update(sel, fsel, timed) => {
                    let key = w.order[(*sel as usize * w.order.len()) >> 16];
                    let s = w.serial.entry(key).or_default();
                    *s += 1;
                    let serial = *s;
                    w.global += 1;
                    let rec = unique(key.0, key.1, serial, w.global, *fsel, *timed);
                    let info = rig.out_handle.transaction(|db| c10::apply(db, key.0, key.1, &rec, UpdateOptions::detect_event()));
                    if info == UpdateInfo::NoPoint {
                        fail(&mut out, "G-update", format!("update of existing point {:?} returned NoPoint", key));
                        return;
                    }
                    w.hist.entry(key).or_default().push(rec.clone());
                    w.cur.insert(key, rec.clone());
                    w.note_info(key.0, key.1, &rec, info);
                    if matches!(info, UpdateInfo::Overflow { .. }) {
                        out.label("overflow");
                    }
                    w.last_update_ms = rig.now_ms();
                    rig.settle().await;
                }
                Op::Command(binary, sel, sbo) => {
                    let want = if *binary { 2 } else { 6 };
                    let pts: Vec<(u8, u16)> = w.order.iter().filter(|k| k.0 == want).cloned().collect();
                    if pts.is_empty() {
                        continue;
                    }
                    let key = pts[(*sel as usize * pts.len()) >> 16];
                    w.global += 1;
                    let headers = if *binary {
                        CommandBuilder::single_header_u16(Group12Var1::from_op_type(if w.global % 2 == 0 { OpType::LatchOn } else { OpType::LatchOff }), key.1)
                    } else {
                        CommandBuilder::single_header_u16(Group41Var2::new((w.global % 30000) as i16), key.1)
                    };
                    let mode = if *sbo { CommandMode::SelectBeforeOperate } else { CommandMode::DirectOperate };
                    let mut h = rig.assoc.clone();
                    tokio::spawn(Counted::new(
                        async move {
                            let _ = h.operate(mode, headers).await;
                        },
                        rig.polls.clone(),
                    ));
                    out.label("command");
                    rig.settle().await;
                }
                Op::Wait(ms) => rig.advance(*ms as u64).await,
                Op::CutNow => {
                    if rig.connected() {
                        cuts += 1;
                        if !w.events.is_empty() {
                            out.label("cut_with_events");
                        }
                    }
                    rig.cut().await;
                }
                Op::CutAfter(dir, k) => rig.cut_after(*dir as usize, *k as usize),
                Op::HalfOpen => {
                    if rig.connected() {
                        out.label("half_open");
                    }
                    rig.half_open().await;
                }
                Op::Reconnect => rig.connect().await,
                Op::SetDelay(dir, ms) => rig.set_delay(*dir as usize, (*ms as u64).min(1200)),
                Op::SetChunk(dir, pat) => rig.set_chunking(*dir as usize, pat.clone()),
            }
            absorb(&mut rig, &mut w, &mut out);
            check_authentic(&w, checked, &mut out);
            checked = w.delivered.len();
            if out.failed() {
                return;
            }
            if let Some(f) = rig.task_failure.clone() {
                out.fail(f);
                return;
            }
        }
        if rig.ctl.lock().unwrap().truncated {
            out.label("mid_frame_cut");
        }

        // ---- the history stops: leave the link up and let the system converge
        rig.set_delay(0, 5);
        rig.set_delay(1, 5);
        rig.set_chunking(0, vec![]);
        rig.set_chunking(1, vec![]);
        if !rig.connected() || rig.ctl.lock().unwrap().half_open {
            rig.connect().await;
        }
        rig.ctl.lock().unwrap().cut_after = [None, None];
        absorb(&mut rig, &mut w, &mut out);
        let t_end = rig.now_ms();
        let budget = 100 * (poll_ms + RESPONSE_TIMEOUT);
        // exact (virtual) start time of the integrity poll we are waiting for
        let mut poll_started: Option<u64> = None;
        let mut converged = false;
        let mut reconnects = 0;
        loop {
            for (t, e) in rig.info.take() {
                if converged {
                    break;
                }
                match e {
                    InfoEv::TaskStart(kind, 1, _) if kind == "PeriodicPoll" || kind == "StartupIntegrity" => {
                        // an integrity poll that starts after the last update (and the last mirrored command)
                        poll_started = if t > w.last_update_ms { Some(t) } else { None };
                    }
                    InfoEv::TaskSuccess(kind, 1, _) if kind == "PeriodicPoll" || kind == "StartupIntegrity" => {
                        if let Some(ts) = poll_started {
                            if ts > w.last_update_ms {
                                converged = true;
                            }
                        }
                    }
                    InfoEv::TaskFail(kind, _) if kind == "PeriodicPoll" || kind == "StartupIntegrity" => poll_started = None,
                    _ => {}
                }
            }
            if converged || rig.now_ms() >= t_end + budget {
                break;
            }
            rig.advance(25).await;
            absorb(&mut rig, &mut w, &mut out);
            if let Some(f) = rig.task_failure.clone() {
                out.fail(f);
                return;
            }
            if !rig.connected() {
                // an armed cut or a link error in Close mode ended the connection: the link comes back
                reconnects += 1;
                rig.connect().await;
                absorb(&mut rig, &mut w, &mut out);
            }
        }
        check_authentic(&w, checked, &mut out);
        if out.failed() {
            return;
        }
        if !converged {
            fail(&mut out, "S2-no-convergence", format!("no integrity poll that started after the last update (t={} ms) completed within {} ms of uninterrupted link ({} reconnects during the wait)", w.last_update_ms, budget, reconnects));
            return;
        }
        let ts = poll_started.unwrap();
        // deliveries are stamped when absorbed (never earlier than they happened)
        let from = w.delivered.iter().position(|d| d.0 >= ts).unwrap_or(w.delivered.len());
        if std::env::var("VERIF_TRACE").is_ok() {
            for (t, d, b) in rig.wire_log() {
                println!("wire t={t} {} {} bytes: {:02x?}", if d == 0 { "M->O" } else { "O->M" }, b.len(), &b[..b.len().min(40)]);
            }
            for (t, ty, gv, ev, it) in &w.delivered {
                println!("delivered t={t} ty={ty} g{}v{} event={ev} {:?}", gv.0, gv.1, it);
            }
        }

        // S2: the final integrity poll reported, for every point, its current value
        for key in &w.order {
            let rec = &w.cur[key];
            let last = w.delivered[from..].iter().rev().find(|d| d.1 == key.0 && d.4.index == key.1 && !d.3);
            match last {
                None => {
                    fail(&mut out, "S2-missing", format!("{}[{}]: the integrity poll after the last update delivered no static value for the point (current {:?})", TYPE_NAMES[key.0 as usize], key.1, rec));
                    return;
                }
                Some((t, ty, (g, v), _, item)) => {
                    if let Err(e) = carry_check(*ty, *g, *v, rec, item) {
                        fail(&mut out, "S2-stale", format!("{}[{}]: after the history stopped the master's last static value (t={t}, g{g}v{v}) is {:?}; the database holds {:?}: {e}", TYPE_NAMES[key.0 as usize], key.1, item, rec));
                        return;
                    }
                }
            }
            // and Database::get agrees with the harness' own record
            let got = rig.out_handle.transaction(|db| c10::current(db, key.0, key.1));
            if !got.as_ref().map(|g| c10::same_rec(g, rec)).unwrap_or(false) {
                fail(&mut out, "G-database", format!("{:?}: Database::get = {:?}, harness record {:?}", key, got, rec));
                return;
            }
        }
        // S3: every event that was not reported discarded reached the handler at least once
        for (id, (ty, index, rec)) in &w.events {
            if w.discarded.contains(id) {
                continue;
            }
            let hit = w.delivered.iter().any(|(_, dty, (g, v), is_event, item)| *is_event && dty == ty && item.index == *index && carry_check(*ty, *g, *v, rec, item).is_ok());
            if !hit {
                fail(&mut out, "S3-event-lost", format!("event id {id} ({}[{}] = {:?}) was never reported discarded and never reached the master's handler as an event ({} events created, {} discarded, {} deliveries)", TYPE_NAMES[*ty as usize], index, rec, w.events.len(), w.discarded.len(), w.delivered.len()));
                return;
            }
        }
        if !w.events.is_empty() {
            out.label("events");
        }
        // multi-fragment responses seen on the wire (outstation -> master): FIR clear in an application control octet
        let multi = rig.wire_log().iter().any(|(_, d, b)| *d == 1 && b.len() > 12 && b[0] == 0x05 && b[1] == 0x64 && (b[10] & 0x40 != 0) && (b[11] & 0x80 == 0));
        if multi {
            out.label("multi_fragment");
        }
        if cuts > 0 {
            out.label("cut");
        }
        out.nontrivial = out.labels.iter().any(|l| matches!(l.as_str(), "cut_with_events" | "mid_frame_cut" | "overflow" | "multi_fragment" | "half_open"));
    });
    out
}

fn point() -> impl Strategy<Value = PointSpec> {
    (
        0u8..8,
        prop_oneof![4 => 0u16..12, 1 => Just(255u16), 1 => Just(256u16), 1 => Just(65535u16)],
        1u8..=3,
        any::<u8>(),
        any::<u8>(),
    )
        .prop_map(|(ty, index, class, s, e)| {
            let sv = STATIC_VARS[ty as usize];
            let ev = EVENT_VARS[ty as usize];
            PointSpec {
                ty,
                index,
                class,
                svar: sv[s as usize % sv.len()],
                evar: ev[e as usize % ev.len()],
            }
        })
}

fn op() -> impl Strategy<Value = Op> {
    prop_oneof![
        10 => (any::<u16>(), any::<u8>(), any::<bool>()).prop_map(|(s, f, t)| Op::Update(s, f, t)),
        2 => (any::<bool>(), any::<u16>(), any::<bool>()).prop_map(|(b, s, sbo)| Op::Command(b, s, sbo)),
        5 => prop_oneof![Just(1u32), Just(50), Just(700), Just(1499), Just(1500), Just(1501), Just(2000), Just(2001), 1u32..6000].prop_map(Op::Wait),
        1 => Just(Op::CutNow),
        2 => (0u8..2, prop_oneof![0u16..40, 0u16..600]).prop_map(|(d, k)| Op::CutAfter(d, k)),
        1 => Just(Op::HalfOpen),
        2 => Just(Op::Reconnect),
        1 => (0u8..2, prop_oneof![Just(0u16), Just(10), Just(400), 0u16..1200]).prop_map(|(d, ms)| Op::SetDelay(d, ms)),
        1 => (0u8..2, proptest::collection::vec(prop_oneof![Just(1u16), Just(2), Just(9), Just(10), Just(17), Just(18), 1u16..300], 0..4)).prop_map(|(d, p)| Op::SetChunk(d, p)),
    ]
}

fn case_strategy(tier: Tier) -> BoxedStrategy<Case> {
    let (np, nops) = match tier {
        Tier::Quick => (36, 30),
        Tier::Thorough => (40, 80),
    };
    (
        prop_oneof![2 => proptest::collection::vec(point(), 1..8), 1 => proptest::collection::vec(point(), 1..np)],
        any::<bool>(),
        prop_oneof![2 => Just(1u16), 2 => Just(2u16), 1 => Just(3u16), 3 => Just(60u16)],
        prop_oneof![2 => Just(249u16), 1 => Just(300u16), 2 => Just(2048u16), 1 => 249u16..=2048],
        prop_oneof![2 => Just(249u16), 2 => Just(2048u16)],
        any::<bool>(),
        any::<bool>(),
        prop_oneof![Just(1000u32), Just(3000u32), 500u32..8000],
        any::<bool>(),
        prop_oneof![3 => Just(true), 1 => Just(false)],
        prop_oneof![Just(None), Just(Some(0u8)), Just(Some(1u8)), Just(Some(3u8))],
        proptest::collection::vec(op(), 0..nops),
    )
        .prop_map(|(points, unsolicited, buffer, sol_tx, unsol_tx, out_discard, master_discard, poll_ms, event_scan, overflow_scan, retries, ops)| Case { points, unsolicited, buffer, sol_tx, unsol_tx, out_discard, master_discard, poll_ms, event_scan, overflow_scan, retries, ops })
        .boxed()
}

pub struct Converge;
impl Prop for Converge {
    type Case = Case;
    const ID: &'static str = "C02";
    const NAME: &'static str = "converge";
    const TRACK_STALL: bool = true;
    fn rule() -> &'static str {
        "a real master and a real outstation (real link and transport layers, the real server loop) joined by a deterministic proxy; generated histories of updates (8 point types, unique values), commands mirrored into output status points, waits around the confirm/response timeouts, connection cuts (now / after k bytes incl. mid-frame / half-open with pre-emption by the next connection), re-chunking and per-direction delays, with unsolicited on/off, event buffers of 1/2/3/60, fragment sizes 249..2048, both link error modes on both sides; after every step every value the handler received must be one the point really held (S1); after the history stops an integrity poll started after the last update must complete within 100 x (poll period + response timeout) of link-up time and deliver every point's current value (S2), and every event not reported discarded must have reached the handler as an event (S3); non-trivial = a cut with events buffered, a mid-frame cut, a half-open pre-emption, an overflow or a multi-fragment response"
    }
    fn strategy(tier: Tier) -> BoxedStrategy<Case> {
        case_strategy(tier)
    }
    fn cases(tier: Tier) -> u32 {
        match tier {
            Tier::Quick => 100_000,
            Tier::Thorough => 6_000_000,
        }
    }
    fn run(case: &Case) -> CaseOut {
        run_case(case)
    }
    fn floors() -> Vec<(&'static str, u32)> {
        vec![
            ("events", 500),
            ("cut", 200),
            ("overflow", 100),
            ("multi_fragment", 25),
            ("mid_frame_cut", 50),
        ]
    }
}

pub fn run<C: Codec>(tier: Tier) -> i32 {
    let mut ctx = Ctx::<C>::new("C02", tier);
    ctx.assumptions.push("single-threaded deterministic simulation (paused tokio clock): real thread interleavings between user threads and the tasks are not explored; the TCP sockets themselves are replaced by the in-memory physical layer (hook H3), the connection loops are the real ServerTask and a mirror of tcp/client.rs".into());
    ctx.assumptions.push("duplicated deliveries are allowed (at least once); the order in which a stale event and a newer static value reach the handler is not asserted; UpdateInfo is trusted to name created and discarded event ids".into());
    ctx.run::<Converge>();
    ctx.run::<super::c02t::Tcp>();
    ctx.finish()
}

pub fn replay<C: Codec>(text: &str, known: &[Known]) -> Option<i32> {
    replay_file::<C, Converge>(text, known)
        .or_else(|| replay_file::<C, super::c02t::Tcp>(text, known))
}
