//! C10 — measurement values survive the trip from outstation database to master handler
//!
//! Database (public Add/Update traits) -> select + write_response_headers / write_unsolicited -> ParsedFragment::parse
//! -> extract_measurements_inner -> recording ReadHandler. The oracle is `carry`, a function written from the
//! statement: what a variation can carry of a recorded (value, flags, time).
use crate::app::measurement::*;
use crate::app::parse::options::ParseOptions;
use crate::app::parse::parser::ParsedFragment;
use crate::app::Timestamp;
use crate::master::extract::extract_measurements_inner;
use crate::master::EventClasses;
use crate::outstation::database::*;
use crate::outstation::OutstationApplication;
use crate::verif::engine::*;
use crate::verif::props::ost::{
    add_point, PointSpec, EVENT_GROUP, EVENT_VARS, STATIC_GROUP, STATIC_VARS, TYPE_NAMES,
};
use crate::verif::rig::exec::block_on_ready;
use crate::verif::rig::handler::{HEv, Item, RecHandler};
use crate::verif::wire::app::{self as ra, func, Fragment};
use proptest::prelude::*;
use serde::{Deserialize, Serialize};
use std::collections::BTreeMap;

#[derive(Clone, Debug, Serialize, Deserialize)]
pub struct Upd {
    /// selector into the point list (monotone mapping)
    pub point: u16,
    /// analog value as f64 bits (exact in JSON)
    pub a: u64,
    /// counter value; binary = bit 0, double-bit = bits 1..0
    pub c: u32,
    pub bytes: Vec<u8>,
    pub flags: u8,
    /// (ms, synchronized)
    pub time: Option<(u64, bool)>,
    /// 0 detect, 1 force, 2 suppress
    pub mode: u8,
    pub update_static: bool,
}

#[derive(Clone, Debug, Serialize, Deserialize)]
pub enum Req {
    Class0,
    /// event class 1..=3
    Class(u8),
    /// static, all objects: type, k-th configurable variation (None = variation 0)
    StaticAll(u8, Option<u8>),
    StaticRange(u8, Option<u8>, u16, u16),
    /// events of a type, all objects
    EventAll(u8, Option<u8>),
    /// events of a type, limited count
    EventCount(u8, Option<u8>, u16),
}

#[derive(Clone, Debug, Serialize, Deserialize)]
pub struct Case {
    pub points: Vec<PointSpec>,
    pub updates: Vec<Upd>,
    pub reqs: Vec<Req>,
    /// Some(mask of classes 1..3) = report through write_unsolicited instead of a READ
    pub unsol: Option<u8>,
    /// fragment size 249..=2048
    pub tx: u16,
    /// an earlier READ whose response is never confirmed (the session then returns the events to the pool) before
    /// the judged request is made; its requested variations must leave no trace
    #[serde(default)]
    pub pre: Vec<Req>,
    /// updates made after the READ was selected but before the response is written (snapshot territory of C11: here
    /// a delivered static value must merely be one the point really held, the snapshot or a later one)
    #[serde(default)]
    pub late: Vec<Upd>,
}

#[derive(Clone, Debug, PartialEq)]
pub enum Value {
    Bool(bool),
    Dbl(u8),
    Cnt(u32),
    Ana(f64),
    Oct(Vec<u8>),
}

#[derive(Clone, Debug, PartialEq)]
pub struct Rec {
    pub value: Value,
    pub flags: u8,
    pub time: Option<(u64, bool)>,
}

struct NullApp;
impl OutstationApplication for NullApp {}

fn time_of(t: Option<(u64, bool)>) -> Option<Time> {
    t.map(|(ms, sync)| {
        if sync {
            Time::Synchronized(Timestamp::new(ms))
        } else {
            Time::Unsynchronized(Timestamp::new(ms))
        }
    })
}
fn time_back(t: Option<Time>) -> Option<(u64, bool)> {
    t.map(|t| match t {
        Time::Synchronized(ts) => (ts.raw_value(), true),
        Time::Unsynchronized(ts) => (ts.raw_value(), false),
    })
}
fn double_bit(v: u8) -> DoubleBit {
    match v & 3 {
        0 => DoubleBit::Intermediate,
        1 => DoubleBit::DeterminedOff,
        2 => DoubleBit::DeterminedOn,
        _ => DoubleBit::Indeterminate,
    }
}
fn dbl_back(d: DoubleBit) -> u8 {
    match d {
        DoubleBit::Intermediate => 0,
        DoubleBit::DeterminedOff => 1,
        DoubleBit::DeterminedOn => 2,
        DoubleBit::Indeterminate => 3,
    }
}

fn rec_of(ty: u8, u: &Upd) -> Rec {
    let value = match ty {
        0 | 2 => Value::Bool(u.c & 1 != 0),
        1 => Value::Dbl((u.c & 3) as u8),
        3 | 4 => Value::Cnt(u.c),
        5 | 6 => Value::Ana(f64::from_bits(u.a)),
        _ => Value::Oct(if u.bytes.is_empty() {
            vec![u.c as u8]
        } else {
            u.bytes.clone()
        }),
    };
    let (flags, time) = if ty == 7 {
        (0, None)
    } else {
        (u.flags, u.time)
    };
    Rec { value, flags, time }
}

pub fn apply(db: &mut Database, ty: u8, index: u16, r: &Rec, options: UpdateOptions) -> UpdateInfo {
    let flags = Flags::new(r.flags);
    let time = time_of(r.time);
    match (&r.value, ty) {
        (Value::Bool(v), 0) => db.update2(
            index,
            &BinaryInput {
                value: *v,
                flags,
                time,
            },
            options,
        ),
        (Value::Dbl(v), 1) => db.update2(
            index,
            &DoubleBitBinaryInput {
                value: double_bit(*v),
                flags,
                time,
            },
            options,
        ),
        (Value::Bool(v), 2) => db.update2(
            index,
            &BinaryOutputStatus {
                value: *v,
                flags,
                time,
            },
            options,
        ),
        (Value::Cnt(v), 3) => db.update2(
            index,
            &Counter {
                value: *v,
                flags,
                time,
            },
            options,
        ),
        (Value::Cnt(v), 4) => db.update2(
            index,
            &FrozenCounter {
                value: *v,
                flags,
                time,
            },
            options,
        ),
        (Value::Ana(v), 5) => db.update2(
            index,
            &AnalogInput {
                value: *v,
                flags,
                time,
            },
            options,
        ),
        (Value::Ana(v), 6) => db.update2(
            index,
            &AnalogOutputStatus {
                value: *v,
                flags,
                time,
            },
            options,
        ),
        (Value::Oct(b), 7) => match OctetString::new(b) {
            Ok(s) => db.update2(index, &s, options),
            Err(_) => UpdateInfo::NoPoint,
        },
        _ => UpdateInfo::NoPoint,
    }
}

pub fn current(db: &Database, ty: u8, index: u16) -> Option<Rec> {
    match ty {
        0 => Get::<BinaryInput>::get(db, index).map(|v| Rec {
            value: Value::Bool(v.value),
            flags: v.flags.value,
            time: time_back(v.time),
        }),
        1 => Get::<DoubleBitBinaryInput>::get(db, index).map(|v| Rec {
            value: Value::Dbl(dbl_back(v.value)),
            flags: v.flags.value,
            time: time_back(v.time),
        }),
        2 => Get::<BinaryOutputStatus>::get(db, index).map(|v| Rec {
            value: Value::Bool(v.value),
            flags: v.flags.value,
            time: time_back(v.time),
        }),
        3 => Get::<Counter>::get(db, index).map(|v| Rec {
            value: Value::Cnt(v.value),
            flags: v.flags.value,
            time: time_back(v.time),
        }),
        4 => Get::<FrozenCounter>::get(db, index).map(|v| Rec {
            value: Value::Cnt(v.value),
            flags: v.flags.value,
            time: time_back(v.time),
        }),
        5 => Get::<AnalogInput>::get(db, index).map(|v| Rec {
            value: Value::Ana(v.value),
            flags: v.flags.value,
            time: time_back(v.time),
        }),
        6 => Get::<AnalogOutputStatus>::get(db, index).map(|v| Rec {
            value: Value::Ana(v.value),
            flags: v.flags.value,
            time: time_back(v.time),
        }),
        _ => Get::<OctetString>::get(db, index).map(|v| Rec {
            value: Value::Oct(v.value().to_vec()),
            flags: 0,
            time: None,
        }),
    }
}

pub fn same_rec(a: &Rec, b: &Rec) -> bool {
    let v = match (&a.value, &b.value) {
        (Value::Ana(x), Value::Ana(y)) => x.to_bits() == y.to_bits() || (x.is_nan() && y.is_nan()),
        (x, y) => x == y,
    };
    v && a.flags == b.flags && a.time == b.time
}

// ---------------------------------------------------------------------------------------------
// the reference: what a variation can carry

#[derive(Copy, Clone, Debug, PartialEq)]
enum Num {
    I32,
    I16,
    F32,
    F64,
    U32,
    U16,
}
#[derive(Copy, Clone, Debug, PartialEq)]
enum Tm {
    No,
    Abs,
    Rel,
}
#[derive(Copy, Clone, Debug)]
struct Shape {
    flags: bool,
    packed: bool,
    num: Option<Num>,
    tm: Tm,
}

/// shape of each measurement variation, from IEEE 1815 Annex A
fn shape(g: u8, v: u8) -> Option<Shape> {
    let s = |flags, packed, num, tm| {
        Some(Shape {
            flags,
            packed,
            num,
            tm,
        })
    };
    use Num::*;
    match (g, v) {
        (1, 1) | (3, 1) | (10, 1) => s(false, true, None, Tm::No),
        (1, 2) | (3, 2) | (10, 2) | (2, 1) | (4, 1) | (11, 1) => s(true, false, None, Tm::No),
        (2, 2) | (4, 2) | (11, 2) => s(true, false, None, Tm::Abs),
        (2, 3) | (4, 3) => s(true, false, None, Tm::Rel),
        (20, 1) | (21, 1) | (22, 1) | (23, 1) => s(true, false, Some(U32), Tm::No),
        (20, 2) | (21, 2) | (22, 2) | (23, 2) => s(true, false, Some(U16), Tm::No),
        (20, 5) | (21, 9) => s(false, false, Some(U32), Tm::No),
        (20, 6) | (21, 10) => s(false, false, Some(U16), Tm::No),
        (21, 5) | (22, 5) | (23, 5) => s(true, false, Some(U32), Tm::Abs),
        (21, 6) | (22, 6) | (23, 6) => s(true, false, Some(U16), Tm::Abs),
        (30, 1) | (32, 1) | (40, 1) | (42, 1) => s(true, false, Some(I32), Tm::No),
        (30, 2) | (32, 2) | (40, 2) | (42, 2) => s(true, false, Some(I16), Tm::No),
        (30, 3) => s(false, false, Some(I32), Tm::No),
        (30, 4) => s(false, false, Some(I16), Tm::No),
        (30, 5) | (32, 5) | (40, 3) | (42, 5) => s(true, false, Some(F32), Tm::No),
        (30, 6) | (32, 6) | (40, 4) | (42, 6) => s(true, false, Some(F64), Tm::No),
        (32, 3) | (42, 3) => s(true, false, Some(I32), Tm::Abs),
        (32, 4) | (42, 4) => s(true, false, Some(I16), Tm::Abs),
        (32, 7) | (42, 7) => s(true, false, Some(F32), Tm::Abs),
        (32, 8) | (42, 8) => s(true, false, Some(F64), Tm::Abs),
        _ => None,
    }
}

const OVER_RANGE: u8 = 0x20;
const ONLINE: u8 = 0x01;

/// state bits that carry the value on the wire for binary (bit 7) and double-bit (bits 7..6) points
fn state_mask(ty: u8) -> u8 {
    match ty {
        0 | 2 => 0x80,
        1 => 0xC0,
        _ => 0,
    }
}

/// compare what the handler received with what variation (g, v) can carry of `rec`; Ok(lossy?) or Err(description)
pub fn carry_check(ty: u8, g: u8, v: u8, rec: &Rec, got: &Item) -> Result<bool, String> {
    if ty == 7 {
        let Value::Oct(b) = &rec.value else {
            return Err("record is not an octet string".into());
        };
        if got.bytes != *b {
            return Err(format!(
                "octet string {:02x?} delivered as {:02x?}",
                b, got.bytes
            ));
        }
        if v as usize != b.len() {
            return Err(format!(
                "octet string of {} bytes reported in variation {}",
                b.len(),
                v
            ));
        }
        return Ok(false);
    }
    let sh = shape(g, v)
        .ok_or_else(|| format!("g{g}v{v} is not a measurement variation of this type"))?;
    let mut lossy = false;
    let sm = state_mask(ty);
    // ---- value and the flags that go with it
    let mut want_flags = rec.flags;
    match &rec.value {
        Value::Bool(b) => {
            if (got.value != 0.0) != *b {
                return Err(format!("value {} delivered as {}", b, got.value));
            }
        }
        Value::Dbl(d) => {
            if got.value != *d as f64 {
                return Err(format!("double-bit value {} delivered as {}", d, got.value));
            }
        }
        Value::Cnt(c) => {
            let want = match sh.num {
                Some(Num::U32) => *c,
                Some(Num::U16) => {
                    lossy |= *c > 0xFFFF;
                    *c & 0xFFFF
                }
                _ => return Err(format!("counter reported in g{g}v{v}")),
            };
            if got.value != want as f64 {
                return Err(format!(
                    "counter {} must arrive as {} in g{g}v{v}, arrived as {}",
                    c, want, got.value
                ));
            }
        }
        Value::Ana(x) => {
            let x = *x;
            let num = sh
                .num
                .ok_or_else(|| format!("analog reported in g{g}v{v}"))?;
            if x.is_nan() {
                // into a float variation NaN stays NaN
                match num {
                    Num::F32 | Num::F64 => {
                        if !got.value.is_nan() {
                            return Err(format!("NaN delivered as {} in g{g}v{v}", got.value));
                        }
                    }
                    _ => {
                        // an integer variation cannot represent NaN: whatever number is delivered, it must be flagged
                        // ("where a variation cannot ... flagged OVER_RANGE; a value is never silently ...")
                        // (a variation without a flag octet has no place for it, as for every out-of-range value)
                        lossy = true;
                        if sh.flags {
                            if got.flags & OVER_RANGE == 0 {
                                return Err(format!(
                                    "NaN delivered as {} in the integer variation g{g}v{v} without OVER_RANGE (flags {:#04x})",
                                    got.value, got.flags
                                ));
                            }
                            want_flags |= OVER_RANGE;
                        }
                    }
                }
            } else {
                match num {
                    Num::F64 => {
                        if got.value.to_bits() != x.to_bits() {
                            return Err(format!(
                                "{x:e} delivered as {:e} in a 64-bit float variation",
                                got.value
                            ));
                        }
                    }
                    Num::F32 => {
                        let max = f32::MAX as f64;
                        if x.is_infinite() {
                            // infinity is representable in binary32: either kept, or saturated and flagged
                            lossy = true;
                            let kept = got.value == x;
                            let sat = got.value == max.copysign(x);
                            if kept {
                            } else if sat {
                                want_flags |= OVER_RANGE;
                            } else {
                                return Err(format!(
                                    "{x} delivered as {:e} in g{g}v{v}",
                                    got.value
                                ));
                            }
                        } else if x.abs() > max {
                            lossy = true;
                            want_flags |= OVER_RANGE;
                            if got.value != max.copysign(x) {
                                return Err(format!(
                                    "{x:e} exceeds binary32: must saturate to {:e}, delivered {:e}",
                                    max.copysign(x),
                                    got.value
                                ));
                            }
                        } else {
                            lossy |= (x as f32) as f64 != x;
                            if got.value.to_bits() != ((x as f32) as f64).to_bits() {
                                return Err(format!(
                                    "{x:e} must arrive as {:e} in g{g}v{v}, arrived as {:e}",
                                    (x as f32) as f64,
                                    got.value
                                ));
                            }
                        }
                    }
                    Num::I32 | Num::I16 => {
                        let (lo, hi) = if num == Num::I32 {
                            (i32::MIN as f64, i32::MAX as f64)
                        } else {
                            (i16::MIN as f64, i16::MAX as f64)
                        };
                        let t = x.trunc();
                        lossy |= t != x;
                        if x.is_infinite() || t < lo || t > hi {
                            lossy = true;
                            want_flags |= OVER_RANGE;
                            let sat = if x < 0.0 { lo } else { hi };
                            if got.value != sat {
                                return Err(format!("{x:e} does not fit g{g}v{v}: must saturate to {sat}, delivered {}", got.value));
                            }
                        } else if x < lo || x > hi {
                            // a fraction beyond the last integer: truncated without a flag, or saturated with the flag
                            let sat = if x < 0.0 { lo } else { hi };
                            if got.value != sat {
                                return Err(format!(
                                    "{x:e} delivered as {} in g{g}v{v}",
                                    got.value
                                ));
                            }
                            if sh.flags && (got.flags & !sm) == ((rec.flags | OVER_RANGE) & !sm) {
                                want_flags |= OVER_RANGE;
                            }
                        } else {
                            let ok = got.value == x.floor() || got.value == x.ceil();
                            if !ok {
                                return Err(format!(
                                    "{x:e} delivered as {} in g{g}v{v}",
                                    got.value
                                ));
                            }
                        }
                    }
                    _ => return Err(format!("analog reported in counter variation g{g}v{v}")),
                }
            }
        }
        Value::Oct(_) => return Err("octet record for a non-octet type".into()),
    }
    // ---- flags
    if sh.packed {
        // packed formats only for plainly ONLINE points
        if rec.flags & !sm != ONLINE {
            return Err(format!(
                "packed variation g{g}v{v} used for a point whose flags are {:#04x}",
                rec.flags
            ));
        }
        if got.flags & !sm != ONLINE {
            return Err(format!(
                "packed variation delivered flags {:#04x}",
                got.flags
            ));
        }
    } else if sh.flags {
        if got.flags & !sm != want_flags & !sm {
            return Err(format!(
                "flags {:#04x} (expected {:#04x}) for value {:?} in g{g}v{v}",
                got.flags, want_flags, rec.value
            ));
        }
    } else {
        lossy |= rec.flags != ONLINE;
        if got.flags != ONLINE {
            return Err(format!(
                "variation g{g}v{v} has no flag octet: must deliver ONLINE, delivered {:#04x}",
                got.flags
            ));
        }
    }
    // ---- time
    match sh.tm {
        Tm::No => {
            lossy |= rec.time.is_some();
            if got.time.is_some() {
                return Err(format!(
                    "variation g{g}v{v} carries no time, delivered {:?}",
                    got.time
                ));
            }
        }
        Tm::Abs => match (rec.time, got.time) {
            (Some((ms, _)), Some((gms, _))) => {
                if ms != gms {
                    return Err(format!("time {ms} delivered as {gms} in g{g}v{v}"));
                }
            }
            (None, Some(_)) => {}
            (_, None) => return Err(format!("variation g{g}v{v} carries a time, none delivered")),
        },
        Tm::Rel => match (rec.time, got.time) {
            (Some(t), Some(gt)) => {
                if t != gt {
                    return Err(format!("event time {:?} reconstructed as {:?} from the common time of occurrence (g{g}v{v})", t, gt));
                }
            }
            (None, Some(_)) => {}
            (_, None) => {
                return Err(format!(
                    "relative-time variation g{g}v{v} delivered no time"
                ))
            }
        },
    }
    Ok(lossy)
}

// ---------------------------------------------------------------------------------------------

fn svar(ty: u8, k: Option<u8>) -> Option<u8> {
    if ty == 7 {
        return None;
    }
    k.map(|k| {
        let v = STATIC_VARS[ty as usize];
        v[k as usize % v.len()]
    })
}
fn evar(ty: u8, k: Option<u8>) -> Option<u8> {
    if ty == 7 {
        return None;
    }
    k.map(|k| {
        let v = EVENT_VARS[ty as usize];
        v[k as usize % v.len()]
    })
}

fn encode_request(reqs: &[Req]) -> Vec<u8> {
    let mut o = vec![];
    for r in reqs {
        match r {
            Req::Class0 => o.extend(ra::h_all(60, 1)),
            Req::Class(c) => o.extend(ra::h_all(60, 1 + (*c).clamp(1, 3))),
            Req::StaticAll(ty, k) => o.extend(ra::h_all(
                STATIC_GROUP[(*ty % 8) as usize],
                svar(*ty % 8, *k).unwrap_or(0),
            )),
            Req::StaticRange(ty, k, a, b) => {
                let (a, b) = (*a.min(b), *a.max(b));
                let (g, v) = (
                    STATIC_GROUP[(*ty % 8) as usize],
                    svar(*ty % 8, *k).unwrap_or(0),
                );
                if b > 255 {
                    o.extend(ra::h_range16(g, v, a, b, &[]));
                } else {
                    o.extend(ra::h_range8(g, v, a as u8, b as u8, &[]));
                }
            }
            Req::EventAll(ty, k) => o.extend(ra::h_all(
                EVENT_GROUP[(*ty % 8) as usize],
                evar(*ty % 8, *k).unwrap_or(0),
            )),
            Req::EventCount(ty, k, n) => {
                let (g, v) = (
                    EVENT_GROUP[(*ty % 8) as usize],
                    evar(*ty % 8, *k).unwrap_or(0),
                );
                if *n > 255 {
                    o.extend(ra::h_count16(g, v, *n, &[]));
                } else {
                    o.extend(ra::h_count8(g, v, *n as u8, &[]));
                }
            }
        }
    }
    o
}

struct Ev {
    id: u64,
    ty: u8,
    index: u16,
    class: u8,
    evar: u8,
    rec: Rec,
}

fn fail(out: &mut CaseOut, clause: &str, detail: String) {
    out.fail(Fail::new(clause, detail));
}

pub fn run_case(case: &Case) -> CaseOut {
    run_case_with(case, false)
}

/// `agreement`: also apply the C09 accept=>exact agreement to every fragment
pub fn run_case_with(case: &Case, agreement: bool) -> CaseOut {
    let mut out = CaseOut::default();
    ParseOptions::parse_zero_length_strings(false);
    let mut handle = DatabaseHandle::new(
        None,
        ClassZeroConfig::new(true, true, true, true, true, true, true, true),
        EventBufferConfig::all_types(400),
    );
    // ---- points
    let mut specs: BTreeMap<(u8, u16), PointSpec> = BTreeMap::new();
    let mut order: Vec<(u8, u16)> = vec![];
    let mut cur: BTreeMap<(u8, u16), Rec> = BTreeMap::new();
    handle.transaction(|db| {
        for p in &case.points {
            let mut p = p.clone();
            if p.class == 0 {
                p.class = 1;
            }
            if specs.contains_key(&(p.ty, p.index)) {
                continue;
            }
            if add_point(db, &p) {
                order.push((p.ty, p.index));
                if let Some(r) = current(db, p.ty, p.index) {
                    cur.insert((p.ty, p.index), r);
                }
                specs.insert((p.ty, p.index), p);
            }
        }
    });
    if order.is_empty() {
        return out;
    }
    // ---- updates
    let mut events: Vec<Ev> = vec![];
    let mut bad: Option<String> = None;
    handle.transaction(|db| {
        for u in &case.updates {
            let key = order[(u.point as usize * order.len()) >> 16];
            let spec = &specs[&key];
            let rec = rec_of(key.0, u);
            let mode = match u.mode % 3 {
                0 => EventMode::Detect,
                1 => EventMode::Force,
                _ => EventMode::Suppress,
            };
            let info = apply(
                db,
                key.0,
                key.1,
                &rec,
                UpdateOptions::new(u.update_static, mode),
            );
            let mut created = |id: u64| {
                events.push(Ev {
                    id,
                    ty: key.0,
                    index: key.1,
                    class: spec.class,
                    evar: spec.evar,
                    rec: rec.clone(),
                })
            };
            match info {
                UpdateInfo::NoPoint => {
                    bad = Some(format!(
                        "update of existing point {:?} returned NoPoint",
                        key
                    ))
                }
                UpdateInfo::NoEvent => {
                    if mode == EventMode::Force {
                        bad = Some(format!("forced update of {:?} created no event", key));
                    }
                }
                UpdateInfo::Created(id) => created(id),
                UpdateInfo::Overflow {
                    created: id,
                    discarded,
                } => {
                    created(id);
                    events.retain(|e| e.id != discarded);
                }
            }
            if mode == EventMode::Suppress
                && matches!(info, UpdateInfo::Created(_) | UpdateInfo::Overflow { .. })
            {
                bad = Some(format!("suppressed update of {:?} created an event", key));
            }
            if u.update_static {
                cur.insert(key, rec);
            }
            // Database::get tells the truth about the current value
            match (current(db, key.0, key.1), cur.get(&key)) {
                (Some(a), Some(b)) if same_rec(&a, b) => {}
                (a, b) => {
                    bad = Some(format!(
                        "Database::get of {:?} = {:?}, last static update = {:?}",
                        key, a, b
                    ))
                }
            }
        }
    });
    if let Some(b) = bad {
        fail(&mut out, "G-update-info", b);
        return out;
    }
    if !events.is_empty() {
        out.label("events");
    }

    // ---- produce fragments
    let objsize = (case.tx.clamp(249, 2048) as usize) - 4;
    let mut fragments: Vec<Vec<u8>> = vec![];
    let mut app = NullApp;
    let unsol_classes = case.unsol.map(|m| if m & 7 == 0 { 7 } else { m & 7 });
    let mut limited = false;
    // records written after the selection, per point
    let mut later: BTreeMap<(u8, u16), Vec<Rec>> = BTreeMap::new();
    if let Some(m) = unsol_classes {
        out.label("unsolicited");
        let classes = EventClasses::new(m & 1 != 0, m & 2 != 0, m & 4 != 0);
        for _ in 0..2000 {
            let mut buf = vec![0u8; objsize];
            let mut cursor = scursor::WriteCursor::new(&mut buf);
            let n = handle.write_unsolicited(classes, &mut cursor);
            if n == 0 {
                break;
            }
            let len = cursor.position();
            let mut f = vec![0xF0, 130, 0, 0];
            f.extend_from_slice(&buf[..len]);
            fragments.push(f);
            block_on_ready(handle.clear_written_events(&mut app));
        }
    } else {
        if !case.pre.is_empty() {
            // an abandoned READ: select, write the first fragment, never confirm, reset (what the session does on a
            // confirm timeout, a new request or a disconnect)
            let req = Fragment::request(0, func::READ, encode_request(&case.pre)).encode();
            if let Some(parsed) = ParsedFragment::parse(ParseOptions::default(), &req)
                .ok()
                .and_then(|p| p.to_request().ok())
                .and_then(|r| r.objects.ok())
            {
                let _ = handle.select(&parsed);
                let mut buf = vec![0u8; objsize];
                let mut cursor = scursor::WriteCursor::new(&mut buf);
                let _ = handle.write_response_headers(&mut cursor);
                handle.reset();
                out.label("abandoned_read_before");
            }
        }
        let req = Fragment::request(0, func::READ, encode_request(&case.reqs)).encode();
        let parsed = match ParsedFragment::parse(ParseOptions::default(), &req)
            .ok()
            .and_then(|p| p.to_request().ok())
            .and_then(|r| r.objects.ok())
        {
            Some(h) => h,
            None => {
                fail(
                    &mut out,
                    "G-request",
                    format!("library parser rejected the READ request {:02x?}", req),
                );
                return out;
            }
        };
        let iin2 = handle.select(&parsed);
        if iin2 != crate::app::Iin2::default() {
            fail(
                &mut out,
                "G-request",
                format!("READ request {:02x?} rejected with IIN2 {:?}", req, iin2),
            );
            return out;
        }
        limited = case.reqs.iter().any(|r| matches!(r, Req::EventCount(..)));
        // updates after the selection (they create events that are not part of this response)
        if !case.late.is_empty() {
            handle.transaction(|db| {
                for u in &case.late {
                    let key = order[(u.point as usize * order.len()) >> 16];
                    let rec = rec_of(key.0, u);
                    let _ = apply(
                        db,
                        key.0,
                        key.1,
                        &rec,
                        UpdateOptions::new(true, EventMode::Suppress),
                    );
                    later.entry(key).or_default().push(rec);
                }
            });
            out.label("late_updates");
        }
        let mut done = false;
        for _ in 0..5000 {
            let mut buf = vec![0u8; objsize];
            let mut cursor = scursor::WriteCursor::new(&mut buf);
            let info = handle.write_response_headers(&mut cursor);
            let len = cursor.position();
            let mut f = vec![0xC0, 129, 0, 0];
            f.extend_from_slice(&buf[..len]);
            fragments.push(f);
            block_on_ready(handle.clear_written_events(&mut app));
            if info.complete {
                done = true;
                break;
            }
            if len == 0 {
                fail(
                    &mut out,
                    "G-progress",
                    "an empty, incomplete response fragment was produced".into(),
                );
                return out;
            }
        }
        if !done {
            fail(
                &mut out,
                "G-progress",
                "response series did not complete in 5000 fragments".into(),
            );
            return out;
        }
    }
    if fragments.len() > 1 {
        out.label("multi_fragment");
    }

    // ---- master side
    let mut got: Vec<(u8, (u8, u8), bool, Item)> = vec![];
    for f in &fragments {
        // every byte must be accounted for by the reference walker, too
        if let Err(e) = ra::walk(f[1], &f[4..]) {
            fail(
                &mut out,
                "W-reference-walk",
                format!("reference walker rejects the fragment: {:?}; {:02x?}", e, f),
            );
            return out;
        }
        let resp = match ParsedFragment::parse(ParseOptions::default(), f)
            .ok()
            .and_then(|p| p.to_response().ok())
        {
            Some(r) => r,
            None => {
                fail(
                    &mut out,
                    "W-parse",
                    format!(
                        "library parser rejects the library's own fragment {:02x?}",
                        f
                    ),
                );
                return out;
            }
        };
        let objs = match resp.objects {
            Ok(o) => o,
            Err(e) => {
                fail(
                    &mut out,
                    "W-parse",
                    format!(
                        "library parser rejects the objects of its own fragment: {:?}; {:02x?}",
                        e, f
                    ),
                );
                return out;
            }
        };
        if agreement {
            if let Err(fl) = crate::verif::props::c09::agree(f[1], &f[4..], &objs) {
                out.fail(fl);
                return out;
            }
        }
        let mut h = RecHandler::default();
        extract_measurements_inner(objs, &mut h);
        for e in h.take() {
            if let HEv::Meas(ty, gv, is_event, _has_flags, items) = e {
                for it in items {
                    got.push((ty, gv, is_event, it));
                }
            }
        }
    }

    // ---- expected static deliveries: one per selecting header
    let mut want_static: BTreeMap<(u8, u16), Vec<Option<u8>>> = BTreeMap::new();
    if unsol_classes.is_none() {
        for r in &case.reqs {
            let mut sel = |ty: u8, lo: u16, hi: u16, v: Option<u8>| {
                for k in order.iter().filter(|k| k.0 == ty && k.1 >= lo && k.1 <= hi) {
                    want_static.entry(*k).or_default().push(v);
                }
            };
            match r {
                Req::Class0 => {
                    for ty in 0..8 {
                        sel(ty, 0, 65535, None);
                    }
                }
                Req::StaticAll(ty, k) => sel(*ty % 8, 0, 65535, svar(*ty % 8, *k)),
                Req::StaticRange(ty, k, a, b) => {
                    sel(*ty % 8, *a.min(b), *a.max(b), svar(*ty % 8, *k))
                }
                _ => {}
            }
        }
    }
    // selected events
    let selects_event = |e: &Ev| -> bool {
        if let Some(m) = unsol_classes {
            return m & (1 << (e.class - 1)) != 0;
        }
        case.reqs.iter().any(|r| match r {
            Req::Class(c) => (*c).clamp(1, 3) == e.class,
            Req::EventAll(ty, _) | Req::EventCount(ty, _, _) => *ty % 8 == e.ty,
            _ => false,
        })
    };
    let requested_evars = |ty: u8| -> Vec<u8> {
        if unsol_classes.is_some() {
            return vec![];
        }
        case.reqs
            .iter()
            .filter_map(|r| match r {
                Req::EventAll(t, k) | Req::EventCount(t, k, _) if *t % 8 == ty => evar(ty, *k),
                _ => None,
            })
            .collect()
    };

    // ---- compare
    let mut static_seen: BTreeMap<(u8, u16), Vec<u8>> = BTreeMap::new();
    let mut ev_pos: BTreeMap<(u8, u16), usize> = BTreeMap::new();
    let mut delivered_events = 0usize;
    for (ty, (g, v), is_event, item) in &got {
        let key = (*ty, item.index);
        let name = TYPE_NAMES.get(*ty as usize).copied().unwrap_or("?");
        if *ty > 7 {
            fail(
                &mut out,
                "V-fabricated",
                format!(
                    "handler received g{g}v{v} index {} of a type the database does not hold",
                    item.index
                ),
            );
            return out;
        }
        if *is_event {
            if *g != EVENT_GROUP[*ty as usize] {
                fail(
                    &mut out,
                    "V-cross-type",
                    format!("{name} event delivered from group {g}"),
                );
                return out;
            }
            // the k-th delivered event of a point is the k-th selected recorded event of that point
            let list: Vec<&Ev> = events
                .iter()
                .filter(|e| (e.ty, e.index) == key && selects_event(e))
                .collect();
            let k = ev_pos.entry(key).or_default();
            let Some(e) = list.get(*k) else {
                fail(&mut out, "V-fabricated", format!("{name} event #{} for index {} delivered but only {} were recorded and selected", *k + 1, item.index, list.len()));
                return out;
            };
            *k += 1;
            delivered_events += 1;
            let mut allowed = requested_evars(*ty);
            allowed.push(e.evar);
            if *ty != 7 && !allowed.contains(v) {
                fail(&mut out, "V-variation", format!("{name} event of index {} reported as g{g}v{v}; configured variation {}, requested {:?}", item.index, e.evar, requested_evars(*ty)));
                return out;
            }
            match carry_check(*ty, *g, *v, &e.rec, item) {
                Ok(lossy) => {
                    if lossy {
                        out.label("lossy_variation");
                    }
                    if shape(*g, *v).map(|s| s.tm == Tm::Rel).unwrap_or(false) {
                        out.label("relative_time");
                    }
                }
                Err(d) => {
                    fail(
                        &mut out,
                        "V-event-content",
                        format!("{name}[{}] event {:?} via g{g}v{v}: {d}", item.index, e.rec),
                    );
                    return out;
                }
            }
        } else {
            if *g != STATIC_GROUP[*ty as usize] {
                fail(
                    &mut out,
                    "V-cross-type",
                    format!("{name} static value delivered from group {g}"),
                );
                return out;
            }
            let Some(rec) = cur.get(&key) else {
                fail(
                    &mut out,
                    "V-fabricated",
                    format!(
                        "{name} index {} delivered but no such point exists",
                        item.index
                    ),
                );
                return out;
            };
            static_seen.entry(key).or_default().push(*v);
            let mut verdict = carry_check(*ty, *g, *v, rec, item);
            if verdict.is_err() {
                if let Some(l) = later.get(&key) {
                    if let Some(ok) = l
                        .iter()
                        .map(|r| carry_check(*ty, *g, *v, r, item))
                        .find(|r| r.is_ok())
                    {
                        verdict = ok;
                    }
                }
            }
            match verdict {
                Ok(lossy) => {
                    if lossy {
                        out.label("lossy_variation");
                    }
                    if shape(*g, *v).map(|s| s.packed).unwrap_or(false) {
                        out.label("packed");
                    }
                }
                Err(d) => {
                    fail(
                        &mut out,
                        "V-static-content",
                        format!("{name}[{}] current {:?} via g{g}v{v}: {d}", item.index, rec),
                    );
                    return out;
                }
            }
        }
    }
    // every selected point once per selecting header, in an admissible variation
    for (key, wants) in &want_static {
        let spec = &specs[key];
        let rec = &cur[key];
        let plain_online = rec.flags & !state_mask(key.0) == ONLINE;
        // base variation of each selecting header; a packed base may be promoted to the flagged variation (it must be
        // when the point is not plainly ONLINE - carry_check enforces that on every packed delivery)
        let mut bases: Vec<u8> = wants
            .iter()
            .map(|w| {
                if key.0 == 7 {
                    return match &rec.value {
                        Value::Oct(b) => b.len() as u8,
                        _ => 0,
                    };
                }
                w.unwrap_or(spec.svar)
            })
            .collect();
        if key.0 <= 2 && !plain_online && bases.contains(&1) {
            out.label("promoted");
        }
        let seen = static_seen.remove(key).unwrap_or_default();
        let all_bases = bases.clone();
        let mut ok = seen.len() == bases.len();
        for v in &seen {
            if let Some(i) = bases.iter().position(|b| b == v) {
                bases.remove(i);
            } else if let Some(i) = bases.iter().position(|b| key.0 <= 2 && *b == 1 && *v == 2) {
                bases.remove(i);
            } else {
                ok = false;
            }
        }
        if later.contains_key(key) && seen.len() == wants.len() {
            // the point changed after the selection: which of its states decides the promotion is C11's business
            continue;
        }
        if !ok {
            fail(&mut out, "V-static-once", format!("{}[{}] selected by {} header(s) with base variations {:?}: delivered variations {:?} (configured v{}, flags {:#04x})", TYPE_NAMES[key.0 as usize], key.1, wants.len(), all_bases, seen, spec.svar, rec.flags));
            return out;
        }
    }
    if let Some((key, v)) = static_seen.iter().next() {
        fail(
            &mut out,
            "V-static-once",
            format!(
                "{}[{}] delivered {:?} although no request header selects it",
                TYPE_NAMES[key.0 as usize], key.1, v
            ),
        );
        return out;
    }
    // every selected event delivered (when no count limit truncates the selection)
    if !limited {
        for e in events.iter().filter(|e| selects_event(e)) {
            let n = events
                .iter()
                .filter(|x| (x.ty, x.index) == (e.ty, e.index) && selects_event(x))
                .count();
            let d = ev_pos.get(&(e.ty, e.index)).copied().unwrap_or(0);
            if d != n {
                fail(
                    &mut out,
                    "V-event-once",
                    format!(
                        "{}[{}]: {} selected events recorded, {} delivered",
                        TYPE_NAMES[e.ty as usize], e.index, n, d
                    ),
                );
                return out;
            }
        }
    }
    if delivered_events > 0 {
        out.label("events_delivered");
    }
    let any_nontrivial = out
        .labels
        .iter()
        .any(|l| l == "lossy_variation" || l == "relative_time" || l == "promoted");
    let flagged = cur.values().any(|r| r.flags != ONLINE)
        || events
            .iter()
            .any(|e| e.rec.flags != ONLINE || e.rec.time.is_some());
    out.nontrivial = !got.is_empty() && (any_nontrivial || flagged);
    out
}

// ---------------------------------------------------------------------------------------------
// generators

fn analog_bits() -> BoxedStrategy<u64> {
    let b: Vec<f64> = vec![
        0.0,
        -0.0,
        1.0,
        -1.0,
        0.5,
        -0.5,
        0.1,
        32767.0,
        32768.0,
        32769.0,
        32767.5,
        -32767.0,
        -32768.0,
        -32769.0,
        -32768.5,
        2147483647.0,
        2147483648.0,
        2147483649.0,
        2147483647.5,
        -2147483648.0,
        -2147483649.0,
        -2147483648.5,
        16777217.0,
        f32::MAX as f64,
        -(f32::MAX as f64),
        f64::from_bits((f32::MAX as f64).to_bits() + 1),
        -f64::from_bits((f32::MAX as f64).to_bits() + 1),
        (f32::MAX as f64) * 2.0,
        f32::MIN_POSITIVE as f64,
        1e-40,
        5e-324,
        f64::MAX,
        f64::MIN,
        f64::INFINITY,
        f64::NEG_INFINITY,
        f64::NAN,
        4294967296.0,
        -4294967296.0,
        65536.0,
        -65536.0,
        1e300,
        -1e300,
    ];
    prop_oneof![
        4 => proptest::sample::select(b).prop_map(|x| x.to_bits()),
        2 => (-40000i32..40000).prop_map(|x| (x as f64).to_bits()),
        1 => (-40000i32..40000, 1u32..1000).prop_map(|(x, f)| (x as f64 + f as f64 / 1000.0).to_bits()),
        1 => any::<i32>().prop_map(|x| (x as f64 * 1.5).to_bits()),
        1 => any::<f32>().prop_map(|x| (x as f64).to_bits()),
        1 => any::<u64>(),
    ]
    .boxed()
}

fn counter_val() -> BoxedStrategy<u32> {
    prop_oneof![
        3 => proptest::sample::select(vec![0u32, 1, 2, 3, 65535, 65536, 65537, 0x8000, 0x7FFF_FFFF, 0x8000_0000, u32::MAX, u32::MAX - 1, 0x0001_0000, 0xFFFF_0000, 0x1234_5678]),
        1 => any::<u32>(),
        1 => 0u32..70000,
    ]
    .boxed()
}

const T48: u64 = 0x0000_FFFF_FFFF_FFFF;

fn time_val() -> BoxedStrategy<Option<(u64, bool)>> {
    let ms = prop_oneof![
        1 => proptest::sample::select(vec![0u64, 1, 65535, 65536, T48, T48 - 1, T48 - 65535, T48 - 65536]),
        5 => (0u64..140_000).prop_map(|d| 1_000_000 + d),
        1 => (0u64..70_000).prop_map(|d| T48 - d),
        1 => (0u64..70_000),
        1 => any::<u64>().prop_map(|x| x & T48),
    ];
    prop_oneof![
        1 => Just(None),
        6 => (ms, prop_oneof![3 => Just(true), 1 => Just(false)]).prop_map(Some),
    ]
    .boxed()
}

fn flags_val() -> BoxedStrategy<u8> {
    prop_oneof![2 => Just(0x01u8), 1 => Just(0x81u8), 1 => Just(0x41u8), 1 => Just(0x00u8), 1 => Just(0x02u8), 1 => Just(0x21u8), 3 => any::<u8>()].boxed()
}

fn index_val() -> BoxedStrategy<u16> {
    prop_oneof![
        4 => 0u16..6,
        2 => proptest::sample::select(vec![254u16, 255, 256, 257, 65534, 65535, 7, 8, 9, 15, 16, 17]),
        1 => any::<u16>(),
    ]
    .boxed()
}

fn point() -> impl Strategy<Value = PointSpec> {
    (0u8..8, index_val(), 1u8..=3, any::<u8>(), any::<u8>()).prop_map(|(ty, index, class, s, e)| {
        let sv = STATIC_VARS[ty as usize];
        let ev = EVENT_VARS[ty as usize];
        PointSpec {
            ty,
            index,
            class,
            svar: sv[s as usize % sv.len()],
            evar: ev[e as usize % ev.len()],
        }
    })
}

fn upd() -> impl Strategy<Value = Upd> {
    (
        any::<u16>(),
        analog_bits(),
        counter_val(),
        proptest::collection::vec(any::<u8>(), 0..6),
        flags_val(),
        time_val(),
        prop_oneof![2 => Just(0u8), 3 => Just(1u8), 1 => Just(2u8)],
        prop_oneof![5 => Just(true), 1 => Just(false)],
    )
        .prop_map(
            |(point, a, c, bytes, flags, time, mode, update_static)| Upd {
                point,
                a,
                c,
                bytes,
                flags,
                time,
                mode,
                update_static,
            },
        )
}

fn req() -> impl Strategy<Value = Req> {
    let k = || proptest::option::weighted(0.7, any::<u8>());
    prop_oneof![
        2 => Just(Req::Class0),
        3 => (1u8..=3).prop_map(Req::Class),
        3 => (0u8..8, k()).prop_map(|(t, k)| Req::StaticAll(t, k)),
        2 => (0u8..8, k(), index_val(), index_val()).prop_map(|(t, k, a, b)| Req::StaticRange(t, k, a, b)),
        3 => (0u8..8, k()).prop_map(|(t, k)| Req::EventAll(t, k)),
        1 => (0u8..8, k(), prop_oneof![0u16..6, Just(255u16), Just(256u16), Just(65535u16)]).prop_map(|(t, k, n)| Req::EventCount(t, k, n)),
    ]
}

fn case_strategy(tier: Tier) -> BoxedStrategy<Case> {
    let (np, nu) = match tier {
        Tier::Quick => (12, 40),
        Tier::Thorough => (24, 80),
    };
    (
        proptest::collection::vec(point(), 1..np),
        proptest::collection::vec(upd(), 0..nu),
        proptest::collection::vec(req(), 1..5),
        proptest::option::weighted(0.2, 1u8..8),
        prop_oneof![2 => Just(2048u16), 3 => Just(249u16), 1 => Just(292u16), 2 => 249u16..=2048],
        prop_oneof![3 => Just(vec![]), 2 => proptest::collection::vec(req(), 1..4)],
        prop_oneof![3 => Just(vec![]), 1 => proptest::collection::vec(upd(), 1..8)],
    )
        .prop_map(|(points, updates, reqs, unsol, tx, pre, late)| Case {
            points,
            updates,
            reqs,
            unsol,
            tx,
            pre,
            late,
        })
        .boxed()
}

pub struct Trip;
impl Prop for Trip {
    type Case = Case;
    const ID: &'static str = "C10";
    const NAME: &'static str = "trip";
    fn rule() -> &'static str {
        "generated databases (8 point types, every configurable static/event variation, indices incl. 0/255/256/65535), update sequences (boundary analog values incl. NaN/inf/i16/i32/f32 limits and fractions, counters around 2^16/2^32, every flag octet, 48-bit times sync/unsync incl. gaps around 65535 ms and decreasing, Detect/Force/Suppress, update_static on/off) read by class 0, event classes, type/variation (all, range, count-limited) or reported unsolicited into 249..2048-byte fragments; each fragment goes through ParsedFragment::parse and extract_measurements_inner into a recording ReadHandler; every delivered (index, value, flags, time) is compared with the reference carry(variation, record); every selected point must arrive once per selecting header in an admissible variation, every selected event once and in order; non-trivial = something delivered and (a lossy variation, a relative-time variation, a promoted packed variation, flags != ONLINE or a time present)"
    }
    fn strategy(tier: Tier) -> BoxedStrategy<Case> {
        case_strategy(tier)
    }
    fn cases(tier: Tier) -> u32 {
        match tier {
            Tier::Quick => 400_000,
            Tier::Thorough => 6_000_000,
        }
    }
    fn run(case: &Case) -> CaseOut {
        run_case(case)
    }
    fn floors() -> Vec<(&'static str, u32)> {
        vec![
            ("lossy_variation", 100),
            ("relative_time", 20),
            ("promoted", 20),
            ("events_delivered", 200),
            ("multi_fragment", 5),
        ]
    }
}

pub fn run<C: Codec>(tier: Tier) -> i32 {
    let mut ctx = Ctx::<C>::new("C10", tier);
    ctx.assumptions.push("trusted base: the carry() reference in harness/props/c10.rs (variation shapes from IEEE 1815 Annex A), the reference header walker; UpdateInfo is trusted to say whether an update created an event (C03 owns event loss)".into());
    ctx.assumptions.push("not asserted: the number delivered for NaN in an integer variation (it must be flagged OVER_RANGE); the time delivered for a record without time in a time-carrying variation; the sync quality delivered by absolute-time variations; state bits of user flags that contradict the value; +-infinity into a 32-bit float variation may be kept or saturated+flagged".into());
    ctx.run::<Trip>();
    ctx.finish()
}

pub fn replay<C: Codec>(text: &str, known: &[Known]) -> Option<i32> {
    replay_file::<C, Trip>(text, known)
}
