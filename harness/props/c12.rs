//! C12 — outstation replies are well-formed, correlated, bounded, and report rejections
use crate::app::parse::options::ParseOptions;
use crate::app::parse::parser::ParsedFragment;
use crate::verif::engine::*;
use crate::verif::props::ost::*;
use crate::verif::rig::outstation::*;
use crate::verif::rig::runtime;
use crate::verif::wire::app::{self as ra, func, iin2, Fragment, WalkErr};
use proptest::prelude::*;
use serde::{Deserialize, Serialize};

#[derive(Clone, Debug, Serialize, Deserialize, PartialEq)]
pub enum HKind {
    Acceptable,
    WrongForFunction,
    UnknownObject,
    UnknownQualifier,
    Truncated,
    /// (READ only) 66 well-formed, readable headers: more than the 64 the outstation promises to process
    /// ("Requesting more than this number will result in the PARAMETER_ERROR IIN bit being set in the response")
    Many,
}

#[derive(Clone, Debug, Serialize, Deserialize)]
pub struct HSpec {
    pub kind: HKind,
    pub pick: u8,
    /// number of objects for headers that take a count
    pub n: u8,
}

#[derive(Clone, Debug, Serialize, Deserialize)]
pub struct Req {
    pub func: u8,
    pub fir: bool,
    pub fin: bool,
    pub con: bool,
    pub uns: bool,
    pub seq: u8,
    pub headers: Vec<HSpec>,
}

#[derive(Clone, Debug, Serialize, Deserialize, PartialEq)]
pub enum State {
    Idle,
    SolWait,
    UnsolWaitNull,
    UnsolWaitData,
}

#[derive(Clone, Debug, Serialize, Deserialize)]
pub struct Case {
    pub sol_tx: u16,
    pub unsol_tx: u16,
    pub unsolicited: bool,
    pub state: State,
    pub decode: u8,
    pub reqs: Vec<Req>,
}

const NO_REPLY_FUNCS: [u8; 5] = [0, 6, 8, 10, 12];

fn crob_objs(n: u8) -> Vec<(u8, Vec<u8>)> {
    (0..n.max(1))
        .map(|i| (i % 4, ra::crob(3, 1, 100, 100, 0)))
        .collect()
}

/// headers the function accepts (per the function table of IEEE 1815 and the outstation's documented support)
fn acceptable(func_code: u8, pick: u8, n: u8) -> Option<Vec<u8>> {
    let n = n.max(1);
    Some(match func_code {
        func::READ => match pick % 7 {
            0 => ra::h_all(60, 1),
            1 => ra::h_all(60, 2 + (n % 3)),
            2 => ra::h_all(1, 0),
            3 => ra::h_all(30, 0),
            4 => ra::h_range8(1, 2, 0, n % 6, &[]),
            5 => ra::h_count8(2, 0, n, &[]),
            _ => ra::h_count8(60, 2, n, &[]),
        },
        func::WRITE => match pick % 3 {
            0 => ra::h_range8(80, 1, 7, 7, &[0x00]),
            1 => ra::h_count8(50, 1, 1, &ra::u48(1_700_000_000_000)),
            _ => ra::h_prefixed8(34, 1, &[(0, vec![5, 0])]),
        },
        func::SELECT | func::OPERATE | func::DIRECT_OPERATE | func::DIRECT_OPERATE_NR => {
            match pick % 3 {
                0 | 1 => ra::h_prefixed8(12, 1, &crob_objs(n)),
                _ => ra::h_prefixed8(
                    41,
                    2,
                    &(0..n).map(|i| (i % 4, vec![i, 0, 0])).collect::<Vec<_>>(),
                ),
            }
        }
        func::IMMED_FREEZE | func::IMMED_FREEZE_NR | func::FREEZE_CLEAR | func::FREEZE_CLEAR_NR => {
            match pick % 2 {
                0 => ra::h_all(20, 0),
                _ => ra::h_range8(20, 0, 0, n % 4, &[]),
            }
        }
        func::ENABLE_UNSOLICITED | func::DISABLE_UNSOLICITED => ra::h_all(60, 2 + pick % 3),
        _ => return None,
    })
}

/// well-formed headers that the function cannot take and must therefore reject
fn wrong_for_function(func_code: u8, pick: u8) -> Option<Vec<u8>> {
    Some(match func_code {
        // well-formed, known objects that cannot be read (the parser accepts them, the READ handler cannot serve them)
        func::READ => match pick % 2 {
            0 => ra::h_prefixed8(41, 2, &[(0, vec![1, 0, 0])]),
            _ => ra::h_prefixed8(12, 1, &crob_objs(1)),
        },
        func::WRITE => match pick % 4 {
            0 => ra::h_range8(1, 2, 0, 0, &[0x01]),
            1 => ra::h_range8(30, 2, 0, 0, &[0x01, 5, 0]),
            2 => ra::h_all(60, 2),
            _ => ra::h_prefixed8(12, 1, &crob_objs(1)),
        },
        func::SELECT | func::OPERATE | func::DIRECT_OPERATE | func::DIRECT_OPERATE_NR => {
            match pick % 3 {
                0 => ra::h_range8(1, 2, 0, 0, &[0x01]),
                1 => ra::h_all(60, 1),
                _ => ra::h_count8(50, 1, 1, &ra::u48(5)),
            }
        }
        func::IMMED_FREEZE
        | func::FREEZE_CLEAR
        | func::FREEZE_AT_TIME
        | func::IMMED_FREEZE_NR
        | func::FREEZE_CLEAR_NR
        | func::FREEZE_AT_TIME_NR => match pick % 3 {
            0 => ra::h_all(30, 0),
            1 => ra::h_all(1, 0),
            _ => ra::h_all(60, 1),
        },
        func::ENABLE_UNSOLICITED | func::DISABLE_UNSOLICITED => match pick % 3 {
            0 => ra::h_all(60, 1),
            1 => ra::h_all(1, 0),
            _ => ra::h_all(30, 0),
        },
        func::COLD_RESTART
        | func::WARM_RESTART
        | func::DELAY_MEASURE
        | func::RECORD_CURRENT_TIME => ra::h_all(60, 1),
        _ => return None,
    })
}

fn build_header(func_code: u8, h: &HSpec) -> (Vec<u8>, HKind) {
    match h.kind {
        HKind::Acceptable => match acceptable(func_code, h.pick, h.n) {
            Some(b) => (b, HKind::Acceptable),
            None => (vec![], HKind::Acceptable),
        },
        HKind::WrongForFunction => match wrong_for_function(func_code, h.pick) {
            Some(b) => (b, HKind::WrongForFunction),
            None => (vec![], HKind::Acceptable),
        },
        HKind::Many => {
            if func_code == func::READ {
                let mut b = vec![];
                for k in 0..66u8 {
                    b.extend(ra::h_range8(1, 2, k % 6, k % 6, &[]));
                }
                (b, HKind::Many)
            } else {
                match acceptable(func_code, h.pick, h.n) {
                    Some(b) => (b, HKind::Acceptable),
                    None => (vec![], HKind::Acceptable),
                }
            }
        }
        HKind::UnknownObject => {
            let gv: [(u8, u8); 6] = [(5, 1), (99, 0), (1, 9), (30, 77), (255, 255), (60, 9)];
            let (g, v) = gv[h.pick as usize % gv.len()];
            (vec![g, v, 0x06], HKind::UnknownObject)
        }
        HKind::UnknownQualifier => {
            let qs = [0x02u8, 0x09, 0x2F, 0x5C, 0x80, 0xFF, 0x18];
            (
                vec![1, 2, qs[h.pick as usize % qs.len()], 0, 0],
                HKind::UnknownQualifier,
            )
        }
        HKind::Truncated => {
            // a header whose declared objects are missing
            let b = match h.pick % 4 {
                0 => vec![12, 1, 0x17, 2, 0, 3, 1],
                1 => vec![1, 2, 0x00, 0],
                2 => vec![50, 1, 0x07, 1, 1, 2],
                _ => vec![60],
            };
            (b, HKind::Truncated)
        }
    }
}

fn is_known_function(f: u8) -> bool {
    f <= 33 || f == 129 || f == 130
}

fn executes(f: u8) -> bool {
    matches!(f, 1..=14 | 20 | 21 | 23 | 24)
}

pub struct Replies;

impl Prop for Replies {
    type Case = Case;
    const ID: &'static str = "C12";
    const NAME: &'static str = "replies";
    fn rule() -> &'static str {
        "requests with every function code 0..=255 x header-flag combinations x sequence numbers x 0..=4 object headers of kinds {acceptable for the function, well-formed but not acceptable for it, unknown object, unknown qualifier, truncated}, object counts up to 120 (echo larger than a small tx buffer), sent in idle / solicited confirm wait / unsolicited confirm wait (null and data), tx buffers 249..=2048; oracle on every transmitted fragment: solicited => FIR seq == request seq (series: +1 per confirmed fragment), UNS clear; unsolicited => UNS FIR FIN CON, numbering +1 per new response, retries byte-identical; length <= configured tx size; parses cleanly with the library parser AND the reference walker; no solicited reply to an acceptable CONFIRM / no-ack function; unsupported, malformed or partly unacceptable requests get a reply with an IIN2 error bit; non-trivial = >= 2 headers of mixed acceptability, or a no-reply function, or an echo that cannot fit the tx buffer, or a request outside idle"
    }
    fn cases(tier: Tier) -> u32 {
        match tier {
            Tier::Quick => 200_000,
            Tier::Thorough => 8_000_000,
        }
    }
    fn floors() -> Vec<(&'static str, u32)> {
        vec![
            ("mixed_headers", 40),
            ("no_reply_function", 30),
            ("state:SolWait", 40),
            ("state:UnsolWaitData", 20),
            ("state:UnsolWaitNull", 20),
            ("echo_exceeds_tx", 2),
        ]
    }
    fn strategy(_tier: Tier) -> BoxedStrategy<Case> {
        let kind = prop_oneof![
            6 => Just(HKind::Acceptable),
            2 => Just(HKind::WrongForFunction),
            1 => Just(HKind::UnknownObject),
            1 => Just(HKind::UnknownQualifier),
            1 => Just(HKind::Truncated),
            1 => Just(HKind::Many),
        ];
        let hspec = (kind, any::<u8>(), prop_oneof![4 => 1u8..4, 1 => 1u8..=120])
            .prop_map(|(kind, pick, n)| HSpec { kind, pick, n });
        let function = prop_oneof![
            8 => prop_oneof![Just(1u8), Just(2), Just(3), Just(4), Just(5), Just(6), Just(7), Just(8), Just(9), Just(10), Just(11), Just(12), Just(13), Just(14), Just(20), Just(21), Just(23), Just(24), Just(0)],
            1 => 15u8..=33,
            1 => any::<u8>(),
        ];
        let flags = prop_oneof![
            8 => Just((true, true, false, false)),
            1 => (any::<bool>(), any::<bool>(), any::<bool>(), any::<bool>()),
        ];
        let req = (
            function,
            flags,
            0u8..16,
            proptest::collection::vec(hspec, 0..=4),
        )
            .prop_map(|(func, (fir, fin, con, uns), seq, headers)| Req {
                func,
                fir,
                fin,
                con,
                uns,
                seq,
                headers,
            });
        let state = prop_oneof![3 => Just(State::Idle), 2 => Just(State::SolWait), 1 => Just(State::UnsolWaitNull), 1 => Just(State::UnsolWaitData)];
        (
            prop_oneof![3 => Just(249u16), 1 => Just(300u16), 1 => Just(2048u16), 2 => 249u16..=2048],
            prop_oneof![Just(249u16), Just(2048), 249u16..=2048],
            any::<bool>(),
            state,
            0u8..4,
            proptest::collection::vec(req, 1..=3),
        )
            .prop_map(|(sol_tx, unsol_tx, unsolicited, state, decode, reqs)| {
                let unsolicited = unsolicited || matches!(state, State::UnsolWaitNull | State::UnsolWaitData);
                Case { sol_tx, unsol_tx, unsolicited, state, decode, reqs }
            })
            .boxed()
    }
    fn run(case: &Case) -> CaseOut {
        let rt = runtime();
        rt.block_on(run_case(case))
    }
}

struct Checker<'a> {
    case: &'a Case,
    out: CaseOut,
    last_unsol: Option<Vec<u8>>,
    /// the solicited fragment most recently received, and whether the harness confirmed it
    last_sol: Option<(Fragment, bool)>,
}

impl<'a> Checker<'a> {
    /// check every fragment the outstation transmitted; `req_seq` = sequence of the request now being answered
    fn check(&mut self, tx: Vec<Tx>, req_seq: Option<u8>) -> Vec<Fragment> {
        let mut frags = vec![];
        for t in tx {
            match t {
                Tx::Garbage { why, .. } => self.out.fail(Fail::new("malformed-transmission", why)),
                Tx::Link { .. } => {}
                Tx::Fragment { bytes, dst, .. } => {
                    if dst != MASTER_ADDR {
                        self.out.fail(Fail::new(
                            "wrong-destination",
                            format!("fragment sent to link address {dst}"),
                        ));
                    }
                    // (e) parses cleanly: library parser and reference walker
                    let lib_ok = match ParsedFragment::parse(ParseOptions::default(), &bytes) {
                        Ok(p) => p.objects.is_ok() && p.to_response().is_ok(),
                        Err(_) => false,
                    };
                    if !lib_ok {
                        self.out.fail(Fail::new(
                            "reply-does-not-parse",
                            format!(
                                "the library's own parser rejects the transmitted fragment {:02x?}",
                                &bytes[..bytes.len().min(40)]
                            ),
                        ));
                    }
                    let f = match Fragment::parse(&bytes) {
                        Some(f) => f,
                        None => {
                            self.out.fail(Fail::new(
                                "reply-does-not-parse",
                                "fragment shorter than an application response header",
                            ));
                            continue;
                        }
                    };
                    match f.headers() {
                        Ok(_) => {}
                        Err(WalkErr::Undefined(..)) => self.out.label("reference_abstains"),
                        Err(e) => self.out.fail(Fail::new(
                            "reply-does-not-parse",
                            format!(
                                "reference walker: {:?} on {:02x?}",
                                e,
                                &bytes[..bytes.len().min(60)]
                            ),
                        )),
                    }
                    match f.func {
                        func::RESPONSE => {
                            if f.uns {
                                self.out.fail(Fail::new(
                                    "solicited-with-uns",
                                    "solicited response with the UNS bit",
                                ));
                            }
                            if bytes.len() > self.case.sol_tx as usize {
                                self.out.fail(Fail::new(
                                    "reply-exceeds-tx-size",
                                    format!(
                                        "solicited response of {} bytes, configured {}",
                                        bytes.len(),
                                        self.case.sol_tx
                                    ),
                                ));
                            }
                            let ok = if f.fir {
                                req_seq == Some(f.seq)
                            } else {
                                match &self.last_sol {
                                    Some((prev, confirmed)) => {
                                        !prev.fin && *confirmed && f.seq == (prev.seq + 1) & 0x0F
                                    }
                                    None => false,
                                }
                            };
                            if !ok {
                                self.out.fail(Fail::new(
                                    "solicited-sequence",
                                    format!("solicited response fir={} seq={} does not answer the outstanding request (seq {:?}) nor continue a confirmed series", f.fir, f.seq, req_seq),
                                ));
                            }
                            self.last_sol = Some((f.clone(), false));
                        }
                        func::UNSOLICITED_RESPONSE => {
                            if !(f.uns && f.fir && f.fin && f.con) {
                                self.out.fail(Fail::new(
                                    "unsolicited-flags",
                                    format!(
                                        "unsolicited response with uns={} fir={} fin={} con={}",
                                        f.uns, f.fir, f.fin, f.con
                                    ),
                                ));
                            }
                            if bytes.len() > self.case.unsol_tx as usize {
                                self.out.fail(Fail::new(
                                    "reply-exceeds-tx-size",
                                    format!(
                                        "unsolicited response of {} bytes, configured {}",
                                        bytes.len(),
                                        self.case.unsol_tx
                                    ),
                                ));
                            }
                            if let Some(prev) = &self.last_unsol {
                                let prev_seq = prev[0] & 0x0F;
                                let retry = *prev == bytes;
                                let next = f.seq == (prev_seq + 1) & 0x0F;
                                if !(retry || next) {
                                    self.out.fail(Fail::new(
                                        "unsolicited-numbering",
                                        format!("unsolicited seq {} after {}: neither an identical retry nor the next number", f.seq, prev_seq),
                                    ));
                                }
                            }
                            self.last_unsol = Some(bytes.clone());
                        }
                        other => self.out.fail(Fail::new(
                            "response-function",
                            format!("transmitted fragment with function {other}"),
                        )),
                    }
                    frags.push(f);
                }
            }
        }
        frags
    }
}

async fn run_case(case: &Case) -> CaseOut {
    let mut cfg = OutConfig::default();
    cfg.sol_tx = case.sol_tx;
    cfg.unsol_tx = case.unsol_tx;
    cfg.unsolicited = case.unsolicited;
    cfg.confirm_timeout_ms = 100;
    cfg.select_timeout_ms = 1000;
    cfg.max_unsol_retries = Some(1);
    cfg.unsol_retry_delay_ms = 150;
    cfg.decode = [case.decode, 0, 0, 0];
    cfg.event_buffer = [20; 8];
    let mut rig = OutRig::start(cfg, AppBehaviour::default()).await;
    let mut points = vec![];
    for i in 0..6u16 {
        points.push(PointSpec {
            ty: 0,
            index: i,
            class: 1,
            svar: 2,
            evar: 2,
        });
        points.push(PointSpec {
            ty: 5,
            index: i,
            class: 2,
            svar: 1,
            evar: 1,
        });
        points.push(PointSpec {
            ty: 3,
            index: i,
            class: 3,
            svar: 1,
            evar: 1,
        });
        points.push(PointSpec {
            ty: 2,
            index: i,
            class: 1,
            svar: 2,
            evar: 1,
        });
        points.push(PointSpec {
            ty: 6,
            index: i,
            class: 2,
            svar: 1,
            evar: 1,
        });
    }
    rig.db(|db| {
        for p in &points {
            add_point(db, p);
        }
    });
    let mut ck = Checker {
        case,
        out: CaseOut::default(),
        last_unsol: None,
        last_sol: None,
    };
    ck.out.label(format!("state:{:?}", case.state));
    let mut serial = 0u32;
    let mut make_events = |rig: &OutRig, n: u32| {
        rig.db(|db| {
            for k in 0..n {
                serial += 1;
                let r = unique_rec(
                    if k % 2 == 0 { 0 } else { 5 },
                    (k % 6) as u16,
                    serial,
                    serial,
                    0,
                );
                update_point(
                    db,
                    &r,
                    crate::outstation::database::UpdateOptions::detect_event(),
                );
            }
        });
    };

    // bring the session into the requested state
    rig.settle().await;
    let tx = rig.take_tx();
    let startup = ck.check(tx, None);
    if case.unsolicited {
        let null = startup
            .iter()
            .rev()
            .find(|f| f.func == func::UNSOLICITED_RESPONSE)
            .cloned();
        match (&case.state, null) {
            (State::UnsolWaitNull, _) => {}
            (_, Some(n)) => {
                rig.send(&Fragment::confirm(n.seq, true));
                rig.settle().await;
            }
            (_, None) => ck.out.fail(Fail::new(
                "no-null-unsolicited",
                "unsolicited enabled but no null unsolicited response at start-up",
            )),
        }
    }
    match case.state {
        State::SolWait => {
            make_events(&rig, 4);
            rig.send(&read_classes(9, &[1, 2, 3]));
            rig.settle().await;
            let tx = rig.take_tx();
            let f = ck.check(tx, Some(9));
            if !f.iter().any(|f| f.func == func::RESPONSE && f.con) {
                ck.out.label("setup_failed");
            }
        }
        State::UnsolWaitData => {
            rig.send(&enable_unsol(9, true, &[1, 2, 3]));
            rig.settle().await;
            let tx = rig.take_tx();
            ck.check(tx, Some(9));
            make_events(&rig, 3);
            rig.settle().await;
            let tx = rig.take_tx();
            let f = ck.check(tx, None);
            if !f
                .iter()
                .any(|f| f.func == func::UNSOLICITED_RESPONSE && !f.objects.is_empty())
            {
                ck.out.label("setup_failed");
            }
        }
        _ => {}
    }

    for (ri, req) in case.reqs.iter().enumerate() {
        if rig.task_failure.is_some() || ck.out.failed() {
            break;
        }
        let mut objects = vec![];
        let mut kinds = vec![];
        // a truncated header is only truncated if nothing follows it: such headers go last (at most one is kept)
        let mut ordered: Vec<&HSpec> = req
            .headers
            .iter()
            .filter(|h| h.kind != HKind::Truncated)
            .collect();
        if let Some(t) = req.headers.iter().find(|h| h.kind == HKind::Truncated) {
            ordered.push(t);
        }
        for h in ordered {
            let (b, k) = build_header(req.func, h);
            if !b.is_empty() {
                objects.extend(b);
                kinds.push(k);
            }
        }
        let frag = Fragment {
            fir: req.fir,
            fin: req.fin,
            con: req.con,
            uns: req.uns,
            seq: req.seq,
            func: req.func,
            iin: None,
            objects,
        };
        let bytes = frag.encode();
        if bytes.len() > 2048 {
            continue;
        }
        let bad_headers = kinds.iter().filter(|k| **k != HKind::Acceptable).count();
        if bad_headers > 0 && bad_headers < kinds.len() {
            ck.out.label("mixed_headers");
            ck.out.nontrivial = true;
        }
        let flags_ok = req.fir && req.fin && (!req.uns || req.func == 0);
        let no_reply_func = NO_REPLY_FUNCS.contains(&req.func);
        if no_reply_func {
            ck.out.label("no_reply_function");
            ck.out.nontrivial = true;
        }
        if ri == 0 && case.state != State::Idle {
            ck.out.nontrivial = true;
        }
        let is_control = matches!(req.func, 3 | 4 | 5);
        if is_control && bytes.len() + 2 > case.sol_tx as usize && bad_headers == 0 {
            ck.out.label("echo_exceeds_tx");
            ck.out.nontrivial = true;
        }
        ck.out.label(format!(
            "func:{}",
            if executes(req.func) {
                "executed"
            } else if req.func == 0 {
                "confirm"
            } else if is_known_function(req.func) {
                "known_unsupported"
            } else {
                "unknown"
            }
        ));

        rig.send_fragment(&bytes);
        rig.settle().await;
        let mut replies: Vec<Fragment> = vec![];
        let tx = rig.take_tx();
        replies.extend(ck.check(tx, Some(req.seq)));
        // let every wait expire: deferred reads are answered when the unsolicited series ends
        for _ in 0..4 {
            rig.advance(101).await;
            let tx = rig.take_tx();
            replies.extend(ck.check(tx, Some(req.seq)));
        }
        let answers: Vec<&Fragment> = replies
            .iter()
            .filter(|f| f.func == func::RESPONSE && f.fir && f.seq == req.seq)
            .collect();
        // in the solicited confirm wait a CONFIRM carrying the expected number legitimately releases the next fragment (fir = 0)
        // a fragment carrying a response function code is not a request at all: not judged
        let must_reject = !no_reply_func
            && req.func != 129
            && req.func != 130
            && (!flags_ok || bad_headers > 0 || !executes(req.func));
        if must_reject {
            match answers.first() {
                None => ck.out.fail(
                    Fail::new(
                        "rejection-not-reported",
                        format!("request func={} flags fir={} fin={} uns={} with header kinds {:?} was met with silence", req.func, req.fir, req.fin, req.uns, kinds),
                    )
                    .with_sig(format!("C12 silence func={} flags_ok={}", req.func, flags_ok)),
                ),
                Some(a) => {
                    let i2 = a.iin.map(|x| x.1).unwrap_or(0);
                    if i2 & (iin2::NO_FUNC_CODE_SUPPORT | iin2::OBJECT_UNKNOWN | iin2::PARAMETER_ERROR) == 0 {
                        ck.out.fail(
                            Fail::new(
                                "rejection-not-reported",
                                format!("request func={} with header kinds {:?} (flags ok: {}) was answered with clean IIN2 {:#04x}", req.func, kinds, flags_ok, i2),
                            )
                            .with_sig(format!("C12 clean-iin2 func={} kinds={:?}", req.func, kinds)),
                        );
                    }
                }
            }
        }
        // "well-formed requests whose function code forbids a reply are never answered": well-formed = the flags are
        // those of a request and every object header parses, whether or not the function can use the objects
        let well_formed = flags_ok
            && kinds
                .iter()
                .all(|k| matches!(k, HKind::Acceptable | HKind::WrongForFunction | HKind::Many));
        if no_reply_func && well_formed && bad_headers > 0 {
            ck.out.label("no_reply_function_with_unusable_objects");
        }
        if no_reply_func
            && well_formed
            && !(req.func == 0 && !kinds.is_empty())
            && !answers.is_empty()
        {
            ck.out.fail(Fail::new(
                "reply-to-no-reply-function",
                format!(
                    "function {} must not be answered, got {:?}",
                    req.func, answers[0]
                ),
            ));
        }
    }
    if let Some(f) = rig.task_failure.take() {
        ck.out.fail(f);
    }
    ck.out
}

pub fn run<C: Codec>(tier: Tier) -> i32 {
    let mut ctx = Ctx::<C>::new("C12", tier);
    ctx.assumptions.push("which of the three IIN2 error bits is used is not asserted; a no-acknowledge function whose every object header parses must not be answered (usable objects or not); silence vs IIN2 reply for no-acknowledge functions / CONFIRM whose objects do NOT parse is not asserted; fragments shorter than 2 bytes (no sequence number to answer) are not asserted".into());
    ctx.run::<Replies>();
    ctx.finish()
}

pub fn replay<C: Codec>(text: &str, known: &[Known]) -> Option<i32> {
    replay_file::<C, Replies>(text, known)
}
