//! shared pieces for the outstation-side properties: database specifications, unique-valued updates,
//! session set-up helpers
use crate::app::measurement::*;
use crate::app::Timestamp;
use crate::outstation::database::*;
use crate::verif::rig::outstation::*;
use crate::verif::wire::app::{self as ra, func, Fragment};
use proptest::prelude::*;
use serde::{Deserialize, Serialize};

pub const TYPES: usize = 8;
pub const TYPE_NAMES: [&str; 8] = [
    "binary",
    "double",
    "bos",
    "counter",
    "frozen_counter",
    "analog",
    "aos",
    "octet",
];
/// static group of each point type
pub const STATIC_GROUP: [u8; 8] = [1, 3, 10, 20, 21, 30, 40, 110];
/// event group of each point type
pub const EVENT_GROUP: [u8; 8] = [2, 4, 11, 22, 23, 32, 42, 111];
/// configurable static variations per type
pub const STATIC_VARS: [&[u8]; 8] = [
    &[1, 2],
    &[1, 2],
    &[1, 2],
    &[1, 2, 5, 6],
    &[1, 2, 5, 6, 9, 10],
    &[1, 2, 3, 4, 5, 6],
    &[1, 2, 3, 4],
    &[0],
];
/// configurable event variations per type
pub const EVENT_VARS: [&[u8]; 8] = [
    &[1, 2, 3],
    &[1, 2, 3],
    &[1, 2],
    &[1, 2, 5, 6],
    &[1, 2, 5, 6],
    &[1, 2, 3, 4, 5, 6, 7, 8],
    &[1, 2, 3, 4, 5, 6, 7, 8],
    &[0],
];

#[derive(Clone, Debug, Serialize, Deserialize, PartialEq)]
pub struct PointSpec {
    pub ty: u8,
    pub index: u16,
    /// 0 = no events, 1..=3 = class
    pub class: u8,
    /// static variation number
    pub svar: u8,
    /// event variation number
    pub evar: u8,
}

fn class_of(c: u8) -> Option<EventClass> {
    match c {
        1 => Some(EventClass::Class1),
        2 => Some(EventClass::Class2),
        3 => Some(EventClass::Class3),
        _ => None,
    }
}

pub fn add_point(db: &mut Database, p: &PointSpec) -> bool {
    let class = class_of(p.class);
    match p.ty {
        0 => db.add(
            p.index,
            class,
            BinaryInputConfig::new(
                if p.svar == 1 {
                    StaticBinaryInputVariation::Group1Var1
                } else {
                    StaticBinaryInputVariation::Group1Var2
                },
                match p.evar {
                    1 => EventBinaryInputVariation::Group2Var1,
                    2 => EventBinaryInputVariation::Group2Var2,
                    _ => EventBinaryInputVariation::Group2Var3,
                },
            ),
        ),
        1 => db.add(
            p.index,
            class,
            DoubleBitBinaryInputConfig::new(
                if p.svar == 1 {
                    StaticDoubleBitBinaryInputVariation::Group3Var1
                } else {
                    StaticDoubleBitBinaryInputVariation::Group3Var2
                },
                match p.evar {
                    1 => EventDoubleBitBinaryInputVariation::Group4Var1,
                    2 => EventDoubleBitBinaryInputVariation::Group4Var2,
                    _ => EventDoubleBitBinaryInputVariation::Group4Var3,
                },
            ),
        ),
        2 => db.add(
            p.index,
            class,
            BinaryOutputStatusConfig::new(
                if p.svar == 1 {
                    StaticBinaryOutputStatusVariation::Group10Var1
                } else {
                    StaticBinaryOutputStatusVariation::Group10Var2
                },
                if p.evar == 1 {
                    EventBinaryOutputStatusVariation::Group11Var1
                } else {
                    EventBinaryOutputStatusVariation::Group11Var2
                },
            ),
        ),
        3 => db.add(
            p.index,
            class,
            CounterConfig::new(
                match p.svar {
                    1 => StaticCounterVariation::Group20Var1,
                    2 => StaticCounterVariation::Group20Var2,
                    5 => StaticCounterVariation::Group20Var5,
                    _ => StaticCounterVariation::Group20Var6,
                },
                match p.evar {
                    1 => EventCounterVariation::Group22Var1,
                    2 => EventCounterVariation::Group22Var2,
                    5 => EventCounterVariation::Group22Var5,
                    _ => EventCounterVariation::Group22Var6,
                },
                0,
            ),
        ),
        4 => db.add(
            p.index,
            class,
            FrozenCounterConfig::new(
                match p.svar {
                    1 => StaticFrozenCounterVariation::Group21Var1,
                    2 => StaticFrozenCounterVariation::Group21Var2,
                    5 => StaticFrozenCounterVariation::Group21Var5,
                    6 => StaticFrozenCounterVariation::Group21Var6,
                    9 => StaticFrozenCounterVariation::Group21Var9,
                    _ => StaticFrozenCounterVariation::Group21Var10,
                },
                match p.evar {
                    1 => EventFrozenCounterVariation::Group23Var1,
                    2 => EventFrozenCounterVariation::Group23Var2,
                    5 => EventFrozenCounterVariation::Group23Var5,
                    _ => EventFrozenCounterVariation::Group23Var6,
                },
                0,
            ),
        ),
        5 => db.add(
            p.index,
            class,
            AnalogInputConfig::new(
                match p.svar {
                    1 => StaticAnalogInputVariation::Group30Var1,
                    2 => StaticAnalogInputVariation::Group30Var2,
                    3 => StaticAnalogInputVariation::Group30Var3,
                    4 => StaticAnalogInputVariation::Group30Var4,
                    5 => StaticAnalogInputVariation::Group30Var5,
                    _ => StaticAnalogInputVariation::Group30Var6,
                },
                match p.evar {
                    1 => EventAnalogInputVariation::Group32Var1,
                    2 => EventAnalogInputVariation::Group32Var2,
                    3 => EventAnalogInputVariation::Group32Var3,
                    4 => EventAnalogInputVariation::Group32Var4,
                    5 => EventAnalogInputVariation::Group32Var5,
                    6 => EventAnalogInputVariation::Group32Var6,
                    7 => EventAnalogInputVariation::Group32Var7,
                    _ => EventAnalogInputVariation::Group32Var8,
                },
                0.0,
            ),
        ),
        6 => db.add(
            p.index,
            class,
            AnalogOutputStatusConfig::new(
                match p.svar {
                    1 => StaticAnalogOutputStatusVariation::Group40Var1,
                    2 => StaticAnalogOutputStatusVariation::Group40Var2,
                    3 => StaticAnalogOutputStatusVariation::Group40Var3,
                    _ => StaticAnalogOutputStatusVariation::Group40Var4,
                },
                match p.evar {
                    1 => EventAnalogOutputStatusVariation::Group42Var1,
                    2 => EventAnalogOutputStatusVariation::Group42Var2,
                    3 => EventAnalogOutputStatusVariation::Group42Var3,
                    4 => EventAnalogOutputStatusVariation::Group42Var4,
                    5 => EventAnalogOutputStatusVariation::Group42Var5,
                    6 => EventAnalogOutputStatusVariation::Group42Var6,
                    7 => EventAnalogOutputStatusVariation::Group42Var7,
                    _ => EventAnalogOutputStatusVariation::Group42Var8,
                },
                0.0,
            ),
        ),
        _ => db.add(p.index, class, OctetStringConfig),
    }
}

/// a recorded measurement, type-erased
#[derive(Clone, Debug, PartialEq, Serialize, Deserialize)]
pub struct Rec {
    pub ty: u8,
    pub index: u16,
    /// bool as 0/1, double-bit 0..=3, counters, analogs as f64; octet strings carry bytes in `bytes`
    pub value: f64,
    pub bytes: Vec<u8>,
    pub flags: u8,
    /// absolute time in ms, and whether it is synchronized (Some) or absent
    pub time: Option<(u64, bool)>,
}

fn time_of(t: Option<(u64, bool)>) -> Option<Time> {
    t.map(|(ms, sync)| {
        if sync {
            Time::Synchronized(Timestamp::new(ms))
        } else {
            Time::Unsynchronized(Timestamp::new(ms))
        }
    })
}

fn double_bit(v: u8) -> DoubleBit {
    match v & 3 {
        0 => DoubleBit::Intermediate,
        1 => DoubleBit::DeterminedOff,
        2 => DoubleBit::DeterminedOn,
        _ => DoubleBit::Indeterminate,
    }
}

/// write the record into the database with the given options
pub fn update_point(db: &mut Database, r: &Rec, options: UpdateOptions) -> UpdateInfo {
    let flags = Flags::new(r.flags);
    let time = time_of(r.time);
    match r.ty {
        0 => db.update2(
            r.index,
            &BinaryInput {
                value: r.value != 0.0,
                flags,
                time,
            },
            options,
        ),
        1 => db.update2(
            r.index,
            &DoubleBitBinaryInput {
                value: double_bit(r.value as u8),
                flags,
                time,
            },
            options,
        ),
        2 => db.update2(
            r.index,
            &BinaryOutputStatus {
                value: r.value != 0.0,
                flags,
                time,
            },
            options,
        ),
        3 => db.update2(
            r.index,
            &Counter {
                value: r.value as u32,
                flags,
                time,
            },
            options,
        ),
        4 => db.update2(
            r.index,
            &FrozenCounter {
                value: r.value as u32,
                flags,
                time,
            },
            options,
        ),
        5 => db.update2(
            r.index,
            &AnalogInput {
                value: r.value,
                flags,
                time,
            },
            options,
        ),
        6 => db.update2(
            r.index,
            &AnalogOutputStatus {
                value: r.value,
                flags,
                time,
            },
            options,
        ),
        _ => match OctetString::new(&r.bytes) {
            Ok(s) => db.update2(r.index, &s, options),
            Err(_) => UpdateInfo::NoPoint,
        },
    }
}

/// a value for point (ty, index) that differs from the previous one of that point (so Detect mode records an event)
/// and encodes (type, index, serial): cross-wiring, duplication and resurrection are visible by value.
/// All values stay representable in every variation (C10 owns the out-of-range cases).
pub fn unique_rec(
    ty: u8,
    index: u16,
    point_serial: u32,
    global_serial: u32,
    flags_extra: u8,
) -> Rec {
    let s = point_serial;
    let (value, bytes) = match ty {
        0 | 2 => ((s % 2) as f64, vec![]),
        1 => ((s % 4) as f64, vec![]),
        3 | 4 => (
            (((index as u32 % 50) * 1000 + (s % 1000)) % 60000) as f64,
            vec![],
        ),
        5 | 6 => (
            ((index as i32 % 30) * 1000 + (s % 1000) as i32 - 500) as f64,
            vec![],
        ),
        _ => (
            0.0,
            vec![
                ty,
                index as u8,
                s as u8,
                (s >> 8) as u8,
                global_serial as u8,
            ],
        ),
    };
    // flags: ONLINE plus quality bits 1..=4 derived from the serial, so that 32 consecutive updates of one point
    // differ in (value, flags) even in variations without time
    let _ = flags_extra;
    let flags = 0x01 | ((((s >> 1) as u8) & 0x0F) << 1);
    // binary types carry their state in flag bit 7 (double-bit: bits 7..6); keep the record consistent
    let flags = match ty {
        0 | 2 => flags | if value != 0.0 { 0x80 } else { 0 },
        1 => flags | ((value as u8) << 6),
        _ => flags,
    };
    Rec {
        ty,
        index,
        value,
        bytes,
        flags,
        time: Some((1_000_000 + global_serial as u64 * 7, true)),
    }
}

pub fn point_strategy(max_index: u16) -> impl Strategy<Value = PointSpec> {
    (
        0u8..8,
        prop_oneof![0u16..4, 0u16..=max_index],
        0u8..=3,
        any::<u8>(),
        any::<u8>(),
    )
        .prop_map(|(ty, index, class, s, e)| {
            let sv = STATIC_VARS[ty as usize];
            let ev = EVENT_VARS[ty as usize];
            PointSpec {
                ty,
                index,
                class,
                svar: sv[s as usize % sv.len()],
                evar: ev[e as usize % ev.len()],
            }
        })
}

/// READ request for event classes
pub fn read_classes(seq: u8, classes: &[u8]) -> Fragment {
    let mut o = vec![];
    for c in classes {
        o.extend(ra::h_all(
            60,
            match c {
                0 => 1,
                1 => 2,
                2 => 3,
                _ => 4,
            },
        ));
    }
    Fragment::request(seq, func::READ, o)
}

pub fn enable_unsol(seq: u8, enable: bool, classes: &[u8]) -> Fragment {
    let mut o = vec![];
    for c in classes {
        o.extend(ra::h_all(60, 1 + *c));
    }
    Fragment::request(
        seq,
        if enable {
            func::ENABLE_UNSOLICITED
        } else {
            func::DISABLE_UNSOLICITED
        },
        o,
    )
}

/// drive the start-up null unsolicited response to confirmation; returns false if none was seen
pub async fn confirm_null_unsol(rig: &mut OutRig) -> bool {
    rig.settle().await;
    let frags = rig.take_fragments();
    for f in frags.iter().rev() {
        if f.func == func::UNSOLICITED_RESPONSE {
            rig.send(&Fragment::confirm(f.seq, true));
            rig.settle().await;
            return true;
        }
    }
    false
}
