//! C13 — internal indication bits tell the truth
use crate::verif::engine::*;
use crate::verif::props::evs::*;
use crate::verif::rig::runtime;
use proptest::prelude::*;

pub struct Iin;

impl Prop for Iin {
    type Case = Case;
    const ID: &'static str = "C13";
    const NAME: &'static str = "iin";
    fn rule() -> &'static str {
        "the C03 history generator plus broadcasts of all three confirm modes, writes of the restart bit (0 and 1), changes of the application's IIN answer and reconnects, buffers of 0..8 so overflow hits written and unwritten events; oracle = model built from the statement: for every NEWLY BUILT response (re-sent fragments are C05's) CLASS_n == exists a buffered, unreleased, undiscarded event of class n carried neither by this response nor by one still awaiting confirmation; EVENT_BUFFER_OVERFLOW from a discard until a confirm bracket leaves every type below capacity; RESTART until written to 0 (survives reconnect); BROADCAST from a received broadcast until reported (confirm-mandatory: until a confirmation; a CONFIRM that carries the sequence number of no response of its kind is none); NEED_TIME/LOCAL_CONTROL/DEVICE_TROUBLE/CONFIG_CORRUPT == application's answer; non-trivial = an overflow that discards an in-flight event, or a response judged after an unsolicited series ended unconfirmed"
    }
    fn cases(tier: Tier) -> u32 {
        match tier {
            Tier::Quick => 150_000,
            Tier::Thorough => 6_000_000,
        }
    }
    fn floors() -> Vec<(&'static str, u32)> {
        vec![
            ("overflow", 30),
            ("overflow_discards_in_flight_event", 10),
            ("response_after_failed_unsol_series", 15),
            ("broadcast", 50),
        ]
    }
    fn strategy(tier: Tier) -> BoxedStrategy<Case> {
        case_strategy(true, if tier == Tier::Quick { 24 } else { 48 })
    }
    fn run(case: &Case) -> CaseOut {
        let rt = runtime();
        let f = rt.block_on(run_history(case, true));
        let mut out = CaseOut::default();
        out.labels = f.labels;
        out.nontrivial = f.nontrivial_c13;
        out.fail = f.common.or(f.c13);
        out
    }
}

pub fn run<C: Codec>(tier: Tier) -> i32 {
    let mut ctx = Ctx::<C>::new("C13", tier);
    ctx.assumptions.push("only newly built responses are judged; a response whose confirm deadline is being hit at the very instant another response is built is judged with either view of its events".into());
    ctx.run::<Iin>();
    ctx.finish()
}

pub fn replay<C: Codec>(text: &str, known: &[Known]) -> Option<i32> {
    replay_file::<C, Iin>(text, known)
}
