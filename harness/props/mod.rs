pub mod c06;

use super::engine::{Codec, Tier};

/// dispatch: run every sub-check of one property; returns the process exit code
pub fn run_property<C: Codec>(id: &str, tier: Tier) -> i32 {
    match id {
        "C06" => c06::run::<C>(tier),
        _ => {
            println!("INCONCLUSIVE unknown property {id}");
            2
        }
    }
}

pub fn replay<C: Codec>(text: &str) -> i32 {
    let head = match C::from_str::<super::engine::ReplayHead>(text) {
        Ok(h) => h,
        Err(e) => {
            println!("INCONCLUSIVE replay file does not parse: {e}");
            return 2;
        }
    };
    let known = super::engine::load_known::<C>(&head.property);
    let r = match head.property.as_str() {
        "C06" => c06::replay::<C>(text, &known),
        _ => None,
    };
    match r {
        Some(code) => code,
        None => {
            println!("INCONCLUSIVE no sub-check accepts this replay file (property={} check={})", head.property, head.check);
            2
        }
    }
}
