pub mod c01;
pub mod c01m;
pub mod c01u;
pub mod c02;
pub mod c02t;
pub mod c03;
pub mod c04;
pub mod c05;
pub mod c06;
pub mod c07;
pub mod c08;
pub mod c09;
pub mod c09a;
pub mod c09e;
pub mod c10;
pub mod c11;
pub mod c12;
pub mod c13;
pub mod c14;
pub mod c15;
pub mod c16;
pub mod c17;
pub mod c18;
pub mod c18u;
pub mod c19;
pub mod evs;
pub mod fraggen;
pub mod ost;

use super::engine::{Codec, Tier};

/// dispatch: run every sub-check of one property; returns the process exit code
pub fn run_property<C: Codec>(id: &str, tier: Tier) -> i32 {
    match id {
        "C03" => c03::run::<C>(tier),
        "C06" => c06::run::<C>(tier),
        "C08" => c08::run::<C>(tier),
        "C12" => c12::run::<C>(tier),
        "C13" => c13::run::<C>(tier),
        "C04" => c04::run::<C>(tier),
        "C05" => c05::run::<C>(tier),
        "C11" => c11::run::<C>(tier),
        "C14" => c14::run::<C>(tier),
        "C07" => c07::run::<C>(tier),
        "C01" => c01::run::<C>(tier),
        "C15" => c15::run::<C>(tier),
        "C16" => c16::run::<C>(tier),
        "C17" => c17::run::<C>(tier),
        "C19" => c19::run::<C>(tier),
        "C10" => c10::run::<C>(tier),
        "C09" => c09::run::<C>(tier),
        "C02" => c02::run::<C>(tier),
        "C18" => c18::run::<C>(tier),
        _ => {
            println!("INCONCLUSIVE unknown property {id}");
            2
        }
    }
}

pub fn replay<C: Codec>(text: &str) -> i32 {
    let head = match C::from_str::<super::engine::ReplayHead>(text) {
        Ok(h) => h,
        Err(e) => {
            println!("INCONCLUSIVE replay file does not parse: {e}");
            return 2;
        }
    };
    if head.check.starts_with("exhaustive") {
        // an exhaustive sub-domain is deterministic: replaying it means enumerating it again
        println!(
            "replaying an exhaustive sub-domain: re-running the quick check of {}",
            head.property
        );
        return run_property::<C>(&head.property, Tier::Quick);
    }
    let known = super::engine::load_known::<C>(&head.property);
    let r = match head.property.as_str() {
        "C03" => c03::replay::<C>(text, &known),
        "C06" => c06::replay::<C>(text, &known),
        "C08" => c08::replay::<C>(text, &known),
        "C12" => c12::replay::<C>(text, &known),
        "C13" => c13::replay::<C>(text, &known),
        "C04" => c04::replay::<C>(text, &known),
        "C05" => c05::replay::<C>(text, &known),
        "C11" => c11::replay::<C>(text, &known),
        "C14" => c14::replay::<C>(text, &known),
        "C07" => c07::replay::<C>(text, &known),
        "C01" => c01::replay::<C>(text, &known),
        "C15" => c15::replay::<C>(text, &known),
        "C16" => c16::replay::<C>(text, &known),
        "C17" => c17::replay::<C>(text, &known),
        "C19" => c19::replay::<C>(text, &known),
        "C10" => c10::replay::<C>(text, &known),
        "C09" => c09::replay::<C>(text, &known),
        "C02" => c02::replay::<C>(text, &known),
        "C18" => c18::replay::<C>(text, &known),
        _ => None,
    };
    match r {
        Some(code) => code,
        None => {
            println!(
                "INCONCLUSIVE no sub-check accepts this replay file (property={} check={})",
                head.property, head.check
            );
            2
        }
    }
}
