//! C04 — OPERATE actuates only after its own matching, fresh, directly preceding SELECT
use crate::verif::engine::*;
use crate::verif::rig::outstation::*;
use crate::verif::rig::runtime;
use crate::verif::wire::app::{self as ra, func, Fragment};
use crate::verif::wire::link as rl;
use proptest::prelude::*;
use serde::{Deserialize, Serialize};

pub const SELECT_TIMEOUT: u64 = 1000;

#[derive(Clone, Debug, Serialize, Deserialize, PartialEq)]
pub struct CtlHeader {
    /// 0 = g12v1, 1..=4 = g41v1..4
    pub kind: u8,
    pub two_byte: bool,
    /// (index, parameter)
    pub objs: Vec<(u8, u8)>,
}

#[derive(Clone, Debug, Serialize, Deserialize)]
pub enum OpVariant {
    /// the objects of the most recent SELECT sent, byte for byte
    Same,
    /// same, with one byte of the object part changed
    OneByteChanged(u16),
    /// same objects, each header split into one header per object
    SplitDifferently,
    /// same, with one index changed
    OtherIndex(u16),
    /// unrelated objects
    Fresh(Vec<CtlHeader>),
}

#[derive(Clone, Debug, Serialize, Deserialize)]
pub enum SeqMode {
    Next,
    Arbitrary(u8),
}

#[derive(Clone, Debug, Serialize, Deserialize)]
pub enum Op {
    Select(Vec<CtlHeader>, SeqMode),
    /// a SELECT whose object headers parse but are not control objects (rejected with an IIN2 error)
    BadSelect(SeqMode),
    Operate(OpVariant, SeqMode),
    DirectOperate(Vec<CtlHeader>),
    Read,
    Write,
    Confirm(bool, u8),
    Malformed(u8),
    Broadcast,
    Foreign,
    LinkStatus,
    RepeatLast,
    /// 0 = none, 1 = timeout-1, 2 = timeout, 3 = timeout+1, 4 = given ms
    Advance(u8, u16),
    Reconnect,
    /// a new connection pre-empts the old session (the old connection is still open when the server hands over)
    Preempt,
}

#[derive(Clone, Debug, Serialize, Deserialize)]
pub struct Case {
    /// command status per index (index % len)
    pub statuses: Vec<u8>,
    pub max_controls: Option<u8>,
    pub ops: Vec<Op>,
    /// unsolicited reporting is on and the start-up NULL response is never confirmed: the session spends (nearly) all its
    /// time in the unsolicited confirm wait, where requests are handled by another piece of code than in the idle state
    #[serde(default)]
    pub unsol_wait: bool,
}

fn encode_headers(hs: &[CtlHeader]) -> Vec<u8> {
    let mut out = vec![];
    for h in hs {
        let (g, v) = if h.kind == 0 {
            (12u8, 1u8)
        } else {
            (41u8, h.kind.min(4))
        };
        let obj = |p: u8| -> Vec<u8> {
            match h.kind {
                0 => ra::crob(3 + (p % 2), 1, 100 + p as u32, 50, 0),
                1 => {
                    let mut o = (p as i32 * 1000).to_le_bytes().to_vec();
                    o.push(0);
                    o
                }
                2 => {
                    let mut o = (p as i16 * 10).to_le_bytes().to_vec();
                    o.push(0);
                    o
                }
                3 => {
                    let mut o = (p as f32 * 0.5).to_le_bytes().to_vec();
                    o.push(0);
                    o
                }
                _ => {
                    let mut o = (p as f64 * 0.25).to_le_bytes().to_vec();
                    o.push(0);
                    o
                }
            }
        };
        if h.two_byte {
            out.extend(ra::h_prefixed16(
                g,
                v,
                &h.objs
                    .iter()
                    .map(|(i, p)| (*i as u16, obj(*p)))
                    .collect::<Vec<_>>(),
            ));
        } else {
            out.extend(ra::h_prefixed8(
                g,
                v,
                &h.objs
                    .iter()
                    .map(|(i, p)| (*i, obj(*p)))
                    .collect::<Vec<_>>(),
            ));
        }
    }
    out
}

fn indices(hs: &[CtlHeader]) -> Vec<u16> {
    hs.iter()
        .flat_map(|h| h.objs.iter().map(|(i, _)| *i as u16))
        .collect()
}

#[derive(Clone, Debug)]
struct Armed {
    seq: u8,
    objects: Vec<u8>,
    fragment: Vec<u8>,
    t_first: u64,
    t_last: u64,
    /// `t_first` was taken over from an earlier, byte-identical SELECT that other fragments had disarmed meanwhile: the
    /// outstation may see a retransmission (the timeout runs from the first one) or a SELECT in its own right (it runs
    /// from this one) - an OPERATE between the two deadlines is not judged
    carried: bool,
}

pub struct Sbo;

impl Prop for Sbo {
    type Case = Case;
    const ID: &'static str = "C04";
    const NAME: &'static str = "sbo";
    fn rule() -> &'static str {
        "op sequences over SELECT / OPERATE (same bytes, one byte changed, split into different headers, other index, unrelated) / DIRECT_OPERATE / READ / WRITE / CONFIRM / malformed / broadcast / foreign-master fragments / link status / byte-identical repeats / time advances (0, t-1, t, t+1 ms, random) / reconnects, sequence numbers next or arbitrary (4-bit wrap), objects g12v1 and g41v1-4 with 1- and 2-byte prefixes in 1-3 headers, handler statuses per index, max_controls limits; oracle = model from the statement: armed by a SELECT whose objects were all accepted, disarmed by any other received application fragment (byte-identical retransmission of that SELECT excepted) and by reconnect; OPERATE executes iff armed & identical object bytes & seq = armed.seq+1 & elapsed < timeout (== timeout not judged); compared both ways with ControlHandler::operate(SelectBeforeOperate) calls (each object exactly once) and with the echoed statuses; non-trivial = an OPERATE that matches a successful SELECT in all conjuncts but one, or a full positive pair"
    }
    fn cases(tier: Tier) -> u32 {
        match tier {
            Tier::Quick => 200_000,
            Tier::Thorough => 8_000_000,
        }
    }
    fn floors() -> Vec<(&'static str, u32)> {
        vec![
            ("positive_pair", 50),
            ("near_miss:seq", 5),
            ("near_miss:bytes", 5),
            ("near_miss:intervening", 5),
            ("near_miss:timeout", 3),
            ("near_miss:reconnect", 3),
            ("near_miss:select_failed", 5),
        ]
    }
    fn strategy(tier: Tier) -> BoxedStrategy<Case> {
        let header = (
            0u8..5,
            any::<bool>(),
            proptest::collection::vec((0u8..6, any::<u8>()), 1..=3),
        )
            .prop_map(|(kind, two_byte, objs)| CtlHeader {
                kind,
                two_byte,
                objs,
            });
        let headers = proptest::collection::vec(header, 1..=3);
        let seqm =
            prop_oneof![4 => Just(SeqMode::Next), 1 => any::<u8>().prop_map(SeqMode::Arbitrary)];
        let variant = prop_oneof![
            6 => Just(OpVariant::Same),
            1 => any::<u16>().prop_map(OpVariant::OneByteChanged),
            1 => Just(OpVariant::SplitDifferently),
            1 => any::<u16>().prop_map(OpVariant::OtherIndex),
            1 => headers.clone().prop_map(OpVariant::Fresh),
        ];
        let op = prop_oneof![
            6 => (headers.clone(), seqm.clone()).prop_map(|(h, s)| Op::Select(h, s)),
            1 => seqm.clone().prop_map(Op::BadSelect),
            8 => (variant, seqm).prop_map(|(v, s)| Op::Operate(v, s)),
            1 => headers.prop_map(Op::DirectOperate),
            1 => Just(Op::Read),
            1 => Just(Op::Write),
            1 => (any::<bool>(), any::<u8>()).prop_map(|(u, s)| Op::Confirm(u, s)),
            1 => any::<u8>().prop_map(Op::Malformed),
            1 => Just(Op::Broadcast),
            1 => Just(Op::Foreign),
            1 => Just(Op::LinkStatus),
            2 => Just(Op::RepeatLast),
            3 => (0u8..5, any::<u16>()).prop_map(|(k, ms)| Op::Advance(k, ms)),
            1 => Just(Op::Reconnect),
            1 => Just(Op::Preempt),
        ];
        let n = if tier == Tier::Quick { 28 } else { 80 };
        (
            prop_oneof![3 => Just(vec![0u8]), 1 => proptest::collection::vec(prop_oneof![4 => Just(0u8), 1 => 1u8..20], 1..6)],
            prop_oneof![4 => Just(None), 1 => (1u8..6).prop_map(Some)],
            proptest::collection::vec(op, 2..n),
            prop_oneof![2 => Just(false), 1 => Just(true)],
        )
            .prop_map(|(statuses, max_controls, ops, unsol_wait)| Case { statuses, max_controls, ops, unsol_wait })
            .boxed()
    }
    fn run(case: &Case) -> CaseOut {
        let rt = runtime();
        rt.block_on(run_case(case))
    }
}

async fn run_case(case: &Case) -> CaseOut {
    let mut out = CaseOut::default();
    let mut cfg = OutConfig::default();
    cfg.select_timeout_ms = SELECT_TIMEOUT as u32;
    cfg.confirm_timeout_ms = 100;
    cfg.max_controls = case.max_controls.map(|x| x as u16);
    cfg.event_buffer = [0; 8];
    if case.unsol_wait {
        cfg.unsolicited = true;
        out.label("in_unsolicited_confirm_wait");
    }
    let mut beh = AppBehaviour::default();
    beh.control_status = case.statuses.clone();
    let mut rig = OutRig::start(cfg, beh).await;
    let status_of = |i: u16| case.statuses[i as usize % case.statuses.len()];

    let mut armed: Option<Armed> = None;
    // what a near miss would have needed: the last SELECT that armed, and why it is no longer (fully) valid
    let mut last_good_select: Option<(Armed, Vec<&'static str>)> = None;
    let mut seq: u8 = 0;
    let mut last_select_headers: Option<Vec<CtlHeader>> = None;
    let mut last_fragment: Option<Vec<u8>> = None;
    // control headers of `last_fragment` when it is a SELECT of control objects
    let mut last_fragment_select: Option<Vec<CtlHeader>> = None;
    // a READ was sent into the unsolicited confirm wait and no other request since
    let mut read_put_aside: Option<Option<Vec<u8>>> = None;

    macro_rules! disarm {
        ($why:expr) => {
            if let Some(a) = armed.take() {
                last_good_select = Some((a, vec![$why]));
            } else if let Some((_, why)) = &mut last_good_select {
                if !why.contains(&$why) {
                    why.push($why);
                }
            }
        };
    }

    for op in &case.ops {
        if out.failed() || rig.task_failure.is_some() {
            break;
        }
        let _ = rig.shared.take_log();
        let _ = rig.take_tx();
        // the request before a READ that was put aside: still "the request processed last" as long as the wait goes on,
        // no longer once the READ has been answered - not known here
        let behind_deferred_read =
            case.unsol_wait && read_put_aside.as_ref() == Some(&last_fragment);
        match op {
            Op::Select(hs, sm) => {
                let s = match sm {
                    SeqMode::Next => {
                        seq = (seq + 1) & 0x0F;
                        seq
                    }
                    SeqMode::Arbitrary(x) => {
                        seq = x & 0x0F;
                        seq
                    }
                };
                let objects = encode_headers(hs);
                let frag = Fragment::request(s, func::SELECT, objects.clone()).encode();
                // a byte-identical retransmission of the armed SELECT keeps it armed
                let is_repeat_of_armed =
                    armed.as_ref().map(|a| a.fragment == frag).unwrap_or(false);
                rig.send_fragment(&frag);
                rig.settle().await;
                last_select_headers = Some(hs.clone());
                last_fragment = Some(frag.clone());
                last_fragment_select = Some(hs.clone());
                let now = rig.now_ms();
                if is_repeat_of_armed {
                    out.label("select_retransmitted");
                    armed.as_mut().unwrap().t_last = now;
                } else {
                    let idx = indices(hs);
                    let all_ok = idx.iter().all(|i| status_of(*i) == 0)
                        && case
                            .max_controls
                            .map(|m| idx.len() <= m as usize)
                            .unwrap_or(true);
                    disarm!("intervening");
                    let t_first = match &last_good_select {
                        Some((a, _)) if a.fragment == frag => a.t_first,
                        _ => now,
                    };
                    if all_ok {
                        armed = Some(Armed {
                            seq: s,
                            objects,
                            fragment: frag,
                            t_first,
                            t_last: now,
                            carried: t_first != now,
                        });
                        last_good_select = None;
                    } else {
                        out.label("select_failed");
                        // remember it as the SELECT a following OPERATE would have matched, had it succeeded
                        last_good_select = Some((
                            Armed {
                                seq: s,
                                objects,
                                fragment: frag,
                                t_first: now,
                                t_last: now,
                                carried: false,
                            },
                            vec!["select_failed"],
                        ));
                    }
                }
                // a SELECT never actuates anything
                let log = rig.shared.take_log();
                if log.iter().any(|(_, cb)| matches!(cb, Cb::Operate(..))) {
                    out.fail(Fail::new(
                        "select-actuated",
                        "a SELECT request reached ControlHandler::operate",
                    ));
                }
            }
            Op::BadSelect(sm) => {
                let s = match sm {
                    SeqMode::Next => {
                        seq = (seq + 1) & 0x0F;
                        seq
                    }
                    SeqMode::Arbitrary(x) => {
                        seq = x & 0x0F;
                        seq
                    }
                };
                let frag = Fragment::request(s, func::SELECT, ra::h_all(1, 0)).encode();
                rig.send_fragment(&frag);
                rig.settle().await;
                last_fragment = Some(frag);
                last_fragment_select = None;
                out.label("rejected_select");
                disarm!("intervening");
            }
            Op::Operate(variant, sm) => {
                let base = last_select_headers.clone().unwrap_or_else(|| {
                    vec![CtlHeader {
                        kind: 0,
                        two_byte: false,
                        objs: vec![(0, 0)],
                    }]
                });
                let (hs, mut objects) = match variant {
                    OpVariant::Same | OpVariant::OneByteChanged(_) => {
                        (base.clone(), encode_headers(&base))
                    }
                    OpVariant::SplitDifferently => {
                        let mut split = vec![];
                        for h in &base {
                            for o in &h.objs {
                                split.push(CtlHeader {
                                    kind: h.kind,
                                    two_byte: h.two_byte,
                                    objs: vec![*o],
                                });
                            }
                        }
                        let b = encode_headers(&split);
                        (split, b)
                    }
                    OpVariant::OtherIndex(k) => {
                        let mut hs = base.clone();
                        let n = hs.len();
                        let h = &mut hs[(*k as usize * n) >> 16];
                        h.objs[0].0 = (h.objs[0].0 + 1) % 6;
                        let b = encode_headers(&hs);
                        (hs, b)
                    }
                    OpVariant::Fresh(hs) => (hs.clone(), encode_headers(hs)),
                };
                if let OpVariant::OneByteChanged(k) = variant {
                    // change one byte of an object's value field (keeps the fragment parseable): the last object's first value byte
                    let pos = objects.len() - 2 - ((*k as usize) % 2);
                    objects[pos] ^= 0x01;
                }
                let s = match sm {
                    SeqMode::Next => {
                        seq = (seq + 1) & 0x0F;
                        seq
                    }
                    SeqMode::Arbitrary(x) => {
                        seq = x & 0x0F;
                        seq
                    }
                };
                let frag = Fragment::request(s, func::OPERATE, objects.clone()).encode();
                let is_repeat_of_last = last_fragment.as_ref() == Some(&frag);
                let now = rig.now_ms();
                // --- the model's verdict ---
                let (expect, uncertain, near) = match &armed {
                    Some(a) => {
                        let bytes_ok = a.objects == objects;
                        let seq_ok = s == (a.seq + 1) & 0x0F;
                        let el_first = now - a.t_first;
                        let el_last = now - a.t_last;
                        let in_time = el_first < SELECT_TIMEOUT;
                        // the select timeout runs from the SELECT that was executed: a retransmission is answered from
                        // memory (C05) and selects nothing anew, so it cannot keep a selection alive
                        let unc = el_first == SELECT_TIMEOUT
                            || (a.carried && !in_time && el_last <= SELECT_TIMEOUT);
                        let misses: Vec<&'static str> = [
                            (!bytes_ok, "bytes"),
                            (!seq_ok, "seq"),
                            (!in_time && !unc, "timeout"),
                        ]
                        .iter()
                        .filter(|x| x.0)
                        .map(|x| x.1)
                        .collect();
                        (
                            bytes_ok && seq_ok && in_time,
                            unc && bytes_ok && seq_ok,
                            misses,
                        )
                    }
                    None => {
                        let mut misses = vec![];
                        if let Some((a, why)) = &last_good_select {
                            // would have matched but for exactly the recorded reason(s)?
                            if a.objects == objects
                                && s == (a.seq + 1) & 0x0F
                                && now - a.t_first < SELECT_TIMEOUT
                            {
                                misses = why.clone();
                            } else {
                                misses = vec!["several"];
                            }
                        }
                        (false, false, misses)
                    }
                };
                if expect {
                    out.label("positive_pair");
                    out.nontrivial = true;
                } else if near.len() == 1 {
                    out.label(format!("near_miss:{}", near[0]));
                    out.nontrivial = true;
                }
                rig.send_fragment(&frag);
                rig.settle().await;
                last_fragment = Some(frag.clone());
                let log = rig.shared.take_log();
                let executed: Vec<u16> = log
                    .iter()
                    .filter_map(|(_, cb)| match cb {
                        Cb::Operate(_, index, ty) if ty == "SelectBeforeOperate" => Some(*index),
                        _ => None,
                    })
                    .collect();
                let frags = rig.take_fragments();
                let echo_statuses: Vec<u8> = frags
                    .iter()
                    .filter(|f| f.func == func::RESPONSE && f.seq == s)
                    .flat_map(|f| f.headers().unwrap_or_default())
                    .filter(|h| h.g == 12 || h.g == 41)
                    .flat_map(|h| {
                        h.objects
                            .into_iter()
                            .map(|o| *o.data.last().unwrap_or(&0xFF))
                    })
                    .collect();
                if is_repeat_of_last && behind_deferred_read {
                    out.label("repeat_or_not_behind_a_deferred_read");
                } else if is_repeat_of_last {
                    // a byte-identical repeat of the previous request is C05's business: it must not execute
                    if !executed.is_empty() {
                        out.fail(Fail::new(
                            "repeat-executed",
                            "a byte-identical repeat of the previous OPERATE was executed again",
                        ));
                    }
                } else if !uncertain {
                    let want: Vec<u16> = if expect { indices(&hs) } else { vec![] };
                    if executed != want {
                        let d = format!(
                            "OPERATE seq {s} at t={now}: model says {} (armed={:?}, reasons against: {:?}); ControlHandler::operate(SelectBeforeOperate) was called for indices {:?}, expected {:?}",
                            if expect { "execute" } else { "refuse" },
                            armed.as_ref().map(|a| (a.seq, a.t_first, a.t_last)),
                            near,
                            executed,
                            want
                        );
                        out.fail(
                            Fail::new(
                                if expect {
                                    "matching-operate-not-executed"
                                } else {
                                    "operate-executed-without-valid-select"
                                },
                                d,
                            )
                            .with_sig(format!(
                                "C04 {} why={:?}",
                                if expect { "not-executed" } else { "executed" },
                                near
                            )),
                        );
                    }
                    if !expect && echo_statuses.iter().any(|x| *x == 0) {
                        out.fail(Fail::new(
                            "refused-operate-echoes-success",
                            format!(
                                "OPERATE without valid SELECT answered with statuses {:?}",
                                echo_statuses
                            ),
                        ));
                    }
                    if expect && (echo_statuses.is_empty() || echo_statuses.iter().any(|x| *x != 0))
                    {
                        out.fail(Fail::new(
                            "executed-operate-echo",
                            format!(
                                "executed OPERATE answered with statuses {:?}",
                                echo_statuses
                            ),
                        ));
                    }
                } else {
                    out.label("timeout_instant_not_judged");
                }
                // an OPERATE is itself a fragment other than the SELECT
                if !is_repeat_of_last {
                    disarm!("intervening");
                    if expect || uncertain {
                        last_good_select = None;
                    }
                }
            }
            Op::DirectOperate(hs) => {
                seq = (seq + 1) & 0x0F;
                let frag =
                    Fragment::request(seq, func::DIRECT_OPERATE, encode_headers(hs)).encode();
                rig.send_fragment(&frag);
                rig.settle().await;
                last_fragment = Some(frag);
                disarm!("intervening");
            }
            Op::Read => {
                seq = (seq + 1) & 0x0F;
                let frag = Fragment::request(seq, func::READ, ra::h_all(60, 1)).encode();
                rig.send_fragment(&frag);
                rig.settle().await;
                // (a READ received during the unsolicited confirm wait is put aside, not processed: the request
                // "processed last", whose byte-identical repeat is echoed, is still the one before it)
                if !case.unsol_wait {
                    last_fragment = Some(frag);
                } else {
                    // ... until the wait ends and the READ is answered after all: whether a repeat that follows is still a
                    // repeat depends on that
                    read_put_aside = Some(last_fragment.clone());
                }
                disarm!("intervening");
            }
            Op::Write => {
                seq = (seq + 1) & 0x0F;
                let frag =
                    Fragment::request(seq, func::WRITE, ra::h_range8(80, 1, 7, 7, &[0])).encode();
                rig.send_fragment(&frag);
                rig.settle().await;
                last_fragment = Some(frag);
                disarm!("intervening");
            }
            Op::Confirm(uns, s) => {
                // a CONFIRM is not a request: the "request processed last" stays what it was (C05)
                let frag = Fragment::confirm(*s, *uns).encode();
                rig.send_fragment(&frag);
                rig.settle().await;
                disarm!("intervening");
            }
            Op::Malformed(k) => {
                let frag: Vec<u8> = match k % 4 {
                    0 => vec![0xC0 | seq, 0x70],                // unknown function code
                    1 => vec![0xC0 | seq, func::SELECT, 12, 1], // truncated object header
                    2 => vec![0x80 | seq, func::SELECT],        // FIR without FIN
                    _ => vec![0xC0],                            // too short
                };
                rig.send_fragment(&frag);
                rig.settle().await;
                // only a fragment with a valid application header and flags is processed as a request
                if k % 4 == 1 {
                    last_fragment = Some(frag);
                }
                disarm!("intervening");
            }
            Op::Broadcast => {
                seq = (seq + 1) & 0x0F;
                let frag = Fragment::request(seq, func::RECORD_CURRENT_TIME, vec![]).encode();
                let b = rig.frame_fragment(MASTER_ADDR, 0xFFFF, &frag);
                rig.send_raw(&b);
                rig.settle().await;
                disarm!("intervening");
            }
            Op::Foreign => {
                let frag = Fragment::request(3, func::READ, ra::h_all(60, 1)).encode();
                let b = rig.frame_fragment(77, OUTSTATION_ADDR, &frag);
                rig.send_raw(&b);
                rig.settle().await;
                disarm!("intervening");
            }
            Op::LinkStatus => {
                // a link-layer frame is not an application fragment: it must not disturb a pending SELECT
                rig.send_raw(&rl::encode(0xC9, OUTSTATION_ADDR, MASTER_ADDR, &[]));
                rig.settle().await;
                out.label("link_status_between");
            }
            Op::RepeatLast => {
                if let Some(f) = last_fragment.clone() {
                    let is_repeat_of_armed =
                        armed.as_ref().map(|a| a.fragment == f).unwrap_or(false);
                    rig.send_fragment(&f);
                    rig.settle().await;
                    if is_repeat_of_armed {
                        out.label("select_retransmitted");
                        armed.as_mut().unwrap().t_last = rig.now_ms();
                    } else if f.len() >= 2
                        && f[1] == func::SELECT
                        && f[0] & 0xC0 == 0xC0
                        && last_fragment_select
                            .as_ref()
                            .map(|h| encode_headers(h) == f[2..])
                            .unwrap_or(false)
                    {
                        // a SELECT received again after other (non-request) fragments is a SELECT in its own right
                        let hs = last_fragment_select.clone().unwrap_or_default();
                        let idx = indices(&hs);
                        let all_ok = idx.iter().all(|i| status_of(*i) == 0)
                            && case
                                .max_controls
                                .map(|m| idx.len() <= m as usize)
                                .unwrap_or(true);
                        disarm!("intervening");
                        let now = rig.now_ms();
                        // if the outstation regards it as a retransmission the timeout may still run from the first one
                        let t_first = match &last_good_select {
                            Some((a, _)) if a.fragment == f => a.t_first,
                            _ => now,
                        };
                        if all_ok && !idx.is_empty() {
                            armed = Some(Armed {
                                seq: f[0] & 0x0F,
                                objects: f[2..].to_vec(),
                                fragment: f.clone(),
                                t_first,
                                t_last: now,
                                carried: t_first != now,
                            });
                            last_good_select = None;
                        }
                    } else {
                        disarm!("intervening");
                    }
                    let log = rig.shared.take_log();
                    if f.len() >= 2
                        && f[1] != func::READ
                        && !behind_deferred_read
                        && log.iter().any(|(_, cb)| matches!(cb, Cb::Operate(..)))
                    {
                        // repeated OPERATE / DIRECT_OPERATE must not actuate again (also C05)
                        out.fail(Fail::new("repeat-executed", "a byte-identical repeat of the previous request actuated a control again"));
                    }
                }
            }
            Op::Advance(k, ms) => {
                let dt = match k % 5 {
                    0 => 0,
                    1 => SELECT_TIMEOUT - 1,
                    2 => SELECT_TIMEOUT,
                    3 => SELECT_TIMEOUT + 1,
                    _ => (*ms % 700) as u64,
                };
                rig.advance(dt).await;
            }
            Op::Reconnect => {
                rig.disconnect().await;
                rig.connect().await;
                last_fragment = None;
                disarm!("reconnect");
            }
            Op::Preempt => {
                // no disconnect first: the server task drops the running session for the new one
                rig.connect().await;
                last_fragment = None;
                disarm!("reconnect");
                out.label("preempted");
            }
        }
        // nothing but OPERATE may reach operate(SelectBeforeOperate)
        if !matches!(op, Op::Operate(..) | Op::RepeatLast) {
            let log = rig.shared.take_log();
            if log
                .iter()
                .any(|(_, cb)| matches!(cb, Cb::Operate(_, _, ty) if ty == "SelectBeforeOperate"))
            {
                out.fail(Fail::new(
                    "sbo-operate-from-non-operate",
                    format!(
                        "{:?} led to ControlHandler::operate(SelectBeforeOperate)",
                        op
                    ),
                ));
            }
        }
    }
    if let Some(f) = rig.task_failure.take() {
        out.fail(f);
    }
    out
}

pub fn run<C: Codec>(tier: Tier) -> i32 {
    let mut ctx = Ctx::<C>::new("C04", tier);
    ctx.assumptions.push("not judged: OPERATE exactly at the timeout instant (the timeout runs from the first transmission of the SELECT, retransmissions do not extend it)".into());
    ctx.run::<Sbo>();
    ctx.finish()
}

pub fn replay<C: Codec>(text: &str, known: &[Known]) -> Option<i32> {
    replay_file::<C, Sbo>(text, known)
}
