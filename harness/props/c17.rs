//! C17 — master start-up and restart handling runs in order and gates unsolicited data
use crate::app::RetryStrategy;
use crate::master::*;
use crate::verif::engine::*;
use crate::verif::rig::handler::HEv;
use crate::verif::rig::master::*;
use crate::verif::rig::runtime;
use crate::verif::wire::app::{self as ra, func, iin1, Fragment};
use proptest::prelude::*;
use serde::{Deserialize, Serialize};
use std::time::Duration;

pub const OUT: u16 = 1024;
pub const TIMEOUT: u64 = 200;
pub const POLL_PERIOD: u64 = 300;

#[derive(Clone, Debug, Serialize, Deserialize, PartialEq)]
pub enum Beh {
    /// proper reply with these IIN1 bits (RESTART 0x80, NEED_TIME 0x10, class bits)
    Ok(u8),
    Iin2Reject(u8),
    /// IIN2 rejection (first field) that also shows IIN1 bits (second field): the indications count all the same
    Iin2RejectWith(u8, u8),
    /// reply that cannot be accepted (unparsable objects for a READ, FIN missing otherwise)
    Malformed,
    Silence,
}

#[derive(Clone, Debug, Serialize, Deserialize, PartialEq)]
pub enum Inject {
    None,
    /// unsolicited response: with data?, IIN1 bits
    Unsol(bool, u8),
    Reconnect,
}

#[derive(Clone, Debug, Serialize, Deserialize)]
pub struct Case {
    pub disable_mask: u8,
    pub enable_mask: u8,
    /// integrity poll: None = not configured, Some(event class mask) = class 0 + those
    pub integrity: Option<u8>,
    /// 0 none, 1 LAN, 2 non-LAN
    pub time_sync: u8,
    pub retry_min: u16,
    pub retry_max: u16,
    pub poll: bool,
    /// behaviour for the k-th request the master sends, then an injection
    pub script: Vec<(Beh, Inject)>,
    /// the k-th reply (if it is a proper one) also shows IIN2.3, event buffer overflow: the master - configured to do so -
    /// schedules another integrity poll, which does not close the gate for unsolicited data; a restart indication seen
    /// while that poll is pending or running does
    #[serde(default)]
    pub overflow_at: Option<u8>,
}

#[derive(Clone, Copy, Debug, PartialEq, Eq, PartialOrd, Ord)]
enum Kind {
    Clear,
    Disable,
    Integrity,
    Time,
    Enable,
    Poll,
    Other,
}

fn classify(f: &Fragment) -> Kind {
    match f.func {
        func::WRITE if f.objects.len() >= 2 && f.objects[0] == 80 => Kind::Clear,
        func::WRITE if f.objects.len() >= 2 && f.objects[0] == 50 => Kind::Time,
        func::RECORD_CURRENT_TIME | func::DELAY_MEASURE => Kind::Time,
        func::DISABLE_UNSOLICITED => Kind::Disable,
        func::ENABLE_UNSOLICITED => Kind::Enable,
        func::READ => {
            if f.objects.windows(3).any(|w| w == [60, 1, 6]) {
                Kind::Integrity
            } else {
                Kind::Poll
            }
        }
        _ => Kind::Other,
    }
}

fn classes(mask: u8) -> EventClasses {
    EventClasses::new(mask & 1 != 0, mask & 2 != 0, mask & 4 != 0)
}

pub struct Startup;

impl Prop for Startup {
    type Case = Case;
    const ID: &'static str = "C17";
    const NAME: &'static str = "startup";
    fn rule() -> &'static str {
        "association configurations (disable / enable class masks incl. empty, integrity poll on/off with event classes, auto time sync none/LAN/non-LAN, retry strategy min<=max, one periodic poll) against a scripted outstation: per request a proper reply with generated IIN1 bits (RESTART, NEED_TIME, class bits), an IIN2 rejection, an unacceptable reply or silence; unsolicited responses (empty / with data, with indication bits) and reconnects injected after any step; oracle = the ordering relation of the statement: on each connection, of the tasks still due, CLEAR_RESTART < DISABLE_UNSOLICITED < integrity READ < time sync (when NEED_TIME was seen) < ENABLE_UNSOLICITED < periodic polls; RESTART seen in any response re-arms clear/integrity/enable; a failed automatic task is retried exactly min, 2*min, 4*min ... <= max after its failure; unsolicited data before the integrity poll succeeded is neither delivered nor confirmed, empty ones are confirmed; non-trivial = an indication bit or a failure placed after the first request"
    }
    fn cases(tier: Tier) -> u32 {
        match tier {
            Tier::Quick => 100_000,
            Tier::Thorough => 4_000_000,
        }
    }
    fn floors() -> Vec<(&'static str, u32)> {
        vec![
            ("restart_seen", 100),
            ("retry_checked", 100),
            ("unsol_before_integrity", 30),
            ("reconnect", 50),
        ]
    }
    fn strategy(tier: Tier) -> BoxedStrategy<Case> {
        let beh = prop_oneof![
            8 => prop_oneof![6 => Just(0u8), 2 => Just(0x80u8), 1 => Just(0x10u8), 1 => Just(0x90u8), 1 => Just(0x02u8)].prop_map(Beh::Ok),
            1 => (1u8..8).prop_map(Beh::Iin2Reject),
            1 => (1u8..8, prop_oneof![Just(0x80u8), Just(0x90u8), Just(0x10u8)]).prop_map(|(a, b)| Beh::Iin2RejectWith(a, b)),
            1 => Just(Beh::Malformed),
            2 => Just(Beh::Silence),
        ];
        let inject = prop_oneof![
            10 => Just(Inject::None),
            2 => (any::<bool>(), prop_oneof![4 => Just(0u8), 1 => Just(0x80u8), 1 => Just(0x10u8)]).prop_map(|(d, i)| Inject::Unsol(d, i)),
            1 => Just(Inject::Reconnect),
        ];
        let n = if tier == Tier::Quick { 16 } else { 40 };
        (
            0u8..8,
            0u8..8,
            proptest::option::weighted(0.8, 0u8..8),
            0u8..3,
            prop_oneof![Just(50u16), Just(100), 20u16..300],
            0u16..1000,
            any::<bool>(),
            (
                proptest::collection::vec((beh, inject), 1..n),
                prop_oneof![2 => Just(None), 1 => (0u8..12).prop_map(Some)],
            ),
        )
            .prop_map(
                |(
                    disable_mask,
                    enable_mask,
                    integrity,
                    time_sync,
                    retry_min,
                    extra,
                    poll,
                    (script, overflow_at),
                )| Case {
                    disable_mask,
                    enable_mask,
                    integrity,
                    time_sync,
                    retry_min,
                    retry_max: retry_min.saturating_add(extra),
                    poll,
                    script,
                    overflow_at,
                },
            )
            .boxed()
    }
    fn run(case: &Case) -> CaseOut {
        let rt = runtime();
        rt.block_on(run_case(case))
    }
}

struct Model {
    need: [bool; 5],
    /// (consecutive failures, time of the last failure) per kind
    fails: [(u32, Option<u64>, usize); 5],
    /// a mis-flagged reply (FIN missing on a non-READ response) may fail the task at once or be ignored until the
    /// response timeout: the other possible failure instant of the last failure, per kind
    alt_fail: [Option<u64>; 5],
    /// the outcome of an IIN2-rejected disable/enable/clear is left open: retried or given up
    open: [bool; 5],
    integrity_done: bool,
    time_step: u8,
    /// an overflow indication asked for one more integrity poll: where in the order it runs is not stated
    overflow_pending: bool,
}

async fn run_case(case: &Case) -> CaseOut {
    let mut out = CaseOut::default();
    let mut rig = MasterRig::start(true, [0; 4], 2048).await;
    let mut cfg = AssociationConfig::quiet();
    cfg.response_timeout = crate::app::Timeout::from_millis(TIMEOUT).unwrap();
    cfg.disable_unsol_classes = classes(case.disable_mask);
    cfg.enable_unsol_classes = classes(case.enable_mask);
    cfg.startup_integrity_classes = match case.integrity {
        Some(m) => Classes::new(true, classes(m)),
        None => Classes::none(),
    };
    cfg.auto_integrity_scan_on_buffer_overflow = case.overflow_at.is_some();
    cfg.auto_time_sync = match case.time_sync {
        1 => Some(TimeSyncProcedure::Lan),
        2 => Some(TimeSyncProcedure::NonLan),
        _ => None,
    };
    cfg.auto_tasks_retry_strategy = RetryStrategy::new(
        Duration::from_millis(case.retry_min as u64),
        Duration::from_millis(case.retry_max as u64),
    );
    rig.add_association(OUT, cfg, Some(1_000_000)).await;
    if case.poll {
        let mut h = rig.assocs[&OUT].handle.clone();
        let p = rig.polls.clone();
        tokio::spawn(crate::verif::rig::Counted::new(
            async move {
                h.add_poll(
                    ReadRequest::class_scan(Classes::new(
                        false,
                        EventClasses::new(true, false, false),
                    )),
                    Duration::from_millis(POLL_PERIOD),
                )
                .await
            },
            p,
        ));
        rig.settle().await;
    }
    let fresh = |case: &Case| Model {
        need: [
            false,
            case.disable_mask & 7 != 0,
            case.integrity.is_some(),
            false,
            case.enable_mask & 7 != 0,
        ],
        fails: [(0, None, 0); 5],
        alt_fail: [None; 5],
        open: [false; 5],
        integrity_done: case.integrity.is_none(),
        time_step: 0,
        overflow_pending: false,
    };
    let mut m = fresh(case);
    let mut overflow_ever = false;
    rig.connect().await;
    let mut unsol_seq = 0u8;
    let mut pre_sent: Vec<Vec<u8>> = vec![];
    let on_iin = |m: &mut Model, case: &Case, i1: u8| {
        if i1 & iin1::RESTART != 0 && !m.need[0] {
            m.need[0] = true;
            m.need[2] = case.integrity.is_some();
            m.need[4] = case.enable_mask & 7 != 0;
            // re-armed for certain, whatever became of an earlier rejected attempt
            m.open[2] = false;
            m.open[4] = false;
            if case.integrity.is_some() {
                m.integrity_done = false;
            }
        }
        if i1 & iin1::NEED_TIME != 0 && case.time_sync != 0 {
            m.need[3] = true;
        }
    };
    let delay_for = |n: u32| -> u64 {
        let mut d = case.retry_min as u64;
        for _ in 1..n {
            d = (d * 2).min(case.retry_max as u64);
        }
        d.min(case.retry_max as u64).max(if n >= 1 { 0 } else { 0 })
    };

    for (k, (beh, inject)) in case.script.iter().enumerate() {
        if out.failed() || rig.task_failure.is_some() {
            break;
        }
        // wait for the next request (virtual time moves in small steps)
        let mut req: Option<(u64, Fragment)> = None;
        let mut stray_confirms = vec![];
        for _ in 0..400 {
            for (t, dst, f) in rig.take_requests() {
                if f.func == func::CONFIRM {
                    stray_confirms.push(f);
                } else if dst == OUT && req.is_none() {
                    req = Some((t, f));
                }
            }
            if req.is_some() {
                break;
            }
            rig.advance(5).await;
        }
        let (t, f) = match req {
            Some(x) => x,
            None => break, // nothing due any more
        };
        // a request that was already on the wire when the harness injected an indication is judged leniently
        let sent_before_indication = pre_sent.iter().any(|b| *b == f.encode());
        pre_sent.clear();
        let kind = classify(&f);
        if std::env::var("VERIF_TRACE").is_ok() {
            println!("[req #{k} @{t}] {:?} func={} seq={}  need={:?} open={:?} fails={:?} beh={:?} inject={:?}", kind, f.func, f.seq, m.need, m.open, m.fails, beh, inject);
        }
        // --- ordering ---
        let due: Option<usize> = (0..5).find(|i| m.need[*i] && !m.open[*i]);
        let open_before: Vec<usize> = (0..5).filter(|i| m.need[*i] && m.open[*i]).collect();
        let ki = match kind {
            Kind::Clear => Some(0),
            Kind::Disable => Some(1),
            Kind::Integrity => Some(2),
            Kind::Time => Some(3),
            Kind::Enable => Some(4),
            _ => None,
        };
        let continuing_time_sync = kind == Kind::Time && m.time_step > 0;
        // the integrity poll an overflow indication asked for may run wherever the master puts it
        let overflow_scan = kind == Kind::Integrity && m.overflow_pending && due != Some(2);
        if overflow_scan {
            out.label("integrity_poll_for_an_overflow");
        }
        let ok_order = continuing_time_sync
            || overflow_scan
            || sent_before_indication
            || match (ki, due) {
                (Some(k), Some(d)) => k == d || (open_before.contains(&k) && k < d),
                (Some(k), None) => open_before.contains(&k),
                (None, Some(_)) => false,
                (None, None) => kind == Kind::Poll,
            }
            || (kind == Kind::Poll && due.is_none());
        if !ok_order {
            let names = [
                "CLEAR_RESTART",
                "DISABLE_UNSOLICITED",
                "INTEGRITY",
                "TIME_SYNC",
                "ENABLE_UNSOLICITED",
            ];
            out.fail(
                Fail::new(
                    "startup-order",
                    format!("request #{k} at t={t} is {:?} (func {}), but {} is due first (needs: {:?})", kind, f.func, due.map(|d| names[d]).unwrap_or("only periodic polls"), m.need),
                )
                .with_sig(format!("C17 order sent={:?} due={:?}", kind, due.map(|d| names[d]))),
            );
            break;
        }
        // an open (IIN2-rejected) task that was skipped is considered given up
        if sent_before_indication {
            // no conclusion can be drawn from a request that was already on the wire
        } else if let Some(kix) = ki {
            for o in open_before {
                if o < kix || o == kix {
                    if o != kix {
                        m.need[o] = false;
                    }
                    m.open[o] = false;
                }
            }
        } else {
            for o in open_before {
                m.need[o] = false;
                m.open[o] = false;
            }
        }
        // --- retry timing ---
        if let Some(kix) = ki {
            if let (n, Some(tf), at) = m.fails[kix] {
                // (an integrity poll that an overflow indication asked for may be a task of its own, with its own count of
                // failures: once one has been asked for, the delays of integrity polls are not judged)
                if n > 0 && !(kix == 3 && m.time_step > 0) && !(kix == 2 && overflow_ever) {
                    let want = delay_for(n);
                    out.label("retry_checked");
                    // the retry is due exactly then, unless a task of higher priority was in the way
                    let nothing_between = at + 1 == k;
                    let off = |tf: u64| t < tf + want || (nothing_between && t > tf + want + 10);
                    if off(tf) && m.alt_fail[kix].map(off).unwrap_or(true) {
                        out.fail(
                            Fail::new("retry-delay", format!("{:?} failed {n} time(s), last at t={tf}; retried at t={t}, i.e. after {} ms; the strategy (min {} max {}) prescribes {want} ms", kind, t - tf, case.retry_min, case.retry_max))
                                .with_sig(format!("C17 retry-delay n={n} early={}", t < tf + want)),
                        );
                        break;
                    }
                }
            }
        }
        if k > 0 && (matches!(beh, Beh::Ok(x) if *x != 0) || !matches!(beh, Beh::Ok(_))) {
            out.nontrivial = true;
        }
        // --- reply ---
        let mut r = Fragment {
            fir: true,
            fin: true,
            con: false,
            uns: false,
            seq: f.seq,
            func: func::RESPONSE,
            iin: Some((0, 0)),
            objects: vec![],
        };
        if f.func == func::READ {
            r.objects = ra::h_range8(1, 2, 0, 1, &[0x81, 0x01]);
        }
        if f.func == func::DELAY_MEASURE {
            r.objects = ra::h_count8(52, 2, 1, &[0, 0]);
        }
        let mut success = false;
        let mut fail_time = t;
        let mut late_iin: Option<u8> = None;
        let mut alt: Option<u64> = None;
        match beh {
            Beh::Ok(i1) => {
                let overflow = case.overflow_at.map(|x| x as usize) == Some(k);
                r.iin = Some((*i1, if overflow { 0x08 } else { 0 }));
                rig.respond(OUT, &r);
                rig.settle().await;
                if overflow && case.integrity.is_some() {
                    // another integrity poll is due (the gate for unsolicited data stays as it is)
                    out.label("overflow_indication_seen");
                    m.overflow_pending = true;
                    overflow_ever = true;
                }
                if *i1 & iin1::RESTART != 0 {
                    out.label("restart_seen");
                }
                success = true;
                fail_time = rig.now_ms();
                // the clear-restart write only succeeds if the bit is gone; the time write only if NEED_TIME is gone
                if kind == Kind::Clear && *i1 & iin1::RESTART != 0 {
                    success = false;
                }
                let last_time_step = kind == Kind::Time && (f.func == func::WRITE);
                if last_time_step && *i1 & iin1::NEED_TIME != 0 {
                    success = false;
                }
                // the indications of this reply are applied AFTER the task's own result (below): a restart shown in the
                // reply to the integrity poll or to ENABLE_UNSOLICITED re-arms that very step ("whenever a response
                // shows the restart indication it first clears that bit, then repeats the integrity poll and the
                // enable step")
                late_iin = Some(*i1);
                if kind == Kind::Time && !last_time_step {
                    on_iin(&mut m, case, *i1);
                    m.time_step = 1;
                    success = false; // not finished yet, but not failed either
                    fail_time = 0;
                    if let Some(kix) = ki {
                        let _ = kix;
                    }
                    // fall through without touching need/fails
                    inject_after(
                        &mut rig,
                        &mut m,
                        case,
                        inject,
                        &mut unsol_seq,
                        &mut out,
                        &on_iin,
                        &fresh,
                        &mut pre_sent,
                    )
                    .await;
                    continue;
                }
            }
            Beh::Iin2Reject(b) | Beh::Iin2RejectWith(b, _) => {
                let i1 = if let Beh::Iin2RejectWith(_, i) = beh {
                    *i
                } else {
                    0
                };
                if i1 & iin1::RESTART != 0 {
                    out.label("restart_seen");
                    out.label("restart_in_rejection");
                }
                late_iin = Some(i1);
                r.iin = Some((i1, *b & 0x07));
                rig.respond(OUT, &r);
                rig.settle().await;
                fail_time = rig.now_ms();
                // the purpose of the restart-bit write is achieved when a reply shows the bit clear, rejected or not
                if kind == Kind::Clear && i1 & iin1::RESTART == 0 {
                    success = true;
                }
            }
            Beh::Malformed => {
                if f.func == func::READ {
                    r.objects = vec![1, 2, 0];
                } else {
                    r.fin = false;
                    r.con = true;
                }
                rig.respond(OUT, &r);
                rig.settle().await;
                fail_time = rig.now_ms();
                if f.func != func::READ {
                    alt = Some(t + TIMEOUT);
                }
            }
            Beh::Silence => {
                rig.advance(TIMEOUT).await;
                fail_time = t + TIMEOUT;
            }
        }
        // a step that was already on the wire when a restart indication arrived (unsolicited) does not count as the
        // repetition the restart calls for
        let overtaken = sent_before_indication && m.need[0] && matches!(ki, Some(2) | Some(4));
        if overtaken {
            out.label("step_overtaken_by_restart");
        }
        if let Some(kix) = ki {
            if success && overtaken {
                m.fails[kix] = (0, None, 0);
            } else if success {
                m.need[kix] = false;
                m.fails[kix] = (0, None, 0);
                m.time_step = 0;
                if kix == 2 {
                    m.integrity_done = true;
                    m.overflow_pending = false;
                }
            } else if matches!(beh, Beh::Iin2Reject(_) | Beh::Iin2RejectWith(..))
                && matches!(kix, 1 | 4)
            {
                // rejected by the outstation: giving up and retrying with back-off are both accepted
                m.open[kix] = true;
                m.fails[kix] = (0, None, 0);
            } else {
                let n = m.fails[kix].0 + 1;
                m.fails[kix] = (n, Some(fail_time), k);
                m.alt_fail[kix] = alt;
                m.time_step = 0;
            }
        }
        if let Some(i1) = late_iin {
            if i1 & iin1::RESTART != 0 && matches!(ki, Some(2) | Some(4)) && success {
                out.label("restart_in_reply_to_the_step_it_rearms");
            }
            on_iin(&mut m, case, i1);
        }
        inject_after(
            &mut rig,
            &mut m,
            case,
            inject,
            &mut unsol_seq,
            &mut out,
            &on_iin,
            &fresh,
            &mut pre_sent,
        )
        .await;
    }
    if let Some(f) = rig.task_failure.take() {
        out.fail(f);
    }
    out
}

#[allow(clippy::too_many_arguments)]
async fn inject_after(
    rig: &mut MasterRig,
    m: &mut Model,
    case: &Case,
    inject: &Inject,
    unsol_seq: &mut u8,
    out: &mut CaseOut,
    on_iin: &dyn Fn(&mut Model, &Case, u8),
    fresh: &dyn Fn(&Case) -> Model,
    pre_sent: &mut Vec<Vec<u8>>,
) {
    match inject {
        Inject::None => {}
        Inject::Reconnect => {
            out.label("reconnect");
            rig.disconnect().await;
            let _ = rig.take_tx();
            *m = fresh(case);
            rig.connect().await;
        }
        Inject::Unsol(with_data, i1) => {
            *unsol_seq = (*unsol_seq + 1) & 0x0F;
            let objects = if *with_data {
                ra::h_prefixed16(2, 1, &[(40 + *unsol_seq as u16, vec![0x81])])
            } else {
                vec![]
            };
            let f = Fragment {
                fir: true,
                fin: true,
                con: true,
                uns: true,
                seq: *unsol_seq,
                func: func::UNSOLICITED_RESPONSE,
                iin: Some((*i1, 0)),
                objects,
            };
            let _ = rig.assocs[&OUT].read.take();
            // the indications of the unsolicited response itself count: RESTART re-arms the integrity poll
            let mut probe = Model {
                need: m.need,
                fails: m.fails,
                alt_fail: m.alt_fail,
                open: m.open,
                integrity_done: m.integrity_done,
                time_step: m.time_step,
                overflow_pending: m.overflow_pending,
            };
            on_iin(&mut probe, case, *i1);
            let gated = *with_data && !probe.integrity_done;
            if gated {
                out.label("unsol_before_integrity");
            }
            // requests already on the wire stay queued for the main loop
            for t in rig.take_tx() {
                if let MTx::Fragment { bytes, dst, t } = t {
                    if bytes.len() >= 2 && bytes[1] != func::CONFIRM {
                        pre_sent.push(bytes.clone());
                        rig.requeue.push((t, dst, bytes));
                    }
                }
            }
            rig.respond(OUT, &f);
            rig.settle().await;
            on_iin(m, case, *i1);
            let delivered: Vec<HEv> = rig.assocs[&OUT]
                .read
                .take()
                .into_iter()
                .filter(|e| matches!(e, HEv::Begin(..)))
                .collect();
            let tx = rig.take_tx();
            let confirms = tx.iter().filter(|t| matches!(t, MTx::Fragment { bytes, .. } if bytes.len() >= 2 && bytes[1] == func::CONFIRM && bytes[0] & 0x10 != 0 && bytes[0] & 0x0F == *unsol_seq)).count();
            // put back any request fragment we drained
            for t in tx {
                if let MTx::Fragment { bytes, dst, t } = t {
                    if bytes.len() >= 2 && bytes[1] != func::CONFIRM {
                        rig.requeue.push((t, dst, bytes));
                    }
                }
            }
            if gated {
                if !delivered.is_empty() || confirms != 0 {
                    out.fail(Fail::new("unsolicited-before-integrity", format!("unsolicited data arrived before the integrity poll had succeeded: delivered={} confirms={confirms}", delivered.len())).with_sig("C17 unsol-gating".to_string()));
                }
            } else if confirms != 1 {
                out.fail(Fail::new("unsolicited-not-confirmed", format!("acceptable unsolicited response (data={with_data}) was confirmed {confirms} times")));
            } else if *with_data && delivered.len() != 1 {
                out.fail(Fail::new(
                    "unsolicited-not-delivered",
                    format!(
                        "unsolicited data after start-up delivered {} times",
                        delivered.len()
                    ),
                ));
            }
        }
    }
}

pub fn run<C: Codec>(tier: Tier) -> i32 {
    let mut ctx = Ctx::<C>::new("C17", tier);
    ctx.assumptions.push("after an IIN2 rejection of DISABLE/ENABLE_UNSOLICITED or of the restart-bit write, both giving up and retrying with back-off are accepted; automatic integrity scans on EVENT_BUFFER_OVERFLOW and event scans on CLASS_n bits are configured off".into());
    ctx.run::<Startup>();
    ctx.finish()
}

pub fn replay<C: Codec>(text: &str, known: &[Known]) -> Option<i32> {
    replay_file::<C, Startup>(text, known)
}
