//! C01, master side (filled in once the MasterRig exists)
use crate::verif::engine::*;

pub fn run_master<C: Codec>(_ctx: &mut Ctx<C>) {}

pub fn replay_master<C: Codec>(_text: &str, _known: &[Known]) -> Option<i32> {
    None
}
