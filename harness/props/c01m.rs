//! C01, master side: hostile session scripts against a real master (real link layer, transport function, task
//! scheduler), then a liveness probe: the master still answers a link status request, still transmits a user request
//! at once and completes it when it is answered.
use crate::app::{FunctionCode, RetryStrategy, Timeout, Variation};
use crate::master::*;
use crate::verif::engine::*;
use crate::verif::props::fraggen::{self, frag_strategy, FragSpec};
use crate::verif::rig::master::{assoc_config, MTx, MasterRig, M_ADDR};
use crate::verif::rig::runtime;
use crate::verif::wire::app::{self as ra, func, Fragment};
use crate::verif::wire::link as rl;
use proptest::prelude::*;
use serde::{Deserialize, Serialize};
use std::time::Duration;

pub const OUT: u16 = 1024;
pub const TIMEOUT: u64 = 200;

#[derive(Clone, Debug, Serialize, Deserialize)]
pub enum Step {
    /// application fragment from the grammar (function biased to responses), in valid link frames from the outstation
    Fragment(FragSpec, bool),
    /// a response-shaped fragment that matches the request currently outstanding in sequence number: hostile object part
    Answer(FragSpec),
    /// the correct, empty/null answer to whatever is outstanding
    Proper,
    /// answer the outstanding request by echoing its object part: 0 faithfully, 1 with one more object in the first
    /// prefixed header, 2 with one object fewer, 3 the whole object part twice, 4 count octet + 1 without data
    Echo(u8),
    /// raw octets as the payload of a valid link data frame
    RawSegment(Vec<u8>),
    /// raw octets straight onto the wire
    RawBytes(Vec<u8>),
    /// a frame from an address that has no association
    Foreign(FragSpec),
    /// user request: 0 read class 0, 1 read classes 1-3, 2 direct operate, 3 select-before-operate, 4 time sync LAN, 5 time sync non-LAN,
    /// 6 cold restart, 7 link status, 8 write dead-bands, 9 freeze (empty response), 10 read g0v254, 11 read file
    User(u8),
    Advance(u16),
    Reconnect,
    /// a user request (0 direct operate, 1 warm restart, 2 write dead-bands, 3 freeze-and-clear, 4 read of a range) is never
    /// answered; instead the outstation keeps the line busy - kind 0 null unsolicited responses, 1 responses with another
    /// sequence number, 2 link status requests, 3 frames from an unknown outstation, 4 (READ only) the first fragment of a
    /// response series, accepted and confirmed once and then repeated instead of the next one - one every `every` ms (less
    /// than the response timeout) for longer than four response timeouts: the request must still end (with a time-out)
    Starve(u8, u8, u16),
}

#[derive(Clone, Debug, Serialize, Deserialize)]
pub struct Case {
    pub discard: bool,
    pub decode: [u8; 4],
    pub tx: u16,
    /// full start-up sequence (disable unsolicited, integrity poll, enable unsolicited) or a quiet association
    pub startup: bool,
    pub poll_ms: Option<u16>,
    pub keep_alive_ms: Option<u16>,
    pub chunk: u16,
    pub steps: Vec<Step>,
    /// the application has no clock (`get_current_time` returns None): automatic time synchronisation, asked for by the
    /// outstation's NEED_TIME indication, cannot even start
    #[serde(default)]
    pub no_clock: bool,
}

fn send_chunked(rig: &mut MasterRig, bytes: &[u8], chunk: u16) {
    if chunk == 0 {
        rig.send_raw(bytes);
    } else {
        for c in bytes.chunks(chunk as usize) {
            rig.send_raw(c);
        }
    }
}

struct NullFileReader;
impl FileReader for NullFileReader {
    fn opened(&mut self, _size: u32) -> FileAction {
        FileAction::Continue
    }
    fn block_received(
        &mut self,
        _block_num: u32,
        _data: &[u8],
    ) -> crate::app::MaybeAsync<FileAction> {
        crate::app::MaybeAsync::ready(FileAction::Continue)
    }
    fn aborted(&mut self, _err: FileError) {}
    fn completed(&mut self) {}
}

pub async fn run_script(case: &Case) -> CaseOut {
    let mut out = CaseOut::default();
    let mut rig = MasterRig::start(case.discard, case.decode, case.tx).await;
    let mut cfg = if case.startup {
        let mut c = AssociationConfig::new(
            EventClasses::all(),
            EventClasses::all(),
            Classes::all(),
            EventClasses::all(),
        );
        c.response_timeout = Timeout::from_millis(TIMEOUT).unwrap();
        c.auto_tasks_retry_strategy =
            RetryStrategy::new(Duration::from_millis(50), Duration::from_millis(400));
        c.auto_time_sync = Some(TimeSyncProcedure::Lan);
        c
    } else {
        assoc_config(TIMEOUT)
    };
    cfg.keep_alive_timeout = case
        .keep_alive_ms
        .map(|x| Duration::from_millis(20 + x as u64));
    if case.no_clock {
        out.label("application_without_a_clock");
    }
    rig.add_association(
        OUT,
        cfg,
        if case.no_clock {
            None
        } else {
            Some(1_700_000_000_000)
        },
    )
    .await;
    if let Some(p) = case.poll_ms {
        let mut h = rig.assocs.get_mut(&OUT).unwrap().handle.clone();
        let _ = h
            .add_poll(
                ReadRequest::class_scan(Classes::all()),
                Duration::from_millis(20 + p as u64),
            )
            .await;
    }
    rig.connect().await;
    let mut last_req: Option<Fragment> = None;
    let mut link_damage = false;
    let mut injected_mid_task = false;

    for step in &case.steps {
        // what the master has transmitted so far: remember the latest request (to be able to "answer" it)
        for (_, _, f) in rig.take_requests() {
            if f.func != func::CONFIRM {
                last_req = Some(f);
            }
        }
        let outstanding = last_req.is_some();
        match step {
            Step::Fragment(spec, from_other_seq) => {
                let mut bytes = fraggen::build(spec);
                if !*from_other_seq {
                    if let (Some(r), true) = (&last_req, bytes.len() >= 1) {
                        bytes[0] = (bytes[0] & 0xF0) | r.seq;
                    }
                }
                let b = rig.frame_fragment(OUT, M_ADDR, &bytes);
                send_chunked(&mut rig, &b, case.chunk);
                out.label(if outstanding {
                    "inject_mid_task"
                } else {
                    "inject_idle"
                });
                injected_mid_task |= outstanding;
                out.nontrivial = true;
            }
            Step::Answer(spec) => {
                if let Some(r) = &last_req {
                    // FIR/FIN response with the right sequence number and a hostile object part
                    let mut bytes = vec![0xC0 | r.seq, 129, spec.iin.0, spec.iin.1 & 0xF8];
                    for h in &spec.headers {
                        bytes.extend(fraggen::build_header(
                            h,
                            129,
                            1800usize.saturating_sub(bytes.len()),
                        ));
                    }
                    bytes.truncate(2040);
                    let b = rig.frame_fragment(OUT, M_ADDR, &bytes);
                    send_chunked(&mut rig, &b, case.chunk);
                    last_req = None;
                    out.label("hostile_answer");
                    injected_mid_task = true;
                    out.nontrivial = true;
                }
            }
            Step::Echo(kind) => {
                if let Some(r) = last_req.take() {
                    let mut objects = r.objects.clone();
                    if let Ok(hs) = ra::walk(r.func, &r.objects) {
                        if let Some(h) = hs
                            .iter()
                            .find(|h| (h.q == 0x17 || h.q == 0x28) && !h.objects.is_empty())
                        {
                            // re-encode that header with the chosen deviation (it is the first such header of the fragment)
                            let start: usize =
                                hs.iter().take_while(|x| *x != h).map(|x| x.raw_len).sum();
                            let wide = h.q == 0x28;
                            let mut objs: Vec<(u32, Vec<u8>)> = h
                                .objects
                                .iter()
                                .map(|o| (o.index.unwrap_or(0), o.data.clone()))
                                .collect();
                            let mut count_bump = 0i32;
                            match kind % 5 {
                                1 => objs.push(objs.last().cloned().unwrap()),
                                2 => {
                                    objs.pop();
                                }
                                4 => count_bump = 1,
                                _ => {}
                            }
                            let mut enc = vec![h.g, h.v, h.q];
                            let n = objs.len() as i32 + count_bump;
                            if wide {
                                enc.extend_from_slice(&(n as u16).to_le_bytes());
                            } else {
                                enc.push(n as u8);
                            }
                            for (i, d) in &objs {
                                if wide {
                                    enc.extend_from_slice(&(*i as u16).to_le_bytes());
                                } else {
                                    enc.push(*i as u8);
                                }
                                enc.extend_from_slice(d);
                            }
                            let mut o = r.objects[..start].to_vec();
                            o.extend(enc);
                            o.extend_from_slice(&r.objects[start + h.raw_len..]);
                            objects = o;
                        }
                    }
                    if kind % 5 == 3 {
                        let twice = objects.clone();
                        objects.extend(twice);
                    }
                    objects.truncate(2030);
                    let f = Fragment {
                        fir: true,
                        fin: true,
                        con: false,
                        uns: false,
                        seq: r.seq,
                        func: func::RESPONSE,
                        iin: Some((0, 0)),
                        objects,
                    };
                    rig.respond(OUT, &f);
                    out.label("echo_answer");
                    injected_mid_task = true;
                    out.nontrivial = true;
                }
            }
            Step::Proper => {
                if let Some(r) = last_req.take() {
                    let f = Fragment {
                        fir: true,
                        fin: true,
                        con: false,
                        uns: false,
                        seq: r.seq,
                        func: func::RESPONSE,
                        iin: Some((0, 0)),
                        objects: vec![],
                    };
                    rig.respond(OUT, &f);
                    out.label("proper_answer");
                }
            }
            Step::RawSegment(data) => {
                let b = rl::encode(0x44, M_ADDR, OUT, data);
                send_chunked(&mut rig, &b, case.chunk);
                out.label("raw_segment");
                out.nontrivial = true;
            }
            Step::RawBytes(data) => {
                send_chunked(&mut rig, data, case.chunk);
                link_damage = true;
                out.label("raw_bytes");
            }
            Step::Foreign(spec) => {
                let bytes = fraggen::build(spec);
                let b = rig.frame_fragment(3000, M_ADDR, &bytes);
                send_chunked(&mut rig, &b, case.chunk);
                out.label("foreign_source");
            }
            Step::User(k) => {
                let mut h = rig.assocs.get_mut(&OUT).unwrap().handle.clone();
                let name = format!("user{k}");
                match k % 12 {
                    0 => drop(rig.submit(&name, async move {
                        h.read(ReadRequest::class_scan(Classes::class0()))
                            .await
                            .map_err(|e| format!("{e:?}"))
                    })),
                    1 => drop(rig.submit(&name, async move {
                        h.read(ReadRequest::class_scan(Classes::class123()))
                            .await
                            .map_err(|e| format!("{e:?}"))
                    })),
                    2 => drop(rig.submit(&name, async move {
                        h.operate(
                            CommandMode::DirectOperate,
                            CommandBuilder::single_header_u16(
                                crate::app::control::Group12Var1::from_op_type(
                                    crate::app::control::OpType::LatchOn,
                                ),
                                65535u16,
                            ),
                        )
                        .await
                        .map_err(|e| format!("{e:?}"))
                    })),
                    3 => drop(rig.submit(&name, async move {
                        h.operate(
                            CommandMode::SelectBeforeOperate,
                            CommandBuilder::single_header_u8(
                                crate::app::control::Group41Var4::new(1.5),
                                255u8,
                            ),
                        )
                        .await
                        .map_err(|e| format!("{e:?}"))
                    })),
                    4 => drop(rig.submit(&name, async move {
                        h.synchronize_time(TimeSyncProcedure::Lan)
                            .await
                            .map_err(|e| format!("{e:?}"))
                    })),
                    5 => drop(rig.submit(&name, async move {
                        h.synchronize_time(TimeSyncProcedure::NonLan)
                            .await
                            .map_err(|e| format!("{e:?}"))
                    })),
                    6 => drop(rig.submit(&name, async move {
                        h.cold_restart()
                            .await
                            .map(|_| ())
                            .map_err(|e| format!("{e:?}"))
                    })),
                    7 => drop(rig.submit(&name, async move {
                        h.check_link_status().await.map_err(|e| format!("{e:?}"))
                    })),
                    8 => drop(rig.submit(&name, async move {
                        h.write_dead_bands(vec![DeadBandHeader::group34_var3_u16(vec![(
                            65535, 1.5,
                        )])])
                        .await
                        .map_err(|e| format!("{e:?}"))
                    })),
                    9 => drop(rig.submit(&name, async move {
                        h.send_and_expect_empty_response(
                            FunctionCode::ImmediateFreeze,
                            Headers::default().add_all_objects(Variation::Group20Var0),
                        )
                        .await
                        .map_err(|e| format!("{e:?}"))
                    })),
                    10 => drop(rig.submit(&name, async move {
                        h.read(ReadRequest::all_objects(Variation::Group0Var254))
                            .await
                            .map_err(|e| format!("{e:?}"))
                    })),
                    _ => drop(rig.submit(&name, async move {
                        h.read_file(
                            "f",
                            FileReadConfig::default(),
                            Box::new(NullFileReader),
                            None,
                        )
                        .await
                        .map_err(|e| format!("{e:?}"))
                    })),
                }
                out.label("user_request");
            }
            Step::Advance(ms) => rig.advance(*ms as u64).await,
            Step::Starve(user, kind, every) => {
                // let what is outstanding run out first (nothing is answered)
                rig.advance(3 * TIMEOUT).await;
                let _ = rig.take_requests();
                let mut h = rig.assocs.get_mut(&OUT).unwrap().handle.clone();
                // requests that no other step makes, so that the fragment on the wire identifies the task
                let (p, want_func, want_objs): (crate::verif::rig::master::Pending, u8, Vec<u8>) =
                    match user % 5 {
                        0 => (
                            rig.submit("starved", async move {
                                h.operate(
                                    CommandMode::DirectOperate,
                                    CommandBuilder::single_header_u16(
                                        crate::app::control::Group12Var1::from_op_type(
                                            crate::app::control::OpType::LatchOn,
                                        ),
                                        4242u16,
                                    ),
                                )
                                .await
                                .map_err(|e| format!("{e:?}"))
                            }),
                            func::DIRECT_OPERATE,
                            vec![12, 1, 0x28, 1, 0, 0x92, 0x10],
                        ),
                        1 => (
                            rig.submit("starved", async move {
                                h.warm_restart()
                                    .await
                                    .map(|_| ())
                                    .map_err(|e| format!("{e:?}"))
                            }),
                            func::WARM_RESTART,
                            vec![],
                        ),
                        2 => (
                            rig.submit("starved", async move {
                                h.write_dead_bands(vec![DeadBandHeader::group34_var3_u16(vec![(
                                    4242, 1.5,
                                )])])
                                .await
                                .map_err(|e| format!("{e:?}"))
                            }),
                            func::WRITE,
                            vec![34, 3, 0x28, 1, 0, 0x92, 0x10],
                        ),
                        3 => (
                            rig.submit("starved", async move {
                                h.send_and_expect_empty_response(
                                    FunctionCode::FreezeClear,
                                    Headers::default().add_all_objects(Variation::Group20Var0),
                                )
                                .await
                                .map_err(|e| format!("{e:?}"))
                            }),
                            func::FREEZE_CLEAR,
                            vec![20, 0],
                        ),
                        _ => (
                            rig.submit("starved", async move {
                                h.read(ReadRequest::one_byte_range(Variation::Group30Var1, 77, 78))
                                    .await
                                    .map_err(|e| format!("{e:?}"))
                            }),
                            func::READ,
                            vec![30, 1, 0, 77, 78],
                        ),
                    };
                // wait (answering nothing) until that very request is on the wire; other work may be ahead of it
                let mut sent: Option<Fragment> = None;
                for _ in 0..24 {
                    rig.settle().await;
                    for (_, _, f) in rig.take_requests() {
                        if f.func == want_func
                            && f.objects.starts_with(&want_objs)
                            && f.func != func::CONFIRM
                        {
                            sent = Some(f);
                        }
                    }
                    if sent.is_some() || !p.outcomes().is_empty() {
                        break;
                    }
                    rig.advance(TIMEOUT / 4).await;
                }
                if let (Some(req), true) = (sent, p.outcomes().is_empty()) {
                    out.label("starved_request");
                    out.nontrivial = true;
                    let every = 1 + (*every as u64 % (TIMEOUT - 1));
                    let mut waited = 0u64;
                    let mut n = 0u8;
                    // kind 4: the READ is answered with the first fragment of a series (FIR, no FIN, CON), which the master
                    // accepts and confirms - and then that same fragment is repeated for ever instead of the next one
                    let first_of_series = Fragment {
                        fir: true,
                        fin: false,
                        con: true,
                        uns: false,
                        seq: req.seq,
                        func: func::RESPONSE,
                        iin: Some((0, 0)),
                        objects: ra::h_range8(30, 1, 77, 77, &[0x01, 5, 0, 0, 0]),
                    };
                    let mid_series = kind % 5 == 4 && want_func == func::READ;
                    if mid_series {
                        rig.respond(OUT, &first_of_series);
                        rig.settle().await;
                        let _ = rig.take_requests();
                        out.label("starved_in_the_middle_of_a_series");
                    }
                    let kind = if mid_series { 4u8 } else { kind % 5 % 4 };
                    // a deadline that interference can push back a bounded number of times is still a deadline; one that
                    // every fragment restarts is a wedge: four times the response timeout separates the two
                    while waited <= 4 * TIMEOUT + every
                        && (waited <= TIMEOUT + every || p.outcomes().is_empty())
                    {
                        match kind {
                            4 => rig.respond(OUT, &first_of_series),
                            0 => {
                                let f = Fragment {
                                    fir: true,
                                    fin: true,
                                    con: true,
                                    uns: true,
                                    seq: n & 0x0F,
                                    func: func::UNSOLICITED_RESPONSE,
                                    iin: Some((0, 0)),
                                    objects: vec![],
                                };
                                rig.respond(OUT, &f);
                            }
                            1 => {
                                let f = Fragment {
                                    fir: true,
                                    fin: true,
                                    con: false,
                                    uns: false,
                                    seq: (req.seq + 1 + (n % 15)) & 0x0F,
                                    func: func::RESPONSE,
                                    iin: Some((0, 0)),
                                    objects: vec![],
                                };
                                rig.respond(OUT, &f);
                            }
                            2 => {
                                let b = rl::encode(0x49, M_ADDR, OUT, &[]);
                                rig.send_raw(&b);
                            }
                            _ => {
                                let f = Fragment {
                                    fir: true,
                                    fin: true,
                                    con: false,
                                    uns: false,
                                    seq: req.seq,
                                    func: func::RESPONSE,
                                    iin: Some((0, 0)),
                                    objects: vec![],
                                };
                                let b = rig.frame_fragment(3000, M_ADDR, &f.encode());
                                rig.send_raw(&b);
                            }
                        }
                        n = n.wrapping_add(1);
                        rig.advance(every).await;
                        waited += every;
                    }
                    rig.settle().await;
                    if p.outcomes().is_empty() {
                        out.fail(
                            Fail::new(
                                "request-outlives-its-timeout",
                                format!(
                                    "a user request (function {want_func}) transmitted {waited} ms ago and never answered is still pending although the response timeout is {TIMEOUT} ms (four times that have passed); the outstation sent {} every {every} ms in the meantime",
                                    ["null unsolicited responses", "responses with other sequence numbers", "link status requests", "frames from an unknown outstation", "the first fragment of the response series again"][kind as usize % 5]
                                ),
                            )
                            .with_sig(format!("C01 master request-outlives-its-timeout kind={}", kind)),
                        );
                        return out;
                    }
                    last_req = None;
                }
            }
            Step::Reconnect => {
                rig.disconnect().await;
                rig.connect().await;
                last_req = None;
                link_damage = false;
            }
        }
        rig.settle().await;
        if let Some(f) = rig.task_failure.clone() {
            out.fail(f);
            return out;
        }
        if !case.discard && !rig.session_alive() {
            // Close mode: a link error ended the session cleanly; the next connection must serve
            out.label("session_closed_by_link_error");
            rig.connect().await;
            last_req = None;
            link_damage = false;
        }
    }
    if injected_mid_task {
        out.label("injected_mid_task");
    }

    // ---- liveness probe ---------------------------------------------------------------------
    // let every outstanding task and retry delay run out, on a fresh connection so that link-layer resynchronisation
    // state of a damaged stream is not part of the question
    rig.disconnect().await;
    rig.advance(5 * TIMEOUT).await;
    rig.connect().await;
    rig.advance(1).await;
    // answer whatever the master asks for a while (start-up sequence, polls, queued user requests), with null responses
    let mut quiet_rounds = 0;
    for _ in 0..400 {
        let reqs = rig.take_requests();
        if reqs.is_empty() {
            quiet_rounds += 1;
            if quiet_rounds > 3 {
                break;
            }
            rig.advance(TIMEOUT / 4).await;
            continue;
        }
        quiet_rounds = 0;
        for (_, _, r) in reqs {
            if r.func == func::CONFIRM {
                continue;
            }
            let f = Fragment {
                fir: true,
                fin: true,
                con: false,
                uns: false,
                seq: r.seq,
                func: func::RESPONSE,
                iin: Some((0, 0)),
                objects: vec![],
            };
            rig.respond(OUT, &f);
            rig.settle().await;
        }
        if let Some(f) = rig.task_failure.clone() {
            out.fail(f);
            return out;
        }
    }
    let _ = rig.take_tx();
    // (1) the link layer answers a link status request
    let b = rl::encode(0x49, M_ADDR, OUT, &[]); // PRM=1, DIR=0 (from outstation), function 9 REQUEST_LINK_STATUS
    rig.send_raw(&b);
    rig.settle().await;
    let tx = rig.take_tx();
    let status_ok = tx
        .iter()
        .any(|t| matches!(t, MTx::Link { ctrl, dst, .. } if (*ctrl & 0x0F) == 0x0B && *dst == OUT));
    if !status_ok {
        out.fail(Fail::new("probe-link-status", format!("after the script the master does not answer REQUEST_LINK_STATUS; it transmitted {:?}", tx)).with_sig("C01 master probe link status"));
        return out;
    }
    // requests the master sent together with the link status reply (a poll that became due) are answered too
    for t in &tx {
        if let MTx::Fragment { bytes, .. } = t {
            if let Some(r) = Fragment::parse(bytes) {
                if r.func != func::CONFIRM {
                    let f = Fragment {
                        fir: true,
                        fin: true,
                        con: false,
                        uns: false,
                        seq: r.seq,
                        func: func::RESPONSE,
                        iin: Some((0, 0)),
                        objects: vec![],
                    };
                    rig.respond(OUT, &f);
                    rig.settle().await;
                }
            }
        }
    }
    // (2) a user read is transmitted without further time passing and completes when answered
    let mut h = rig.assocs.get_mut(&OUT).unwrap().handle.clone();
    let p = rig.submit("probe", async move {
        h.read(ReadRequest::one_byte_range(Variation::Group1Var2, 3, 4))
            .await
            .map_err(|e| format!("{e:?}"))
    });
    let mut answered = false;
    for _ in 0..60 {
        rig.settle().await;
        for (_, _, r) in rig.take_requests() {
            if r.func == func::CONFIRM {
                continue;
            }
            let is_probe = r.func == func::READ && r.objects == ra::h_range8(1, 2, 3, 4, &[]);
            let objects = if is_probe {
                ra::h_range8(1, 2, 3, 4, &[0x81, 0x01])
            } else {
                vec![]
            };
            let f = Fragment {
                fir: true,
                fin: true,
                con: false,
                uns: false,
                seq: r.seq,
                func: func::RESPONSE,
                iin: Some((0, 0)),
                objects,
            };
            rig.respond(OUT, &f);
            rig.settle().await;
            answered |= is_probe;
        }
        if !p.outcomes().is_empty() {
            break;
        }
        // other queued work (a poll that is running) may be ahead of the probe: one response timeout at a time
        rig.advance(TIMEOUT / 4).await;
    }
    let res = p.outcomes();
    if let Some(f) = rig.task_failure.clone() {
        out.fail(f);
        return out;
    }
    if !answered || res.len() != 1 || !res[0].1.starts_with("Ok") {
        out.fail(Fail::new("probe-user-read", format!("after the script a user READ is not served normally: request seen and answered = {answered}, outcome {:?}", res)).with_sig("C01 master probe user read"));
        return out;
    }
    let _ = link_damage;
    out
}

pub struct MasterScript;
impl Prop for MasterScript {
    type Case = Case;
    const ID: &'static str = "C01";
    const NAME: &'static str = "master_script";
    const TRACK_STALL: bool = true;
    fn rule() -> &'static str {
        "hostile session scripts against a real master (real link layer, transport function, task scheduler; start-up sequence with time sync or a quiet association, optional poll and keep-alive): grammar+mutated fragments with response function codes sent while a task is outstanding (sequence number matched or not) and while idle, well-sequenced responses with hostile object parts to every kind of user request (reads, commands, time sync, restart, dead-bands, freeze, attributes, file read), raw transport segments, raw wire bytes, frames from an unknown outstation, time advances, reconnects, all decode levels, both link error modes, chunked delivery; starved requests (the outstation never answers but keeps the line busy with null unsolicited responses, other sequence numbers, link status requests, foreign frames, or - for a READ - with the first fragment of the series again and again: the request must end within four response timeouts), an application with or without a clock; oracle: no panic, no busy loop, and afterwards the master answers REQUEST_LINK_STATUS and serves a user READ (transmitted, answered, completes Ok); non-trivial = an injected item that reached the transport/application layer"
    }
    fn strategy(tier: Tier) -> BoxedStrategy<Case> {
        let resp_frag = || {
            frag_strategy().prop_map(|mut f| {
                // bias towards response function codes and response control flags
                if f.func % 5 != 0 {
                    f.func = if f.func % 3 == 0 { 130 } else { 129 };
                }
                if f.func == 130 {
                    f.ctrl |= 0x10;
                }
                f
            })
        };
        let step = prop_oneof![
            5 => (resp_frag(), any::<bool>()).prop_map(|(f, o)| Step::Fragment(f, o)),
            5 => resp_frag().prop_map(Step::Answer),
            2 => Just(Step::Proper),
            4 => (0u8..5).prop_map(Step::Echo),
            1 => proptest::collection::vec(any::<u8>(), 0..40).prop_map(Step::RawSegment),
            1 => proptest::collection::vec(any::<u8>(), 1..40).prop_map(Step::RawBytes),
            1 => resp_frag().prop_map(Step::Foreign),
            6 => (0u8..12).prop_map(Step::User),
            2 => prop_oneof![Just(1u16), Just(199), Just(200), Just(201), 0u16..600].prop_map(Step::Advance),
            1 => Just(Step::Reconnect),
            2 => (0u8..5, 0u8..5, prop_oneof![Just(1u16), Just(50), Just(150), Just(198), 0u16..199]).prop_map(|(u, k, e)| Step::Starve(u, k, e)),
        ];
        let n = if tier == Tier::Quick { 14 } else { 40 };
        (
            any::<bool>(),
            any::<[u8; 4]>(),
            prop_oneof![2 => Just(249u16), 1 => 249u16..=2048, 1 => Just(2048u16)],
            (
                any::<bool>(),
                prop_oneof![3 => Just(false), 1 => Just(true)],
            ),
            proptest::option::of(0u16..500),
            proptest::option::of(0u16..500),
            prop_oneof![2 => Just(0u16), 1 => 1u16..300],
            proptest::collection::vec(step, 1..n),
        )
            .prop_map(
                |(
                    discard,
                    decode,
                    tx,
                    (startup, no_clock),
                    poll_ms,
                    keep_alive_ms,
                    chunk,
                    steps,
                )| Case {
                    discard,
                    decode,
                    tx,
                    startup,
                    poll_ms,
                    keep_alive_ms,
                    chunk,
                    steps,
                    no_clock,
                },
            )
            .boxed()
    }
    fn cases(tier: Tier) -> u32 {
        match tier {
            Tier::Quick => 40_000,
            Tier::Thorough => 2_000_000,
        }
    }
    fn run(case: &Case) -> CaseOut {
        let rt = runtime();
        rt.block_on(run_script(case))
    }
    fn floors() -> Vec<(&'static str, u32)> {
        vec![
            ("inject_mid_task", 100),
            ("hostile_answer", 100),
            ("inject_idle", 50),
        ]
    }
}

pub fn run_master<C: Codec>(ctx: &mut Ctx<C>) {
    ctx.run::<MasterScript>();
}

pub fn replay_master<C: Codec>(text: &str, known: &[Known]) -> Option<i32> {
    replay_file::<C, MasterScript>(text, known)
}
