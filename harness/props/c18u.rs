//! C18, last sentence: "answers with unexpected objects ... the synchronisation is reported as failed". The real
//! outstation of the accuracy sub-check cannot misbehave like that, so here a scripted outstation answers the real
//! master: every step of the procedure faithfully, except one reply that carries something it must not carry - a
//! well-formed header nobody asked for, an object the parser does not know, a truncated object, surplus objects behind
//! the expected one. The user's request must then resolve with an error.
use crate::master::*;
use crate::verif::engine::*;
use crate::verif::props::c16::answer;
use crate::verif::rig::master::*;
use crate::verif::rig::runtime;
use crate::verif::wire::app::{self as ra, func, Fragment};
use proptest::prelude::*;
use serde::{Deserialize, Serialize};

const OUT: u16 = 1024;
const TIMEOUT: u64 = 1000;

#[derive(Clone, Debug, Serialize, Deserialize)]
pub struct Case {
    /// 0 LAN (RECORD_CURRENT_TIME, WRITE g50v3), 1 non-LAN (DELAY_MEASURE, WRITE g50v1), 2 direct write (WRITE g50v1)
    pub procedure: u8,
    /// which reply (0-based step of the procedure, modulo its number of steps) deviates
    pub step: u8,
    /// 0 a well-formed static header (g1v2), 1 an object group/variation no parser knows, 2 a truncated object,
    /// 3 a well-formed event header (g2v1), 4 a second time-delay object; None = every reply is as it should be
    pub deviant: Option<u8>,
}

fn deviant_objects(k: u8) -> Vec<u8> {
    match k % 5 {
        0 => ra::h_range8(1, 2, 0, 0, &[0x81]),
        1 => vec![50, 99, 0x06],
        // g30v1 range 0..0 needs five octets
        2 => vec![30, 1, 0x00, 0, 0, 0x01, 0x02],
        3 => ra::h_prefixed16(2, 1, &[(3, vec![0x81])]),
        _ => ra::h_count8(52, 2, 1, &[1, 0]),
    }
}

pub async fn run_case(case: &Case) -> CaseOut {
    let mut out = CaseOut::default();
    let mut rig = MasterRig::start(true, [0; 4], 2048).await;
    rig.add_association(OUT, assoc_config(TIMEOUT), Some(1_700_000_000_000))
        .await;
    rig.connect().await;
    rig.settle().await;
    let _ = rig.take_requests();
    let (procedure, steps, name) = match case.procedure % 3 {
        0 => (TimeSyncProcedure::Lan, 2u8, "lan"),
        1 => (TimeSyncProcedure::NonLan, 2, "non_lan"),
        _ => (TimeSyncProcedure::DirectWriteAbsTime, 1, "direct"),
    };
    out.label(name);
    let mut h = rig.assocs.get_mut(&OUT).unwrap().handle.clone();
    let p = rig.submit("sync", async move {
        h.synchronize_time(procedure)
            .await
            .map_err(|e| format!("{e:?}"))
    });
    let target = case.step % steps;
    let mut step = 0u8;
    let mut deviated = false;
    for _ in 0..8 {
        rig.settle().await;
        if !p.outcomes().is_empty() {
            break;
        }
        let reqs = rig.take_requests();
        let mut answered = false;
        for (_, dst, f) in reqs {
            if dst != OUT || f.func == func::CONFIRM {
                continue;
            }
            let mut r = answer(&f);
            if let (Some(k), true) = (case.deviant, step == target) {
                // behind whatever the reply should carry
                r.objects.extend(deviant_objects(k));
                deviated = true;
                out.label(format!("deviant:{}", k % 5));
                out.label(format!(
                    "deviating_reply_to_function_{}",
                    match f.func {
                        func::DELAY_MEASURE => "delay_measure",
                        func::WRITE => "write",
                        _ => "record_current_time",
                    }
                ));
            }
            rig.respond(OUT, &r);
            step += 1;
            answered = true;
        }
        if !answered {
            rig.advance(TIMEOUT / 2).await;
        }
    }
    for _ in 0..4 {
        if !p.outcomes().is_empty() {
            break;
        }
        rig.advance(TIMEOUT + 1).await;
        rig.settle().await;
    }
    let res = p.outcomes();
    if res.len() != 1 {
        out.fail(Fail::new(
            "not-exactly-one-outcome",
            format!(
                "the synchronisation resolved {} times: {:?}",
                res.len(),
                res
            ),
        ));
        return out;
    }
    let ok = res[0].1.starts_with("Ok");
    if deviated {
        out.nontrivial = true;
        if ok {
            out.fail(
                Fail::new(
                    "T-unexpected-objects-accepted",
                    format!(
                        "{name} procedure: the reply to step {target} carried {:02x?} behind what it should carry, and the synchronisation was reported as successful",
                        deviant_objects(case.deviant.unwrap_or(0))
                    ),
                )
                .with_sig(format!("T-unexpected-objects-accepted {name} deviant={}", case.deviant.unwrap_or(0) % 5)),
            );
        }
    } else if case.deviant.is_none() && !ok {
        // the scripted outstation answered everything properly: the harness itself is sound only if that succeeds
        out.fail(Fail::new(
            "T-faithful-replies-rejected",
            format!(
                "{name} procedure with faithful replies failed: {}",
                res[0].1
            ),
        ));
    }
    if let Some(f) = rig.task_failure.take() {
        out.fail(f);
    }
    out
}

pub struct Unexpected;
impl Prop for Unexpected {
    type Case = Case;
    const ID: &'static str = "C18";
    const NAME: &'static str = "unexpected";
    fn rule() -> &'static str {
        "a scripted outstation answers the real master's time synchronisation (LAN, non-LAN, direct write) step by step; one generated reply carries, behind what it should carry, a well-formed static or event header nobody asked for, an object the parser does not know, a truncated object or a second time-delay object; oracle: the request resolves exactly once, with an error if a reply deviated (and with success if none did - the control that the script itself is right); non-trivial = a deviating reply"
    }
    fn strategy(_tier: Tier) -> BoxedStrategy<Case> {
        (
            0u8..3,
            0u8..2,
            prop_oneof![1 => Just(None), 6 => (0u8..5).prop_map(Some)],
        )
            .prop_map(|(procedure, step, deviant)| Case {
                procedure,
                step,
                deviant,
            })
            .boxed()
    }
    fn cases(tier: Tier) -> u32 {
        match tier {
            Tier::Quick => 2_000,
            Tier::Thorough => 100_000,
        }
    }
    fn run(case: &Case) -> CaseOut {
        let rt = runtime();
        rt.block_on(run_case(case))
    }
}
