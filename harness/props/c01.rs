//! C01 — bytes from the peer can never crash or wedge a master or an outstation
use crate::app::parse::options::ParseOptions;
use crate::app::parse::parser::ParsedFragment;
use crate::decode::AppDecodeLevel;
use crate::link::reader::LinkModes;
use crate::link::{EndpointAddress, LinkErrorMode};
use crate::master::extract::extract_measurements_inner;
use crate::outstation::control::collection::ControlCollection;
use crate::outstation::database::UpdateOptions;
use crate::outstation::Feature;
use crate::transport::TransportData;
use crate::util::phys::PhysLayer;
use crate::verif::engine::*;
use crate::verif::io::pipe;
use crate::verif::props::c06::pseudo_bytes;
use crate::verif::props::fraggen::*;
use crate::verif::props::ost::*;
use crate::verif::rig::exec::block_on_ready;
use crate::verif::rig::handler::RecHandler;
use crate::verif::rig::outstation::*;
use crate::verif::rig::{decode_level, runtime};
use crate::verif::wire::app::{self as ra, func, Fragment};
use crate::verif::wire::link as rl;
use proptest::prelude::*;
use serde::{Deserialize, Serialize};

/// run every parser-side consumer of an application fragment; returns a short classification
pub fn exercise_fragment(bytes: &[u8], zero_len: bool) -> &'static str {
    let options = if zero_len {
        ParseOptions::parse_everything()
    } else {
        ParseOptions::default()
    };
    let p = match ParsedFragment::parse(options, bytes) {
        Ok(p) => p,
        Err(_) => return "header_rejected",
    };
    for level in [
        AppDecodeLevel::Nothing,
        AppDecodeLevel::Header,
        AppDecodeLevel::ObjectHeaders,
        AppDecodeLevel::ObjectValues,
    ] {
        let s = format!("{}", p.display(level));
        std::hint::black_box(s.len());
    }
    let _ = p
        .to_request()
        .map(|r| std::hint::black_box(r.header.function));
    let _ = p.to_response().map(|r| std::hint::black_box(r.header.iin));
    match p.objects {
        Ok(objs) => {
            let mut n = 0usize;
            for h in objs.iter() {
                n += 1;
                std::hint::black_box(format!("{:?}", h.details.qualifier()));
            }
            std::hint::black_box(n);
            std::hint::black_box(objs.hash());
            let _ = objs.get_only_header();
            let mut handler = RecHandler::default();
            extract_measurements_inner(objs, &mut handler);
            if let Ok(cc) = ControlCollection::from(objs) {
                std::hint::black_box(cc.hash());
                let mut buffer = [0u8; 2048];
                let mut cursor = scursor::WriteCursor::new(&mut buffer);
                let _ = cc.respond_with_status(
                    &mut cursor,
                    crate::app::control::CommandStatus::NotSupported,
                );
                let mut small = [0u8; 30];
                let mut cursor = scursor::WriteCursor::new(&mut small);
                let _ = cc
                    .respond_with_status(&mut cursor, crate::app::control::CommandStatus::Success);
            }
            "objects_accepted"
        }
        Err(_) => "objects_rejected",
    }
}

#[derive(Clone, Debug, Serialize, Deserialize)]
pub enum ParseCase {
    Grammar(FragSpec, bool),
    Raw(Vec<u8>, bool),
}

pub struct Parsers;

impl Prop for Parsers {
    type Case = ParseCase;
    const ID: &'static str = "C01";
    const NAME: &'static str = "parsers";
    fn rule() -> &'static str {
        "application fragments from the reference grammar (every function code, every known group/variation x 8 qualifiers, counts/ranges biased to 0,1,2,255,256,65535 and ranges ending at 255/65535, octet strings, attributes, free format) then truncated/extended/bit-flipped/overwritten, plus raw random bytes, with and without zero-length-string parsing; driven through ParsedFragment::parse, Display at all four decode levels, full header iteration, to_request/to_response, extract_measurements_inner with a draining handler and ControlCollection echo into large and tiny buffers; oracle: no panic (overflow checks on); non-trivial = the object part was accepted"
    }
    fn cases(tier: Tier) -> u32 {
        match tier {
            Tier::Quick => 200_000,
            Tier::Thorough => 30_000_000,
        }
    }
    fn floors() -> Vec<(&'static str, u32)> {
        vec![("objects_accepted", 100), ("objects_rejected", 100)]
    }
    fn strategy(_tier: Tier) -> BoxedStrategy<ParseCase> {
        prop_oneof![
            6 => (frag_strategy(), any::<bool>()).prop_map(|(f, z)| ParseCase::Grammar(f, z)),
            1 => (proptest::collection::vec(any::<u8>(), 0..64), any::<bool>()).prop_map(|(b, z)| ParseCase::Raw(b, z)),
        ]
        .boxed()
    }
    fn run(case: &ParseCase) -> CaseOut {
        let mut out = CaseOut::default();
        let (bytes, z) = match case {
            ParseCase::Grammar(f, z) => (build(f), *z),
            ParseCase::Raw(b, z) => (b.clone(), *z),
        };
        let class = exercise_fragment(&bytes, z);
        out.label(class);
        out.nontrivial = class == "objects_accepted";
        out
    }
}

// ---------------------------------------------------------------------------------------------
// link + transport readers at all decode levels

#[derive(Clone, Debug, Serialize, Deserialize)]
pub struct StackCase {
    pub master_role: bool,
    pub discard: bool,
    pub rx: u16,
    pub decode: [u8; 4],
    /// (valid framing?, control byte, destination selector, payload seed, payload length, damage)
    pub frames: Vec<(bool, u8, u8, u32, u8, u8)>,
    pub chunk: u16,
}

pub struct Stack;

impl Prop for Stack {
    type Case = StackCase;
    const ID: &'static str = "C01";
    const NAME: &'static str = "stack";
    const TRACK_STALL: bool = true;
    fn rule() -> &'static str {
        "streams of link frames (any control byte, addressed to us / others / broadcast, transport headers with arbitrary FIR/FIN/sequence, payloads 0..250, optionally damaged or interleaved with noise) under generated chunkings, both roles, both link error modes, every rx buffer size 249..2048 and every combination of the four decode levels, read through transport::real::reader::Reader (link Layer + assembler) until the stream ends; every delivered fragment is then pushed through the application parser consumers; oracle: no panic, the reader always returns; non-trivial = at least one frame passed the CRCs and reached the transport function"
    }
    fn cases(tier: Tier) -> u32 {
        match tier {
            Tier::Quick => 120_000,
            Tier::Thorough => 6_000_000,
        }
    }
    fn strategy(_tier: Tier) -> BoxedStrategy<StackCase> {
        let frame = (
            prop_oneof![5 => Just(true), 1 => Just(false)],
            prop_oneof![3 => Just(0xC4u8), 1 => Just(0x44u8), 1 => Just(0xD3u8), 1 => Just(0xC0u8), 1 => Just(0xC9u8), 1 => any::<u8>()],
            0u8..6,
            any::<u32>(),
            prop_oneof![3 => 0u8..=250, 1 => Just(250u8), 1 => Just(1u8), 1 => Just(0u8)],
            any::<u8>(),
        );
        (
            any::<bool>(),
            any::<bool>(),
            prop_oneof![Just(249u16), Just(2048), 249u16..=2048],
            any::<[u8; 4]>(),
            proptest::collection::vec(frame, 1..12),
            prop_oneof![Just(0u16), 1u16..400],
        )
            .prop_map(
                |(master_role, discard, rx, decode, frames, chunk)| StackCase {
                    master_role,
                    discard,
                    rx,
                    decode,
                    frames,
                    chunk,
                },
            )
            .boxed()
    }
    fn run(case: &StackCase) -> CaseOut {
        crate::verif::rig::init_tracing();
        let mut out = CaseOut::default();
        let local: u16 = 10;
        let mut stream = vec![];
        for (valid, ctrl, dsel, seed, len, damage) in &case.frames {
            let dst = match dsel {
                0 | 1 | 2 => local,
                3 => 11,
                4 => 0xFFFF,
                _ => 0xFFFC,
            };
            let mut payload = pseudo_bytes(*seed as u64, *len as usize);
            if !payload.is_empty() {
                // transport header: mostly FIR|FIN
                payload[0] = match damage % 4 {
                    0 | 1 => 0xC0 | (payload[0] & 0x3F),
                    2 => payload[0],
                    _ => 0x40 | (payload[0] & 0x3F),
                };
            }
            let mut f = rl::encode(*ctrl, dst, 1, &payload);
            if !*valid {
                let i = (*seed as usize) % f.len();
                f[i] ^= 1 << (damage % 8);
                if damage % 3 == 0 {
                    f.truncate(i + 1);
                }
            } else {
                out.nontrivial = true;
            }
            stream.extend(f);
        }
        let chunks: Vec<Vec<u8>> = if case.chunk == 0 {
            vec![stream]
        } else {
            stream
                .chunks(case.chunk as usize)
                .map(|c| c.to_vec())
                .collect()
        };
        let (io, mut peer) = pipe(false);
        for c in &chunks {
            peer.send(c);
        }
        peer.close();
        let mut phys = PhysLayer::Verif(io);
        let modes = LinkModes::stream(if case.discard {
            LinkErrorMode::Discard
        } else {
            LinkErrorMode::Close
        });
        let level = decode_level(
            case.decode[0],
            case.decode[1],
            case.decode[2],
            case.decode[3],
        );
        let mut r = if case.master_role {
            crate::transport::real::reader::Reader::master(
                modes,
                EndpointAddress::raw(local),
                case.rx as usize,
            )
        } else {
            crate::transport::real::reader::Reader::outstation(
                modes,
                EndpointAddress::raw(local),
                Feature::Enabled,
                case.rx as usize,
            )
        };
        let mut delivered = 0;
        for _ in 0..1000 {
            match block_on_ready(r.read(&mut phys, level)) {
                Err(_) => break,
                Ok(()) => {
                    while let Some(d) = r.pop() {
                        if let TransportData::Fragment(f) = d {
                            delivered += 1;
                            let data = f.data.to_vec();
                            exercise_fragment(&data, case.decode[0] % 2 == 0);
                        }
                    }
                }
            }
        }
        if delivered > 0 {
            out.label("fragment_delivered");
        }
        out
    }
}

// ---------------------------------------------------------------------------------------------
// hostile session scripts against an outstation

#[derive(Clone, Debug, Serialize, Deserialize)]
pub enum Step {
    /// application fragment from the grammar, sent in valid link frames by the configured master
    Fragment(FragSpec),
    /// raw octets as the payload of a valid link data frame (transport header included in the octets)
    RawSegment(Vec<u8>),
    /// raw octets straight onto the wire
    RawBytes(Vec<u8>),
    /// a well-formed request that moves the session: 0 READ class 1-3, 1 READ class 0, 2 ENABLE_UNSOLICITED, 3 SELECT, 4 big OPERATE, 5 DELAY_MEASURE, 6 g110/g111 end-of-range, 7 DISABLE_UNSOLICITED,
    /// 8 READ all device attributes (g0v254), 9 READ attribute list (g0v255), 10 READ one attribute, 11 WRITE an attribute
    Request(u8),
    Update(u8, u8),
    Confirm(bool, u8, bool),
    Advance(u16),
    Reconnect,
}

#[derive(Clone, Debug, Serialize, Deserialize)]
pub struct ScriptCase {
    pub discard: bool,
    pub decode: [u8; 4],
    pub sol_tx: u16,
    pub unsol_tx: u16,
    pub rx: u16,
    pub unsolicited: bool,
    pub event_buffer: u16,
    pub max_controls: Option<u8>,
    pub chunk: u16,
    pub steps: Vec<Step>,
    /// the final READ is sent at once - whatever wait the script has left the session in - and the master keeps sending
    /// something that must not push any deadline back (kind, every N ms): 0 unsolicited CONFIRM for the sequence number
    /// before the outstanding one, 1 unsolicited CONFIRM for another sequence number, 2 solicited CONFIRM, 3 link status
    /// request, 4 a READ from another master address
    #[serde(default)]
    pub starve: Option<(u8, u16)>,
}

pub struct OutstationScript;

impl Prop for OutstationScript {
    type Case = ScriptCase;
    const ID: &'static str = "C01";
    const NAME: &'static str = "outstation_script";
    const TRACK_STALL: bool = true;
    fn rule() -> &'static str {
        "hostile session scripts against a real outstation session (real link layer, transport function, ServerTask loop): grammar+mutated fragments, raw transport segments, raw wire bytes, well-formed requests that move the session (event polls -> solicited confirm wait, unsolicited enable + updates -> unsolicited confirm wait, SELECT, oversized OPERATE, end-of-range octet strings), database updates into event buffers of 1-3, right/wrong confirms, time advances, reconnects; configuration generated: link error mode, four decode-level axes, rx/tx buffer sizes 249..2048, unsolicited on/off, max_controls; oracle: no panic, no busy loop (poll counter at one virtual instant), in two cases of five a READ sent at once after the script - in whatever wait it left the session - is answered within four confirm timeouts although the master keeps sending ignorable traffic (stale or foreign CONFIRMs, link status requests, READs of another master), and after the script the endpoint still serves: link status request -> LINK_STATUS, READ class 0 with a fresh sequence number -> response with that number (Close mode: on the next connection); non-trivial = an injected item that reached the transport/application layer through valid CRCs while the session was not idle, or any such item in general"
    }
    fn cases(tier: Tier) -> u32 {
        match tier {
            Tier::Quick => 60_000,
            Tier::Thorough => 2_400_000,
        }
    }
    fn floors() -> Vec<(&'static str, u32)> {
        vec![
            ("inject_in_sol_confirm_wait", 6),
            ("inject_in_unsol_confirm_wait", 10),
            ("inject_in_idle", 100),
        ]
    }
    fn strategy(tier: Tier) -> BoxedStrategy<ScriptCase> {
        let step = prop_oneof![
            6 => frag_strategy().prop_map(Step::Fragment),
            1 => proptest::collection::vec(any::<u8>(), 0..40).prop_map(Step::RawSegment),
            1 => proptest::collection::vec(any::<u8>(), 1..40).prop_map(Step::RawBytes),
            // the beginning of a perfectly valid frame and nothing more (the peer went away in the middle of it): start
            // octets only, part of the header, the whole header, part of the body
            1 => prop_oneof![Just(1usize), Just(2), Just(5), Just(9), Just(10), Just(11), Just(17)].prop_map(|k| {
                let f = Fragment::request(3, func::READ, ra::h_all(60, 1)).encode();
                let mut payload = vec![0xC1];
                payload.extend(f);
                let frame = rl::encode(0xC4, OUTSTATION_ADDR, MASTER_ADDR, &payload);
                Step::RawBytes(frame[..k.min(frame.len() - 1)].to_vec())
            }),
            5 => (0u8..12).prop_map(Step::Request),
            3 => (any::<u8>(), any::<u8>()).prop_map(|(a, b)| Step::Update(a, b)),
            2 => (any::<bool>(), any::<u8>(), any::<bool>()).prop_map(|(r, s, u)| Step::Confirm(r, s, u)),
            2 => prop_oneof![Just(1u16), Just(99), Just(101), 0u16..300].prop_map(Step::Advance),
            1 => Just(Step::Reconnect),
        ];
        let n = if tier == Tier::Quick { 14 } else { 40 };
        (
            any::<bool>(),
            any::<[u8; 4]>(),
            prop_oneof![2 => Just(249u16), 1 => 249u16..=2048, 1 => Just(2048u16)],
            prop_oneof![2 => Just(249u16), 1 => 249u16..=2048],
            prop_oneof![1 => Just(249u16), 1 => 249u16..=2048, 2 => Just(2048u16)],
            any::<bool>(),
            1u16..4,
            prop_oneof![3 => Just(None), 1 => (0u8..4).prop_map(Some)],
            prop_oneof![2 => Just(0u16), 1 => 1u16..300],
            (
                proptest::collection::vec(step, 1..n),
                prop_oneof![3 => Just(None), 2 => (0u8..5, prop_oneof![Just(1u16), Just(50), Just(99), 1u16..100]).prop_map(Some)],
            ),
        )
            .prop_map(
                |(
                    discard,
                    decode,
                    sol_tx,
                    unsol_tx,
                    rx,
                    unsolicited,
                    event_buffer,
                    max_controls,
                    chunk,
                    (steps, starve),
                )| ScriptCase {
                    discard,
                    decode,
                    sol_tx,
                    unsol_tx,
                    rx,
                    unsolicited,
                    event_buffer,
                    max_controls,
                    chunk,
                    steps,
                    starve,
                },
            )
            .boxed()
    }
    fn run(case: &ScriptCase) -> CaseOut {
        let rt = runtime();
        rt.block_on(run_script(case))
    }
}

fn send_chunked(rig: &mut OutRig, bytes: &[u8], chunk: u16) {
    if chunk == 0 {
        rig.send_raw(bytes);
    } else {
        for c in bytes.chunks(chunk as usize) {
            rig.send_raw(c);
        }
    }
}

async fn run_script(case: &ScriptCase) -> CaseOut {
    let mut out = CaseOut::default();
    let mut cfg = OutConfig::default();
    cfg.discard = case.discard;
    cfg.decode = case.decode;
    cfg.sol_tx = case.sol_tx;
    cfg.unsol_tx = case.unsol_tx;
    cfg.rx = case.rx;
    cfg.unsolicited = case.unsolicited;
    cfg.event_buffer = [case.event_buffer; 8];
    cfg.max_controls = case.max_controls.map(|x| x as u16);
    cfg.confirm_timeout_ms = 100;
    cfg.unsol_retry_delay_ms = 50;
    cfg.max_unsol_retries = Some(1);
    cfg.class_zero_octet_strings = true;
    let mut rig = OutRig::start(cfg, AppBehaviour::default()).await;
    rig.db(|db| {
        for i in 0..4u16 {
            for ty in 0..8u8 {
                add_point(
                    db,
                    &PointSpec {
                        ty,
                        index: i,
                        class: 1 + (i % 3) as u8,
                        svar: STATIC_VARS[ty as usize][0],
                        evar: EVENT_VARS[ty as usize][0],
                    },
                );
            }
        }
        add_point(
            db,
            &PointSpec {
                ty: 7,
                index: 65535,
                class: 1,
                svar: 0,
                evar: 0,
            },
        );
        add_point(
            db,
            &PointSpec {
                ty: 0,
                index: 65535,
                class: 2,
                svar: 1,
                evar: 3,
            },
        );
        let _ = db.define_attr(
            crate::app::attr::AttrProp::default(),
            crate::app::attr::StringAttr::DeviceManufacturersName.with_value("verif"),
        );
        let _ = db.define_attr(
            crate::app::attr::AttrProp::writable(),
            crate::app::attr::StringAttr::UserAssignedLocation.with_value("here"),
        );
    });
    let mut seq = 0u8;
    let mut serial = 0u32;
    let mut last_sol: Option<(u8, u64)> = None;
    let mut last_unsol: Option<(u8, u64)> = None;
    let mut link_damage = false;
    rig.settle().await;
    let observe =
        |rig: &mut OutRig, last_sol: &mut Option<(u8, u64)>, last_unsol: &mut Option<(u8, u64)>| {
            let now = rig.now_ms();
            for f in rig.take_fragments() {
                if f.func == func::UNSOLICITED_RESPONSE {
                    *last_unsol = Some((f.seq, now));
                } else if f.con {
                    *last_sol = Some((f.seq, now));
                } else {
                    *last_sol = None;
                }
            }
        };
    observe(&mut rig, &mut last_sol, &mut last_unsol);
    for step in &case.steps {
        if rig.task_failure.is_some() {
            break;
        }
        let now = rig.now_ms();
        let state = if last_sol.map(|(_, t)| now - t < 100).unwrap_or(false) {
            "sol_confirm_wait"
        } else if last_unsol.map(|(_, t)| now - t < 100).unwrap_or(false) {
            "unsol_confirm_wait"
        } else {
            "idle"
        };
        match step {
            Step::Fragment(spec) => {
                let b = build(spec);
                out.label(format!("inject_in_{state}"));
                out.nontrivial = true;
                let framed = rig.frame_fragment(MASTER_ADDR, OUTSTATION_ADDR, &b);
                send_chunked(&mut rig, &framed, case.chunk);
                last_sol = None;
            }
            Step::RawSegment(p) => {
                out.label(format!("inject_in_{state}"));
                out.nontrivial = true;
                let f = rl::encode(0xC4, OUTSTATION_ADDR, MASTER_ADDR, &p[..p.len().min(250)]);
                send_chunked(&mut rig, &f, case.chunk);
            }
            Step::RawBytes(b) => {
                link_damage = true;
                out.label("raw_wire_bytes");
                send_chunked(&mut rig, b, case.chunk);
            }
            Step::Request(k) => {
                seq = (seq + 1) & 0x0F;
                let f = match k % 12 {
                    0 => read_classes(seq, &[1, 2, 3]),
                    1 => read_classes(seq, &[0]),
                    2 => enable_unsol(seq, true, &[1, 2, 3]),
                    3 => Fragment::request(
                        seq,
                        func::SELECT,
                        ra::h_prefixed8(12, 1, &[(1, ra::crob(3, 1, 5, 5, 0))]),
                    ),
                    4 => Fragment::request(
                        seq,
                        func::OPERATE,
                        ra::h_prefixed8(
                            12,
                            1,
                            &(0..60u8)
                                .map(|i| (i, ra::crob(3, 1, 5, 5, 0)))
                                .collect::<Vec<_>>(),
                        ),
                    ),
                    5 => Fragment::request(seq, func::DELAY_MEASURE, vec![]),
                    6 => {
                        let mut o = ra::h_range16(110, 0, 65530, 65535, &[]);
                        o.extend(ra::h_range16(1, 0, 65535, 65535, &[]));
                        Fragment::request(seq, func::READ, o)
                    }
                    7 => enable_unsol(seq, false, &[1, 2, 3]),
                    8 => Fragment::request(seq, func::READ, ra::h_range8(0, 254, 0, 0, &[])),
                    9 => Fragment::request(
                        seq,
                        func::READ,
                        ra::h_range8(0, 255, (seq % 2), (seq % 2), &[]),
                    ),
                    10 => Fragment::request(seq, func::READ, ra::h_range8(0, 252, 0, 0, &[])),
                    _ => Fragment::request(
                        seq,
                        func::WRITE,
                        ra::h_range8(0, 245, 0, 0, &[1, 3, b'x', b'y', b'z']),
                    ),
                };
                let framed = rig.frame_fragment(MASTER_ADDR, OUTSTATION_ADDR, &f.encode());
                send_chunked(&mut rig, &framed, case.chunk);
                last_sol = None;
            }
            Step::Update(a, b) => {
                serial += 1;
                let ty = a % 8;
                let index = if b % 5 == 0 { 65535 } else { (b % 4) as u16 };
                let r = unique_rec(ty, index, serial, serial, 0);
                rig.db(|db| update_point(db, &r, UpdateOptions::detect_event()));
            }
            Step::Confirm(right, s, pick_unsol) => {
                let target = if *pick_unsol { last_unsol } else { last_sol };
                let sq = match (target, right) {
                    (Some((q, _)), true) => q,
                    _ => *s & 0x0F,
                };
                let framed = rig.frame_fragment(
                    MASTER_ADDR,
                    OUTSTATION_ADDR,
                    &Fragment::confirm(sq, *pick_unsol).encode(),
                );
                send_chunked(&mut rig, &framed, case.chunk);
            }
            Step::Advance(ms) => {
                rig.advance(*ms as u64).await;
            }
            Step::Reconnect => {
                rig.disconnect().await;
                rig.connect().await;
                link_damage = false;
                last_sol = None;
                last_unsol = None;
            }
        }
        rig.settle().await;
        observe(&mut rig, &mut last_sol, &mut last_unsol);
    }
    // --- liveness probe ---
    if rig.task_failure.is_none() {
        if !case.discard && link_damage {
            // Close mode: the damaged session may have been ended (cleanly); the next one must serve
            out.label("close_mode_reconnect_before_probe");
            rig.disconnect().await;
            rig.connect().await;
        } else if case.discard && link_damage {
            // resynchronise: an incomplete frame image may be waiting for its body
            rig.send_raw(&vec![0u8; 300]);
            rig.settle().await;
        }
        if let Some((kind, every)) = case.starve {
            starved_read(
                &mut rig,
                &mut out,
                kind,
                every.max(1) as u64,
                seq,
                last_unsol.map(|x| x.0),
            )
            .await;
        }
        // let every confirm wait expire, then ask
        for _ in 0..3 {
            rig.advance(101).await;
        }
        let _ = rig.take_tx();
        rig.send_raw(&rl::encode(0xC9, OUTSTATION_ADDR, MASTER_ADDR, &[]));
        rig.settle().await;
        let tx = rig.take_tx();
        if !tx
            .iter()
            .any(|t| matches!(t, Tx::Link { ctrl: 0x0B, dst, .. } if *dst == MASTER_ADDR))
            && rig.task_failure.is_none()
        {
            out.fail(Fail::new("wedged-link-status", format!("after the script a link status request was not answered with LINK_STATUS; transmitted: {:02x?}", tx)));
        }
        let probe_seq = (seq + 7) & 0x0F;
        rig.send(&read_classes(probe_seq, &[0]));
        let mut answered = false;
        for _ in 0..4 {
            rig.settle().await;
            if rig
                .take_fragments()
                .iter()
                .any(|f| f.func == func::RESPONSE && f.fir && f.seq == probe_seq)
            {
                answered = true;
                break;
            }
            rig.advance(101).await;
        }
        if !answered && rig.task_failure.is_none() {
            out.fail(Fail::new("wedged-no-response", format!("after the script a READ of class 0 with sequence {probe_seq} was not answered within 4 confirm timeouts")));
        }
    }
    if let Some(f) = rig.task_failure.take() {
        out.fail(f);
    }
    out
}

/// a READ sent in whatever state the script has left the session in must be answered within a few confirm timeouts
/// although the master keeps sending things that are to be ignored: nothing of that kind may push a deadline back
async fn starved_read(
    rig: &mut OutRig,
    out: &mut CaseOut,
    kind: u8,
    every: u64,
    seq: u8,
    last_unsol: Option<u8>,
) {
    let probe_seq = (seq + 5) & 0x0F;
    let _ = rig.take_tx();
    rig.send(&read_classes(probe_seq, &[0]));
    out.label("starved_read");
    out.nontrivial = true;
    let mut waited = 0u64;
    let mut n = 0u8;
    loop {
        rig.settle().await;
        if rig
            .take_fragments()
            .iter()
            .any(|f| f.func == func::RESPONSE && f.fir && f.seq == probe_seq)
        {
            return;
        }
        if waited > 4 * 100 + every || rig.task_failure.is_some() {
            break;
        }
        let u = last_unsol.unwrap_or(0);
        match kind % 5 {
            0 => rig.send(&Fragment::confirm(u.wrapping_sub(1) & 0x0F, true)),
            1 => rig.send(&Fragment::confirm((u + 3 + n % 11) & 0x0F, true)),
            2 => rig.send(&Fragment::confirm((probe_seq + 1 + n % 14) & 0x0F, false)),
            3 => rig.send_raw(&rl::encode(0xC9, OUTSTATION_ADDR, MASTER_ADDR, &[])),
            _ => {
                let f = read_classes((probe_seq + 9) & 0x0F, &[1]).encode();
                let b = rig.frame_fragment(MASTER_ADDR + 1, OUTSTATION_ADDR, &f);
                rig.send_raw(&b);
            }
        }
        n = n.wrapping_add(1);
        rig.advance(every).await;
        waited += every;
    }
    if rig.task_failure.is_none() {
        out.fail(
            Fail::new(
                "read-starved-by-ignorable-traffic",
                format!(
                    "a READ of class 0 (sequence {probe_seq}) sent after the script was not answered within four confirm timeouts while the master sent {} every {every} ms",
                    ["unsolicited CONFIRMs for the previous sequence number", "unsolicited CONFIRMs with wrong sequence numbers", "solicited CONFIRMs with wrong sequence numbers", "link status requests", "READs from another master address"][kind as usize % 5]
                ),
            )
            .with_sig(format!("C01 outstation read-starved kind={}", kind % 5)),
        );
    }
}

pub fn run<C: Codec>(tier: Tier) -> i32 {
    let mut ctx = Ctx::<C>::new("C01", tier);
    ctx.assumptions.push("a non-yielding infinite loop is only visible to the wall-clock watchdog and is reported as INCONCLUSIVE (exit 2), never as a violation".into());
    ctx.run::<Parsers>();
    ctx.run::<Stack>();
    ctx.run::<OutstationScript>();
    super::c01m::run_master::<C>(&mut ctx);
    ctx.run::<super::c01u::Udp>();
    ctx.finish()
}

pub fn replay<C: Codec>(text: &str, known: &[Known]) -> Option<i32> {
    replay_file::<C, Parsers>(text, known)
        .or_else(|| replay_file::<C, Stack>(text, known))
        .or_else(|| replay_file::<C, OutstationScript>(text, known))
        .or_else(|| super::c01m::replay_master::<C>(text, known))
        .or_else(|| replay_file::<C, super::c01u::Udp>(text, known))
}
