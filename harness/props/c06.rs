//! C06 — only intact link frames are delivered, and every frame sent is recovered
use crate::decode::DecodeLevel;
use crate::link::error::LinkError;
use crate::link::format::{format_data_frame, format_header_only, Payload};
use crate::link::header::{AnyAddress, ControlField, Header};
use crate::link::parser::FramePayload;
use crate::link::reader::{LinkModes, Reader};
use crate::link::{LinkErrorMode, LinkReadMode};
use crate::util::phys::PhysLayer;
use crate::verif::engine::*;
use crate::verif::io::pipe;
use crate::verif::rig::exec::block_on_ready;
use crate::verif::wire::link::{self as rl, Frame};
use proptest::prelude::*;
use serde::{Deserialize, Serialize};

#[derive(Clone, Debug, Serialize, Deserialize, PartialEq)]
pub struct F {
    pub ctrl: u8,
    pub dst: u16,
    pub src: u16,
    pub payload: Vec<u8>,
}

impl F {
    fn bytes(&self) -> Vec<u8> {
        rl::encode(self.ctrl, self.dst, self.src, &self.payload)
    }
}

#[derive(Clone, Debug, Serialize, Deserialize)]
pub enum Item {
    Frame(F),
    Noise(Vec<u8>),
    Lone05,
    Sync,
    /// the first `keep`/65536 of the frame's bytes
    Truncated(F, u16),
    /// frame with the given bit positions (scaled into the frame) flipped
    Flipped(F, Vec<u16>),
}

#[derive(Clone, Debug, Serialize, Deserialize)]
pub enum Chunking {
    Whole,
    OneByte,
    /// chunk sizes, cycled
    Sizes(Vec<u16>),
    /// chunk boundaries at item boundaries plus one cut inside each item (scaled offset, cycled)
    ItemSplit(Vec<u16>),
}

#[derive(Clone, Debug, Serialize, Deserialize)]
pub struct Case {
    pub discard: bool,
    pub datagram: bool,
    pub frag_size: u16,
    pub items: Vec<Item>,
    pub chunking: Chunking,
}

fn scale(x: u16, len: usize) -> usize {
    ((x as usize) * len) >> 16
}

/// (bytes, flipped bit positions as absolute bit offsets)
fn item_bytes(item: &Item) -> (Vec<u8>, Vec<usize>) {
    match item {
        Item::Frame(f) => (f.bytes(), vec![]),
        Item::Noise(n) => (n.clone(), vec![]),
        Item::Lone05 => (vec![0x05], vec![]),
        Item::Sync => (vec![0x05, 0x64], vec![]),
        Item::Truncated(f, keep) => {
            let b = f.bytes();
            let k = scale(*keep, b.len());
            (b[..k].to_vec(), vec![])
        }
        Item::Flipped(f, bits) => {
            let mut b = f.bytes();
            let nbits = b.len() * 8;
            let mut pos: Vec<usize> = bits.iter().map(|x| scale(*x, nbits)).collect();
            pos.sort();
            pos.dedup();
            for p in &pos {
                b[p / 8] ^= 1 << (p % 8);
            }
            (b, pos)
        }
    }
}

fn chunks(case: &Case, per_item: &[Vec<u8>]) -> Vec<Vec<u8>> {
    let all: Vec<u8> = per_item.iter().flatten().copied().collect();
    match &case.chunking {
        Chunking::Whole => vec![all],
        Chunking::OneByte => all.iter().map(|b| vec![*b]).collect(),
        Chunking::Sizes(sizes) => {
            let mut out = vec![];
            let mut pos = 0;
            let mut i = 0;
            while pos < all.len() {
                let n = (sizes.get(i % sizes.len().max(1)).copied().unwrap_or(1) as usize).max(1);
                let end = (pos + n).min(all.len());
                out.push(all[pos..end].to_vec());
                pos = end;
                i += 1;
            }
            out
        }
        Chunking::ItemSplit(cuts) => {
            // the tail of item k is joined with the head of item k+1 so that a boundary falls INSIDE items only
            let mut out: Vec<Vec<u8>> = vec![];
            let mut cur: Vec<u8> = vec![];
            for (i, it) in per_item.iter().enumerate() {
                let c = cuts.get(i % cuts.len().max(1)).copied().unwrap_or(0);
                let k = scale(c, it.len() + 1);
                cur.extend_from_slice(&it[..k]);
                if !cur.is_empty() {
                    out.push(std::mem::take(&mut cur));
                }
                cur.extend_from_slice(&it[k..]);
            }
            if !cur.is_empty() {
                out.push(cur);
            }
            out
        }
    }
}

fn to_f(h: &Header, payload: &[u8]) -> F {
    F {
        ctrl: h.control.to_u8(),
        dst: h.destination.value(),
        src: h.source.value(),
        payload: payload.to_vec(),
    }
}

fn from_ref(f: &Frame) -> F {
    F {
        ctrl: f.ctrl,
        dst: f.dst,
        src: f.src,
        payload: f.payload.clone(),
    }
}

pub fn buffer_size(frag_size: usize) -> usize {
    let n = (frag_size + 248) / 249;
    n.max(1) * 292 + 1
}

/// run the library's link reader over the chunks; returns delivered frames and the terminating error
pub fn lib_read(
    discard: bool,
    datagram: bool,
    frag_size: usize,
    chunks: &[Vec<u8>],
    max_frames: usize,
) -> (Vec<F>, LinkError) {
    let modes = LinkModes {
        error_mode: if discard {
            LinkErrorMode::Discard
        } else {
            LinkErrorMode::Close
        },
        read_mode: if datagram {
            LinkReadMode::Datagram
        } else {
            LinkReadMode::Stream
        },
    };
    let (io, mut peer) = pipe(datagram);
    for c in chunks {
        peer.send(c);
    }
    peer.close();
    let mut phys = PhysLayer::Verif(io);
    let mut reader = Reader::new(modes, frag_size);
    let mut payload = FramePayload::new();
    let mut out = vec![];
    loop {
        match block_on_ready(reader.read_frame(&mut phys, &mut payload, DecodeLevel::nothing())) {
            Ok((h, _)) => {
                out.push(to_f(&h, payload.get()));
                if out.len() > max_frames {
                    panic!("verif/harness: runaway frame count");
                }
            }
            Err(e) => return (out, e),
        }
    }
}

/// what the reference says the reader must deliver
fn expected(case: &Case, chunks: &[Vec<u8>]) -> (Vec<F>, bool) {
    let bufsize = buffer_size(case.frag_size as usize);
    if case.datagram {
        let mut out = vec![];
        for d in chunks {
            let d = &d[..d.len().min(bufsize)];
            if case.discard {
                out.extend(
                    rl::scan_discard_complete(d)
                        .frames
                        .iter()
                        .map(|(_, f)| from_ref(f)),
                );
            } else {
                let s = rl::scan_close(d);
                out.extend(s.frames.iter().map(|(_, f)| from_ref(f)));
                if s.error_at.is_some() {
                    return (out, true);
                }
            }
        }
        (out, false)
    } else {
        let all: Vec<u8> = chunks.iter().flatten().copied().collect();
        if case.discard {
            (
                rl::scan_discard(&all)
                    .frames
                    .iter()
                    .map(|(_, f)| from_ref(f))
                    .collect(),
                false,
            )
        } else {
            let s = rl::scan_close(&all);
            (
                s.frames.iter().map(|(_, f)| from_ref(f)).collect(),
                s.error_at.is_some(),
            )
        }
    }
}

/// datagram mode, datagrams longer than the read buffer: where the excess is cut off is the library's business (the
/// buffer holds at least `bufsize` octets). Every choice of a cut at or behind `bufsize`, per datagram, gives an
/// admissible result; returns them all (capped), the reference result for the cut at `bufsize` first.
fn datagram_alternatives(case: &Case, chunks: &[Vec<u8>], bufsize: usize) -> Vec<(Vec<F>, bool)> {
    let mut alts: Vec<(Vec<F>, bool)> = vec![(vec![], false)];
    for d in chunks {
        // candidate cuts: the buffer size, every end of a frame behind it, the whole datagram
        let mut cuts = vec![d.len().min(bufsize)];
        if d.len() > bufsize {
            let full = if case.discard {
                rl::scan_discard_complete(d)
            } else {
                rl::scan_close(d)
            };
            for (at, f) in &full.frames {
                let end = at + rl::encode(f.ctrl, f.dst, f.src, &f.payload).len();
                if end > bufsize {
                    cuts.push(end);
                }
            }
            cuts.push(d.len());
            cuts.dedup();
        }
        let mut next: Vec<(Vec<F>, bool)> = vec![];
        for (frames, ended) in &alts {
            if *ended {
                next.push((frames.clone(), true));
                continue;
            }
            for c in &cuts {
                let part = &d[..*c];
                let mut fr = frames.clone();
                let mut ended = false;
                if case.discard {
                    fr.extend(
                        rl::scan_discard_complete(part)
                            .frames
                            .iter()
                            .map(|(_, f)| from_ref(f)),
                    );
                } else {
                    let sc = rl::scan_close(part);
                    fr.extend(sc.frames.iter().map(|(_, f)| from_ref(f)));
                    ended = sc.error_at.is_some();
                }
                if !next.contains(&(fr.clone(), ended)) {
                    next.push((fr, ended));
                }
            }
            if next.len() > 256 {
                break;
            }
        }
        alts = next;
    }
    alts
}

/// close + datagram mode: a datagram that ends inside a frame may be reported as an error (the session ends there) instead
/// of being dropped silently. True if `got` is exactly what the datagrams up to and including the first one with such
/// an incomplete tail hold, and nothing before it is a framing error.
fn stopped_at_truncated_datagram(chunks: &[Vec<u8>], bufsize: usize, got: &[F]) -> bool {
    let mut frames: Vec<F> = vec![];
    for d in chunks {
        let d = &d[..d.len().min(bufsize)];
        let s = rl::scan_close(d);
        frames.extend(s.frames.iter().map(|(_, f)| from_ref(f)));
        if s.error_at.is_some() {
            return false;
        }
        let end = s
            .frames
            .last()
            .map(|(at, f)| at + rl::encode(f.ctrl, f.dst, f.src, &f.payload).len())
            .unwrap_or(0);
        if end < d.len() {
            return frames[..] == *got;
        }
    }
    false
}

fn is_frame_error(e: &LinkError) -> bool {
    matches!(e, LinkError::BadFrame(_))
}

fn is_eof(e: &LinkError) -> bool {
    matches!(e, LinkError::Stdio(std::io::ErrorKind::UnexpectedEof))
}

pub struct Stream;

impl Prop for Stream {
    type Case = Case;
    const ID: &'static str = "C06";
    const NAME: &'static str = "stream";
    fn rule() -> &'static str {
        "generated streams of frames (any control byte/addresses, payload 0..=250, embedded 0x05 0x64 / frame images), noise, lone sync bytes, truncated and bit-flipped frames under generated chunkings, both error modes, both read modes, frag sizes 249..=2048; oracle: frames delivered by link::reader::Reader == frames found by the independent reference scanner (+ Close mode must end with a frame error exactly where the reference does); non-trivial = multi-block payload not a multiple of 16, or a chunk boundary strictly inside a frame, or noise before a frame, or stream longer than the read buffer"
    }
    fn cases(tier: Tier) -> u32 {
        match tier {
            Tier::Quick => 150_000,
            Tier::Thorough => 20_000_000,
        }
    }
    fn strategy(_tier: Tier) -> BoxedStrategy<Case> {
        case_strategy().boxed()
    }
    fn floors() -> Vec<(&'static str, u32)> {
        vec![
            ("cut_inside_frame", 200),
            ("noise_before_frame", 150),
            ("discard", 300),
            ("close", 200),
            ("datagram", 100),
            ("buffer_wrap", 20),
        ]
    }
    fn run(case: &Case) -> CaseOut {
        let mut out = CaseOut::default();
        let per_item: Vec<Vec<u8>> = case.items.iter().map(|i| item_bytes(i).0).collect();
        let ch = chunks(case, &per_item);
        let total: usize = ch.iter().map(|c| c.len()).sum();
        let (mut exp, mut exp_err) = expected(case, &ch);
        let (got, err) = lib_read(
            case.discard,
            case.datagram,
            case.frag_size as usize,
            &ch,
            exp.len() + 64,
        );
        if case.datagram
            && !case.discard
            && is_eof(&err)
            && (got != exp || exp_err)
            && stopped_at_truncated_datagram(&ch, buffer_size(case.frag_size as usize), &got)
        {
            // the session ended at a datagram that stops in the middle of a frame: reported rather than skipped
            out.label("truncated_datagram_ends_the_session");
            exp = got.clone();
            exp_err = false;
        }
        let overlong = case.datagram
            && ch
                .iter()
                .any(|d| d.len() > buffer_size(case.frag_size as usize));
        if overlong {
            out.label("datagram_longer_than_the_read_buffer");
            if got != exp || exp_err != is_frame_error(&err) {
                let alts = datagram_alternatives(case, &ch, buffer_size(case.frag_size as usize));
                if let Some((f, e)) = alts
                    .iter()
                    .find(|(f, e)| *f == got && *e == is_frame_error(&err))
                    .or_else(|| alts.iter().find(|(f, _)| *f == got))
                {
                    out.label("overlong_datagram_cut_behind_the_minimum");
                    exp = f.clone();
                    exp_err = *e;
                }
            }
        }

        // labels
        out.label(if case.discard { "discard" } else { "close" });
        out.label(if case.datagram { "datagram" } else { "stream" });
        let bufsize = buffer_size(case.frag_size as usize);
        if !case.datagram && total > bufsize {
            out.label("buffer_wrap");
            out.nontrivial = true;
        }
        let mut seen_noise = false;
        let mut off = 0usize;
        let mut bounds = std::collections::BTreeSet::new();
        let mut acc = 0;
        for c in &ch {
            acc += c.len();
            bounds.insert(acc);
        }
        for (it, b) in case.items.iter().zip(per_item.iter()) {
            match it {
                Item::Frame(f) => {
                    if seen_noise {
                        out.label("noise_before_frame");
                        out.nontrivial = true;
                    }
                    if f.payload.len() > 16 && f.payload.len() % 16 != 0 {
                        out.label("multiblock_odd");
                        out.nontrivial = true;
                    }
                    if bounds.range(off + 1..off + b.len()).next().is_some() {
                        out.label("cut_inside_frame");
                        out.nontrivial = true;
                    }
                    if bounds
                        .range(off + 1..off + b.len().min(10))
                        .next()
                        .is_some()
                    {
                        out.label("cut_inside_header");
                    }
                }
                Item::Flipped(_, _) => {
                    out.label("flipped");
                    seen_noise = true;
                }
                _ => {
                    if !b.is_empty() {
                        seen_noise = true;
                    }
                }
            }
            off += b.len();
        }
        if exp.len() >= 2 {
            out.label("two_or_more_frames_expected");
        }

        if got != exp {
            let first = got
                .iter()
                .zip(exp.iter())
                .position(|(a, b)| a != b)
                .unwrap_or(got.len().min(exp.len()));
            let kind = if got.len() < exp.len() && got[..] == exp[..got.len()] {
                "frame-lost"
            } else if got.len() > exp.len() && got[..exp.len()] == exp[..] {
                "extra-frame"
            } else {
                "frame-differs"
            };
            out.fail(
                Fail::new(
                    "differential-frames",
                    format!(
                        "library delivered {} frames, reference scanner finds {}; first difference at frame #{}: lib={:?} ref={:?}; terminating error {:?}",
                        got.len(), exp.len(), first, got.get(first), exp.get(first), err
                    ),
                )
                .with_sig(format!(
                    "C06 differential {} mode={} read={} chunked={}",
                    kind,
                    if case.discard { "discard" } else { "close" },
                    if case.datagram { "datagram" } else { "stream" },
                    !matches!(case.chunking, Chunking::Whole)
                )),
            );
            return out;
        }
        if exp_err {
            if !is_frame_error(&err) {
                out.fail(Fail::new(
                    "close-mode-error",
                    format!(
                        "reference finds a framing error, library ended with {:?}",
                        err
                    ),
                ));
            }
        } else if !is_eof(&err) {
            // an error is not spurious if what follows the last frame is the beginning of a frame that is already
            // certain to be invalid (length octet below 5, a complete block with a bad CRC): reporting it early is as good
            // as waiting for the rest
            let doomed = is_frame_error(&err) && {
                let tail_doomed = |d: &[u8]| {
                    let s = rl::scan_close(d);
                    let end = s
                        .frames
                        .last()
                        .map(|(at, f)| at + rl::encode(f.ctrl, f.dst, f.src, &f.payload).len())
                        .unwrap_or(0);
                    s.error_at.is_none() && rl::doomed_prefix(&d[end.min(d.len())..])
                };
                if case.datagram {
                    ch.iter().any(|d| {
                        tail_doomed(&d[..d.len().min(bufsize)]) || (overlong && tail_doomed(d))
                    })
                } else {
                    tail_doomed(&ch.iter().flatten().copied().collect::<Vec<u8>>())
                }
            };
            if doomed && !case.discard {
                out.label("early_error_on_a_doomed_frame");
            } else {
                out.fail(Fail::new(
                    "spurious-error",
                    format!(
                        "stream is clean to the end for the reference, library ended with {:?}",
                        err
                    ),
                ));
            }
        }
        out
    }
}

fn frame_strategy() -> impl Strategy<Value = F> {
    let addr = prop_oneof![
        4 => any::<u16>(),
        2 => prop_oneof![Just(0u16), Just(1), Just(1024), Just(0xFFEF), Just(0xFFF0), Just(0xFFFC), Just(0xFFFD), Just(0xFFFE), Just(0xFFFF), Just(0x0564), Just(0x6405)],
    ];
    let len = prop_oneof![
        3 => 0usize..=250,
        2 => prop_oneof![Just(0usize), Just(1), Just(15), Just(16), Just(17), Just(31), Just(32), Just(33), Just(249), Just(250), Just(240), Just(241)],
    ];
    let content = prop_oneof![
        3 => Just(0u8),       // random
        1 => Just(1u8),       // contains sync bytes
        1 => Just(2u8),       // contains an embedded frame image
        1 => Just(3u8),       // constant
    ];
    (any::<u8>(), addr.clone(), addr, len, content, any::<u64>()).prop_map(
        |(ctrl, dst, src, len, content, seed)| {
            let mut payload = pseudo_bytes(seed, len);
            match content {
                1 => {
                    let mut i = (seed as usize) % 7;
                    while i + 1 < payload.len() {
                        payload[i] = 0x05;
                        payload[i + 1] = 0x64;
                        i += 5 + (seed as usize >> 8) % 23;
                    }
                }
                2 => {
                    let inner = rl::encode(
                        (seed >> 16) as u8,
                        (seed >> 24) as u16,
                        (seed >> 40) as u16,
                        &pseudo_bytes(seed ^ 0x55, (seed as usize >> 3) % 20),
                    );
                    if inner.len() <= payload.len() {
                        let at = (seed as usize >> 5) % (payload.len() - inner.len() + 1);
                        payload[at..at + inner.len()].copy_from_slice(&inner);
                    }
                }
                3 => {
                    let b = (seed >> 9) as u8;
                    for x in payload.iter_mut() {
                        *x = b;
                    }
                }
                _ => {}
            }
            F {
                ctrl,
                dst,
                src,
                payload,
            }
        },
    )
}

pub fn pseudo_bytes(seed: u64, len: usize) -> Vec<u8> {
    let mut x = seed | 1;
    (0..len)
        .map(|_| {
            x ^= x << 13;
            x ^= x >> 7;
            x ^= x << 17;
            (x >> 24) as u8
        })
        .collect()
}

fn noise_strategy() -> impl Strategy<Value = Vec<u8>> {
    prop_oneof![
        3 => proptest::collection::vec(any::<u8>(), 1..40),
        1 => proptest::collection::vec(prop_oneof![Just(0x05u8), Just(0x64u8), any::<u8>()], 1..12),
        1 => Just(vec![0x05, 0x64, 0x05]),
        1 => Just(vec![0x05, 0x05]),
    ]
}

fn item_strategy() -> impl Strategy<Value = Item> {
    prop_oneof![
        8 => frame_strategy().prop_map(Item::Frame),
        2 => noise_strategy().prop_map(Item::Noise),
        1 => Just(Item::Lone05),
        1 => Just(Item::Sync),
        1 => (frame_strategy(), any::<u16>()).prop_map(|(f, k)| Item::Truncated(f, k)),
        2 => (frame_strategy(), proptest::collection::vec(any::<u16>(), 1..=5)).prop_map(|(f, b)| Item::Flipped(f, b)),
    ]
}

fn chunking_strategy() -> impl Strategy<Value = Chunking> {
    prop_oneof![
        2 => Just(Chunking::Whole),
        1 => Just(Chunking::OneByte),
        4 => proptest::collection::vec(prop_oneof![1u16..20, 1u16..400, Just(292u16), Just(293u16), Just(10u16)], 1..8).prop_map(Chunking::Sizes),
        4 => proptest::collection::vec(prop_oneof![any::<u16>(), 0u16..3000, Just(65535u16)], 1..6).prop_map(Chunking::ItemSplit),
    ]
}

fn case_strategy() -> impl Strategy<Value = Case> {
    (
        prop_oneof![3 => Just(true), 2 => Just(false)],
        prop_oneof![4 => Just(false), 1 => Just(true)],
        prop_oneof![
            Just(249u16),
            Just(250),
            Just(498),
            Just(499),
            Just(2048),
            249u16..=2048
        ],
        proptest::collection::vec(item_strategy(), 1..8),
        chunking_strategy(),
    )
        .prop_map(|(discard, datagram, frag_size, items, chunking)| Case {
            discard,
            datagram,
            frag_size,
            items,
            chunking,
        })
}

// ---------------------------------------------------------------------------------------------
// CRC clause, independent of the reference scanner

#[derive(Clone, Debug, Serialize, Deserialize)]
pub struct BitCase {
    pub discard: bool,
    pub victim: F,
    pub bits: Vec<u16>,
    pub good: F,
    pub chunking: Chunking,
}

pub struct BitErrors;

impl Prop for BitErrors {
    type Case = BitCase;
    const ID: &'static str = "C06";
    const NAME: &'static str = "biterrors";
    fn rule() -> &'static str {
        "a frame with 1..=3 flipped bits (positions generated over the whole frame) followed by an intact frame, any chunking, both error modes; oracle: the damaged frame is never delivered (neither as sent nor as a CRC-ignoring receiver would read it); every delivered frame occurs verbatim, CRCs included, in the received bytes; in Discard mode the intact frame that follows is delivered unless the damaged payload itself contains a frame-header image (decided by the reference scanner); in Close mode the session ends with a frame error; non-trivial = every case (each flips >= 1 bit)"
    }
    fn cases(tier: Tier) -> u32 {
        match tier {
            Tier::Quick => 150_000,
            Tier::Thorough => 20_000_000,
        }
    }
    fn strategy(_tier: Tier) -> BoxedStrategy<BitCase> {
        (
            any::<bool>(),
            frame_strategy(),
            proptest::collection::vec(any::<u16>(), 1..=3),
            frame_strategy(),
            chunking_strategy(),
        )
            .prop_map(|(discard, victim, bits, good, chunking)| BitCase {
                discard,
                victim,
                bits,
                good,
                chunking,
            })
            .boxed()
    }
    fn run(case: &BitCase) -> CaseOut {
        let mut out = CaseOut::default();
        out.nontrivial = true;
        let (bad, flips) = item_bytes(&Item::Flipped(case.victim.clone(), case.bits.clone()));
        let good = case.good.bytes();
        out.label(format!("weight{}", flips.len()));
        let region = if flips.iter().all(|p| p / 8 < 10) {
            "header_only"
        } else if flips.iter().all(|p| p / 8 >= 10) {
            "body_only"
        } else {
            "header_and_body"
        };
        out.label(region);
        let c = Case {
            discard: case.discard,
            datagram: false,
            frag_size: 2048,
            items: vec![],
            chunking: case.chunking.clone(),
        };
        let ch = chunks(&c, &[bad.clone(), good.clone()]);
        let (got, err) = lib_read(case.discard, false, 2048, &ch, 64);
        let all: Vec<u8> = bad.iter().chain(good.iter()).copied().collect();
        // what a receiver that ignored every CRC would read from the damaged bytes
        let lenient = {
            let plen = (bad[2] as usize).saturating_sub(5);
            let mut payload = vec![];
            let mut pos = 10;
            while payload.len() < plen && pos < bad.len() {
                let n = (plen - payload.len()).min(16).min(bad.len() - pos);
                payload.extend_from_slice(&bad[pos..pos + n]);
                pos += n + 2;
            }
            F {
                ctrl: bad[3],
                dst: u16::from_le_bytes([bad[4], bad[5]]),
                src: u16::from_le_bytes([bad[6], bad[7]]),
                payload,
            }
        };
        for g in &got {
            // (a) the transmitted frame, now damaged, is never delivered - neither as sent nor as received
            if *g == lenient || (*g == case.victim && case.victim != case.good) {
                out.fail(Fail::new(
                    "damaged-frame-delivered",
                    format!("frame {:?} was delivered although bits {:?} of its encoding were flipped in transit", g, flips),
                ));
                return out;
            }
            // (b) whatever is delivered is literally present, CRCs and all, in the received bytes
            let enc = g.bytes();
            if !all.windows(enc.len().max(1)).any(|w| w == &enc[..]) {
                out.fail(Fail::new(
                    "fabricated-frame",
                    format!(
                        "delivered frame {:?} does not occur in the received byte stream",
                        g
                    ),
                ));
                return out;
            }
        }
        // a payload may itself contain the image of a frame header (any 8-byte final block starting 05 64 is one,
        // block CRC == header CRC); once the real header is damaged every scanner must honour that image and wait
        // for its body, swallowing the next frame. Recovery is therefore only demanded when the damaged region
        // holds no such image, which the reference scanner decides.
        let reference_finds_good = rl::scan_discard(&all)
            .frames
            .last()
            .map(|(_, f)| from_ref(f))
            == Some(case.good.clone());
        if !reference_finds_good {
            out.label("payload_mimics_header");
        }
        if case.discard {
            if reference_finds_good && got.last() != Some(&case.good) {
                out.fail(
                    Fail::new(
                        "intact-frame-after-damage-lost",
                        format!("discard mode: intact frame after a frame with {} flipped bits was not delivered; delivered={:?} err={:?}", flips.len(), got, err),
                    )
                    .with_sig(format!("C06 biterrors intact-frame-lost chunked={}", !matches!(case.chunking, Chunking::Whole))),
                );
            }
        } else if !is_frame_error(&err) {
            out.fail(Fail::new("close-mode-error", format!("close mode: damaged frame did not end the session with a frame error: {:?} delivered={:?}", err, got)));
        }
        out
    }
}

// ---------------------------------------------------------------------------------------------
// exhaustive sub-domains

fn lib_encode(f: &F) -> Result<Vec<u8>, String> {
    let header = Header::new(
        ControlField::from(f.ctrl),
        AnyAddress::from(f.dst),
        AnyAddress::from(f.src),
    );
    let mut buffer = [0u8; 292];
    let mut cursor = scursor::WriteCursor::new(&mut buffer);
    let r = if f.payload.is_empty() {
        format_header_only(header, &mut cursor).map(|d| d.frame.to_vec())
    } else {
        format_data_frame(
            header,
            Payload::new(f.payload[0], &f.payload[1..]),
            &mut cursor,
        )
        .map(|d| d.frame.to_vec())
    };
    r.map_err(|_| "BadWrite".to_string())
}

fn exhaustive_lengths(seed: u64) -> (u64, Vec<J>, Option<(Fail, J)>) {
    let mut n = 0u64;
    let mut samples = vec![];
    for len in 0..=250usize {
        beat();
        let s = seed.wrapping_mul(31).wrapping_add(len as u64);
        let f = F {
            ctrl: (s >> 3) as u8,
            dst: (s >> 11) as u16,
            src: (s >> 27) as u16,
            payload: pseudo_bytes(s, len),
        };
        let js = J::o(vec![
            ("payload_len", J::U(len as u64)),
            ("ctrl", J::U(f.ctrl as u64)),
            ("dst", J::U(f.dst as u64)),
            ("src", J::U(f.src as u64)),
        ]);
        if len == 17 || len == 250 {
            samples.push(js.clone());
        }
        // (1) library encoder == reference encoder
        let lib = match lib_encode(&f) {
            Ok(b) => b,
            Err(e) => {
                return (
                    n,
                    samples,
                    Some((
                        Fail::new(
                            "encoder-rejects",
                            format!("library cannot format payload of {len} bytes: {e}"),
                        ),
                        js,
                    )),
                )
            }
        };
        if lib != f.bytes() {
            return (
                n,
                samples,
                Some((
                    Fail::new(
                        "encoder-differs",
                        format!("library and reference encodings differ for payload length {len}"),
                    ),
                    js,
                )),
            );
        }
        // round trip, both modes x {whole, one byte at a time, split at every offset}
        for discard in [true, false] {
            let mut chunkings: Vec<Vec<Vec<u8>>> =
                vec![vec![lib.clone()], lib.iter().map(|b| vec![*b]).collect()];
            for cut in 1..lib.len() {
                chunkings.push(vec![lib[..cut].to_vec(), lib[cut..].to_vec()]);
            }
            for ch in chunkings {
                n += 1;
                let (got, err) = lib_read(discard, false, 249, &ch, 8);
                if got.len() != 1 || got[0] != f || !is_eof(&err) {
                    return (
                        n,
                        samples,
                        Some((
                            Fail::new("roundtrip", format!("formatted frame (payload {len}) split as {:?} chunks was read back as {:?} / {:?}", ch.iter().map(|c| c.len()).collect::<Vec<_>>(), got, err)),
                            js,
                        )),
                    );
                }
            }
        }
        // every single-bit error: never delivered; the intact copy that follows is found (discard) / error (close)
        let good = F {
            ctrl: 0xC4,
            dst: 1,
            src: 1024,
            payload: vec![0xC0, 0xC1, 0x01],
        };
        for bit in 0..lib.len() * 8 {
            let mut bad = lib.clone();
            bad[bit / 8] ^= 1 << (bit % 8);
            for discard in [true, false] {
                n += 1;
                let mut stream = bad.clone();
                stream.extend_from_slice(&good.bytes());
                let (got, err) = lib_read(discard, false, 249, &[stream], 8);
                let ok = if discard {
                    got == vec![good.clone()]
                } else {
                    got.is_empty() && is_frame_error(&err)
                };
                // a flipped bit inside the payload could in principle expose an embedded frame; payloads here are pseudo-random, none does
                if !ok {
                    return (
                        n,
                        samples,
                        Some((
                            Fail::new("single-bit-error", format!("payload length {len}, bit {bit} flipped, discard={discard}: delivered {:?}, error {:?}", got, err)),
                            js,
                        )),
                    );
                }
            }
        }
    }
    (n, samples, None)
}

// ---------------------------------------------------------------------------------------------
// several communication sessions through ONE reader: Reader::reset() between them

#[derive(Clone, Debug, Serialize, Deserialize)]
pub struct Sess {
    pub items: Vec<Item>,
    pub chunking: Chunking,
    /// Some(k): the session is abandoned after k frames were read (whatever is still buffered or half parsed is dropped)
    pub stop_after: Option<u8>,
}

#[derive(Clone, Debug, Serialize, Deserialize)]
pub struct SessCase {
    pub discard: bool,
    pub datagram: bool,
    pub frag_size: u16,
    pub sessions: Vec<Sess>,
}

pub struct Sessions;

impl Prop for Sessions {
    type Case = SessCase;
    const ID: &'static str = "C06";
    const NAME: &'static str = "sessions";
    fn rule() -> &'static str {
        "2-4 communication sessions read through one link::reader::Reader with Reader::reset() in between (what the master and outstation tasks do when a connection is lost, re-established or pre-empted): a session ends at end of stream, at a framing error (Close mode), or is abandoned after k frames with bytes still buffered / a frame half parsed (truncated frame, lone sync bytes, header without body at the end); oracle: every session delivers exactly the frames the reference scanner finds in that session's bytes alone - nothing of an earlier session (parser state, buffered bytes, payload) reaches a later one; non-trivial = an earlier session ended inside a frame or with unread bytes"
    }
    fn cases(tier: Tier) -> u32 {
        match tier {
            Tier::Quick => 60_000,
            Tier::Thorough => 6_000_000,
        }
    }
    fn floors() -> Vec<(&'static str, u32)> {
        vec![
            ("ended_inside_frame", 100),
            ("abandoned_with_unread_bytes", 100),
            ("ended_at_error", 50),
        ]
    }
    fn strategy(_tier: Tier) -> BoxedStrategy<SessCase> {
        // a session is likely to end in the middle of something
        let tail = prop_oneof![
            3 => (frame_strategy(), any::<u16>()).prop_map(|(f, k)| Item::Truncated(f, k)),
            1 => (frame_strategy(), prop_oneof![Just(10u16), Just(11), Just(9), Just(2), Just(1)]).prop_map(|(f, n)| {
                // exact prefix lengths: start bytes only, header minus one, whole header, header plus one
                let len = f.bytes().len().max(1);
                Item::Truncated(f, (((n as usize).min(len) << 16) / len + 1).min(65535) as u16)
            }),
            1 => Just(Item::Lone05),
            1 => Just(Item::Sync),
            1 => (frame_strategy(), proptest::collection::vec(any::<u16>(), 1..=3)).prop_map(|(f, b)| Item::Flipped(f, b)),
            3 => frame_strategy().prop_map(Item::Frame),
        ];
        let sess = (
            proptest::collection::vec(item_strategy(), 0..4),
            tail,
            chunking_strategy(),
            proptest::option::weighted(0.35, 0u8..4),
        )
            .prop_map(|(mut items, tail, chunking, stop_after)| {
                items.push(tail);
                Sess {
                    items,
                    chunking,
                    stop_after,
                }
            });
        (
            any::<bool>(),
            prop_oneof![5 => Just(false), 1 => Just(true)],
            prop_oneof![Just(249u16), Just(2048), 249u16..=2048],
            proptest::collection::vec(sess, 2..=4),
        )
            .prop_map(|(discard, datagram, frag_size, sessions)| SessCase {
                discard,
                datagram,
                frag_size,
                sessions,
            })
            .boxed()
    }
    fn run(case: &SessCase) -> CaseOut {
        let mut out = CaseOut::default();
        let modes = LinkModes {
            error_mode: if case.discard {
                LinkErrorMode::Discard
            } else {
                LinkErrorMode::Close
            },
            read_mode: if case.datagram {
                LinkReadMode::Datagram
            } else {
                LinkReadMode::Stream
            },
        };
        let mut reader = Reader::new(modes, case.frag_size as usize);
        let mut payload = FramePayload::new();
        let mut dirty = false; // an earlier session left something behind
        for (n, s) in case.sessions.iter().enumerate() {
            let one = Case {
                discard: case.discard,
                datagram: case.datagram,
                frag_size: case.frag_size,
                items: s.items.clone(),
                chunking: s.chunking.clone(),
            };
            let per_item: Vec<Vec<u8>> = s.items.iter().map(|i| item_bytes(i).0).collect();
            let ch = chunks(&one, &per_item);
            let (mut exp, mut exp_err) = expected(&one, &ch);
            let limit = s.stop_after.map(|k| k as usize).unwrap_or(usize::MAX);

            let (io, mut peer) = pipe(case.datagram);
            for c in &ch {
                peer.send(c);
            }
            peer.close();
            let mut phys = PhysLayer::Verif(io);
            let mut got: Vec<F> = vec![];
            let mut end: Option<LinkError> = None;
            while got.len() < limit {
                match block_on_ready(reader.read_frame(
                    &mut phys,
                    &mut payload,
                    DecodeLevel::nothing(),
                )) {
                    Ok((h, _)) => {
                        got.push(to_f(&h, payload.get()));
                        if got.len() > exp.len() + 64 {
                            panic!("verif/harness: runaway frame count");
                        }
                    }
                    Err(e) => {
                        end = Some(e);
                        break;
                    }
                }
            }
            let bufsize = buffer_size(case.frag_size as usize);
            if case.datagram && ch.iter().any(|d| d.len() > bufsize) {
                // a datagram longer than the read buffer: every cut at or behind the minimum is admissible
                out.label("datagram_longer_than_the_read_buffer");
                let ended_in_error = end.as_ref().map(is_frame_error).unwrap_or(false);
                let alts = datagram_alternatives(&one, &ch, bufsize);
                let fits = |f: &Vec<F>| f.iter().take(limit).eq(got.iter());
                if let Some((f, e)) = alts
                    .iter()
                    .find(|(f, e)| fits(f) && *e == ended_in_error)
                    .or_else(|| alts.iter().find(|(f, _)| fits(f)))
                {
                    exp = f.clone();
                    exp_err = *e;
                }
            }
            if case.datagram
                && !case.discard
                && got.len() < limit
                && end.as_ref().map(is_eof).unwrap_or(false)
                && (got != exp || exp_err)
                && stopped_at_truncated_datagram(&ch, bufsize, &got)
            {
                // the session ended at a datagram that stops in the middle of a frame: reported rather than skipped
                out.label("truncated_datagram_ends_the_session");
                exp = got.clone();
                exp_err = false;
            }
            let want: Vec<F> = exp.iter().take(limit).cloned().collect();
            if dirty && n > 0 {
                out.nontrivial = true;
            }
            if got != want {
                let first = got
                    .iter()
                    .zip(want.iter())
                    .position(|(a, b)| a != b)
                    .unwrap_or(got.len().min(want.len()));
                out.fail(
                    Fail::new(
                        "session-frames",
                        format!(
                            "session #{n} (after {} reset{}): library delivered {} frames, the reference scanner finds {} in this session's bytes; first difference at frame #{first}: lib={:?} ref={:?}; session ended with {:?}",
                            n, if n == 1 { "" } else { "s" }, got.len(), want.len(), got.get(first), want.get(first), end
                        ),
                    )
                    .with_sig(format!(
                        "C06 session-frames mode={} first_session={} after_unfinished={}",
                        if case.discard { "discard" } else { "close" },
                        n == 0,
                        dirty
                    )),
                );
                return out;
            }
            match &end {
                Some(e) if exp_err && got.len() == exp.len() => {
                    if !is_frame_error(e) {
                        out.fail(Fail::new(
                            "close-mode-error",
                            format!("session #{n}: reference finds a framing error, library ended with {:?}", e),
                        ));
                        return out;
                    }
                    out.label("ended_at_error");
                    dirty = true;
                }
                Some(e) => {
                    let all: Vec<u8> = ch.iter().flatten().copied().collect();
                    let sc = rl::scan_close(&all);
                    let end = sc
                        .frames
                        .last()
                        .map(|(at, f)| at + rl::encode(f.ctrl, f.dst, f.src, &f.payload).len())
                        .unwrap_or(0);
                    let doomed = !case.discard
                        && !case.datagram
                        && is_frame_error(e)
                        && sc.error_at.is_none()
                        && rl::doomed_prefix(&all[end.min(all.len())..]);
                    if doomed {
                        out.label("ended_at_error");
                        dirty = true;
                    } else if !is_eof(e) {
                        out.fail(Fail::new(
                            "spurious-error",
                            format!("session #{n}: clean to the end for the reference, library ended with {:?}", e),
                        ));
                        return out;
                    }
                }
                None => {}
            }
            // what did this session leave behind?
            let all: Vec<u8> = ch.iter().flatten().copied().collect();
            let consumed_all = end.is_some();
            if !consumed_all {
                out.label("abandoned_with_unread_bytes");
                dirty = true;
            }
            let complete = rl::scan_discard(&all);
            let last_end = complete
                .frames
                .last()
                .map(|(at, f)| at + rl::encode(f.ctrl, f.dst, f.src, &f.payload).len())
                .unwrap_or(0);
            if all[last_end.min(all.len())..]
                .windows(2)
                .any(|w| w == [0x05, 0x64])
                || all.last() == Some(&0x05)
            {
                out.label("ended_inside_frame");
                dirty = true;
            }
            reader.reset();
        }
        out
    }
}

pub fn run<C: Codec>(tier: Tier) -> i32 {
    let mut ctx = Ctx::<C>::new("C06", tier);
    let seed = ctx.seed;
    ctx.assumptions.push("reference scanner and CRC (harness/wire) are the trusted base; CRC-16/DNP detects all error patterns of weight <= 3 within a block (Hamming distance 6 for blocks <= 16+2 bytes)".into());
    ctx.exhaustive("all 251 payload lengths x {encode == reference, round trip whole / byte-wise / every 2-way split, every single-bit error} x both error modes", || exhaustive_lengths(seed));
    ctx.run::<Stream>();
    ctx.run::<Sessions>();
    ctx.run::<BitErrors>();
    ctx.finish()
}

pub fn replay<C: Codec>(text: &str, known: &[Known]) -> Option<i32> {
    replay_file::<C, Stream>(text, known)
        .or_else(|| replay_file::<C, BitErrors>(text, known))
        .or_else(|| replay_file::<C, Sessions>(text, known))
}
