//! C01 over real UDP sockets (public API only): datagrams of any content and length, from the configured peer and from
//! others, against an outstation spawned with `spawn_outstation_udp`. UDP endpoints run in Discard mode: nothing a peer
//! sends may end the session, so after the script the outstation must still answer a READ at once. The retry delay after
//! a lost session is set to 30 s, the probes wait 5.5 s of wall-clock time in all for its answer: a session that was dropped is
//! seen as deafness, a slow machine is not.
use crate::app::Timeout;
use crate::link::{EndpointAddress, LinkReadMode};
use crate::outstation::database::*;
use crate::outstation::*;
use crate::udp::{spawn_outstation_udp, OutstationUdpConfig, UdpSocketMode};
use crate::verif::engine::*;
use crate::verif::props::fraggen::{self, FragSpec};
use crate::verif::wire::app::{self as ra, func, Fragment};
use crate::verif::wire::link as rl;
use crate::verif::wire::transport::segment;
use proptest::prelude::*;
use serde::{Deserialize, Serialize};
use std::net::UdpSocket;
use std::time::Duration;

const OUT: u16 = 1024;
const MASTER: u16 = 1;

#[derive(Clone, Debug, Serialize, Deserialize)]
pub enum Dgram {
    /// an application fragment from the grammar, properly framed, one link frame per datagram
    Fragment(FragSpec),
    /// a valid READ (class 1/2/3) and its answer is awaited
    Read,
    /// raw octets
    Raw(Vec<u8>),
    /// a datagram without any octets
    Empty,
    /// a datagram longer than any link read buffer (3000 octets of frames and filler)
    Oversize(u8),
    /// two link frames in one datagram
    TwoFrames(FragSpec),
    /// half a link frame, the rest in the next datagram
    Split(FragSpec),
}

#[derive(Clone, Debug, Serialize, Deserialize)]
pub struct Case {
    /// OneToMany (bound socket, replies to the sender) or OneToOne (connected socket)
    pub one_to_many: bool,
    pub stream_read_mode: bool,
    /// the datagrams; the flag says whether it comes from a second socket (another peer) instead of the master's
    pub script: Vec<(Dgram, bool)>,
}

struct App;
impl OutstationApplication for App {}
struct Info;
impl OutstationInformation for Info {}

fn frames_of(fragment: &[u8], seq: u8) -> Vec<Vec<u8>> {
    let (segs, _) = segment(MASTER, fragment, seq);
    segs.iter()
        .map(|s| rl::encode(0xC4, OUT, MASTER, &s.payload()))
        .collect()
}

/// send a READ and wait (wall clock) for a response fragment that carries its sequence number
fn probe(sock: &UdpSocket, to: std::net::SocketAddr, seq: u8, wait: Duration) -> bool {
    let f = Fragment::request(seq & 0x0F, func::READ, ra::h_all(60, 2)).encode();
    for fr in frames_of(&f, 0) {
        let _ = sock.send_to(&fr, to);
    }
    let deadline = std::time::Instant::now() + wait;
    let mut buf = [0u8; 4096];
    while std::time::Instant::now() < deadline {
        let _ = sock.set_read_timeout(Some(Duration::from_millis(50)));
        if let Ok((n, _)) = sock.recv_from(&mut buf) {
            if std::env::var("VERIF_TRACE").is_ok() {
                eprintln!("probe seq {seq}: received {:02x?}", &buf[..n]);
            }
            let mut rest = &buf[..n];
            while let rl::TryFrame::Ok(fr, used) = rl::try_frame(rest) {
                // application header behind the transport octet: control, function
                if fr.payload.len() >= 3
                    && fr.payload[2] == func::RESPONSE
                    && fr.payload[1] & 0x0F == seq & 0x0F
                {
                    return true;
                }
                rest = &rest[used..];
            }
        }
    }
    false
}

pub fn run_case(case: &Case) -> CaseOut {
    let mut out = CaseOut::default();
    let rt = tokio::runtime::Builder::new_multi_thread()
        .worker_threads(2)
        .enable_all()
        .build()
        .expect("runtime");
    // the harness sockets (blocking std sockets on the test thread)
    let Ok(master) = UdpSocket::bind("127.0.0.1:0") else {
        out.label("setup_failed");
        return out;
    };
    let Ok(other) = UdpSocket::bind("127.0.0.1:0") else {
        out.label("setup_failed");
        return out;
    };
    // a free port for the outstation
    let port = match UdpSocket::bind("127.0.0.1:0").and_then(|s| s.local_addr()) {
        Ok(a) => a.port(),
        Err(_) => {
            out.label("setup_failed");
            return out;
        }
    };
    let out_addr: std::net::SocketAddr = format!("127.0.0.1:{port}").parse().unwrap();
    let _guard = rt.enter();
    let mut oc = OutstationConfig::new(
        EndpointAddress::try_new(OUT).unwrap(),
        EndpointAddress::try_new(MASTER).unwrap(),
        EventBufferConfig::all_types(5),
    );
    oc.keep_alive_timeout = None;
    // no unsolicited reporting: a READ is then answered at once in every state this script can reach
    oc.features.unsolicited = Feature::Disabled;
    let handle = spawn_outstation_udp(
        OutstationUdpConfig {
            local_endpoint: out_addr,
            remote_endpoint: master.local_addr().unwrap(),
            socket_mode: if case.one_to_many {
                UdpSocketMode::OneToMany
            } else {
                UdpSocketMode::OneToOne
            },
            link_read_mode: if case.stream_read_mode {
                LinkReadMode::Stream
            } else {
                LinkReadMode::Datagram
            },
            // a session that ends is not replaced for a long time: deafness is visible
            retry_delay: Timeout::from_secs(30).unwrap(),
        },
        oc,
        Box::new(App),
        Box::new(Info),
        DefaultControlHandler::create(),
    );
    handle.transaction(|db| {
        db.add(0, Some(EventClass::Class1), BinaryInputConfig::default());
    });
    // the socket is opened by the task: wait until the outstation answers at all (inconclusive otherwise)
    let mut up = false;
    for k in 0..20 {
        if probe(&master, out_addr, k, Duration::from_millis(250)) {
            up = true;
            break;
        }
    }
    if !up {
        out.label("outstation_did_not_come_up");
        return out;
    }
    let mut seq = 3u8;
    for (d, from_other) in &case.script {
        let sock = if *from_other { &other } else { &master };
        match d {
            Dgram::Fragment(spec) => {
                let bytes = fraggen::build(spec);
                for fr in frames_of(&bytes, seq) {
                    let _ = sock.send_to(&fr, out_addr);
                }
                out.label("fragment");
            }
            Dgram::Read => {
                seq = seq.wrapping_add(1);
                let _ = probe(sock, out_addr, seq, Duration::from_millis(40));
            }
            Dgram::Raw(b) => {
                let _ = sock.send_to(b, out_addr);
                out.label("raw");
            }
            Dgram::Empty => {
                let _ = sock.send_to(&[], out_addr);
                out.label("empty_datagram");
                out.nontrivial = true;
            }
            Dgram::Oversize(fill) => {
                let f = Fragment::request(seq & 0x0F, func::READ, ra::h_all(60, 1)).encode();
                let mut b = vec![];
                for fr in frames_of(&f, seq) {
                    b.extend(fr);
                }
                b.resize(3000, *fill);
                let _ = sock.send_to(&b, out_addr);
                out.label("oversize_datagram");
                out.nontrivial = true;
            }
            Dgram::TwoFrames(spec) => {
                let bytes = fraggen::build(spec);
                let mut b = vec![];
                for fr in frames_of(&bytes, seq) {
                    b.extend(fr);
                }
                b.extend(rl::encode(0xC9, OUT, MASTER, &[]));
                if b.len() <= 4000 {
                    let _ = sock.send_to(&b, out_addr);
                }
                out.label("two_frames_in_a_datagram");
                out.nontrivial = true;
            }
            Dgram::Split(spec) => {
                let bytes = fraggen::build(spec);
                if let Some(fr) = frames_of(&bytes, seq).first() {
                    let cut = fr.len() / 2;
                    let _ = sock.send_to(&fr[..cut], out_addr);
                    let _ = sock.send_to(&fr[cut..], out_addr);
                }
                out.label("frame_split_over_datagrams");
                out.nontrivial = true;
            }
        }
        seq = seq.wrapping_add(1);
        if *from_other {
            out.label("from_another_socket");
        }
    }
    // drain what is still coming in, then the probe: the outstation must answer a READ from its configured master
    std::thread::sleep(Duration::from_millis(20));
    let mut buf = [0u8; 4096];
    let _ = master.set_read_timeout(Some(Duration::from_millis(5)));
    while master.recv_from(&mut buf).is_ok() {}
    let mut answered = false;
    for k in 0..2u8 {
        if probe(
            &master,
            out_addr,
            seq.wrapping_add(5 + k),
            Duration::from_millis(750),
        ) {
            answered = true;
            break;
        }
    }
    if !answered {
        // a loaded machine is not a deaf outstation: one more, long, probe before the verdict (a dropped session stays
        // deaf for the 30 s retry delay)
        out.label("slow_answer_or_deaf");
        answered = probe(
            &master,
            out_addr,
            seq.wrapping_add(11),
            Duration::from_millis(4000),
        );
    }
    if !answered {
        out.fail(
            Fail::new(
                "deaf-after-datagrams",
                format!(
                    "after the datagrams of the script the outstation (UDP, {} socket, discard mode) does not answer a READ from its master within 5.5 s of wall-clock time",
                    if case.one_to_many { "bound" } else { "connected" }
                ),
            )
            .with_sig(format!("C01 udp deaf one_to_many={}", case.one_to_many)),
        );
    }
    drop(handle);
    drop(_guard);
    rt.shutdown_timeout(Duration::from_millis(100));
    out
}

pub struct Udp;
impl Prop for Udp {
    type Case = Case;
    const ID: &'static str = "C01";
    const NAME: &'static str = "udp";
    const TRACK_STALL: bool = true;
    // a failing case costs more than a second of wall-clock time
    const MAX_SHRINK_ITERS: u32 = 24;
    fn rule() -> &'static str {
        "real UDP sockets on 127.0.0.1, public API only (spawn_outstation_udp, bound or connected socket, datagram or stream read mode): scripts of datagrams from the configured master's socket and from another socket - grammar fragments, valid READs, raw octets, EMPTY datagrams, datagrams longer than any read buffer, two link frames in one datagram, a frame split over two datagrams; UDP endpoints run in discard mode, so nothing a peer sends may end the session: afterwards the outstation must answer a READ from its master (2 probes x 750 ms, then one of 4 s of wall-clock time; the retry delay after a lost session is 30 s, so a dropped session shows as deafness); non-trivial = an empty, oversize, packed or split datagram"
    }
    fn strategy(_tier: Tier) -> BoxedStrategy<Case> {
        let d = prop_oneof![
            3 => fraggen::frag_strategy().prop_map(Dgram::Fragment),
            2 => Just(Dgram::Read),
            2 => proptest::collection::vec(any::<u8>(), 1..60).prop_map(Dgram::Raw),
            2 => Just(Dgram::Empty),
            1 => any::<u8>().prop_map(Dgram::Oversize),
            1 => fraggen::frag_strategy().prop_map(Dgram::TwoFrames),
            1 => fraggen::frag_strategy().prop_map(Dgram::Split),
        ];
        (
            any::<bool>(),
            prop_oneof![3 => Just(false), 1 => Just(true)],
            proptest::collection::vec((d, prop_oneof![3 => Just(false), 1 => Just(true)]), 1..8),
        )
            .prop_map(|(one_to_many, stream_read_mode, script)| Case {
                one_to_many,
                stream_read_mode,
                script,
            })
            .boxed()
    }
    fn cases(tier: Tier) -> u32 {
        match tier {
            Tier::Quick => 48,
            Tier::Thorough => 2_000,
        }
    }
    fn run(case: &Case) -> CaseOut {
        run_case(case)
    }
}
